"""C17 — AudioIO / AudioThread: delivery of every chunk once, in order; close always shuts down.

Tie: the unmodified source text of <repo>/audiolazy/lazy_io.py is executed as a second module
whose `threading` is the deterministic scheduler harness/sched.py and whose `pyaudio` /
`_portaudio` are the fakes of harness/fakeaudio.py.  A case = control script + wait + chunk
size + schedule (thread chosen at every yield point).  The Lean transition system replays the
same choices and must show, step by step, the same pending operation and enabledness for every
thread (bisimulation along the schedule), the same outcome (done / deadlock), the same log of
the control script and the same final observables.  Schedules are enumerated from the real
code: all schedules with a bounded number of pre-emptions (CHESS style, by re-execution).

Fine-grained cases (entry "fine"): the played objects are scheduler-aware iterables (`Hooked`):
every pull of a sample is one more yield point (`it<k>.pull`), so a pre-emption can fall in the
middle of the assembly of a chunk — where concurrent players would interfere through anything
shared (chunk buffers, module-level state, the played iterables themselves, the backend).  2–3
players x both chunking strategies (`chunks.default = chunks.struct` / `chunks.array`, restored
after each run) x equal / different chunk sizes and sample formats x own / shared (`the same list
object`, `Stream.copy()` copies, one `thub` object) / raising iterables.  The Lean side replays
the fine-grained transition system `ALV/Model/C17Fine.lean` (one `pull` step per sample, chunk
buffer per player), proved to refine the coarse one (`fine_refines`).
"""
import os
import struct
import time
import warnings
from fractions import Fraction

import common
import sched
import fakeaudio
from props import c17_tr

ID = "C17"
RULE = ("every schedule with <= B pre-emptions (one player: B=2 quick, 3 thorough; two players: B=2; three players: B=1 quick, "
        "2 thorough; each enumeration capped, see harness/props/c17.py:generate) of "
        "each control history x wait in {T,F} x chunk counts, plus random walks over schedules; distinct = distinct "
        "(script, wait, cs, executed schedule, call shape, faults); non-trivial = at least one player thread ran and at "
        "least one context switch between two unfinished threads happened.  Fine-grained families (every pull from a played "
        "iterable is a yield point; harness/props/c17.py:FINE_FAMILIES x {chunks.struct, chunks.array} x wait in {T,F}): "
        "every schedule with <= 2 pre-emptions taken inside chunk assembly (pre-empted thread pulling or about to "
        "write; thorough: <= 3) plus <= 1 pre-emption anywhere (thorough: <= 2) for two players with equal / "
        "different chunk sizes, formats, lengths, control calls, the same list object played twice, Stream.copy() "
        "copies, one thub object, iterables that raise; three players <= 1 (thorough 2) pre-emptions in assembly; "
        "random walks over random 2-3 player configurations.  Call shapes (SHAPES x SHAPE_HISTORIES, <= 1 pre-emption, and "
        "70 % of the random cases): chunk_size by keyword / omitted (chunks.size set for the run), rate / channels / "
        "output_device_index by keyword or omitted, AudioIO(wait) / AudioIO(wait=...) / AudioIO(), api='jack' positional / "
        "keyword / omitted, close() / terminate(), samples spelled as int / float / Fraction / half-integers (float, "
        "Fraction); the pa.open arguments are compared with the Lean spec openArgs.  Backend faults (FAULT_FAMILIES, <= 2 "
        "pre-emptions, and 20 % of the random coarse cases): the (n+1)-th write of a device stream raises; pa.open raising: "
        "extra_checks (differential: the history with the failing call vs the history without it).  With-blocks left "
        "normally / by an exception.  Recording histories (entry rec: REC_HISTORIES x 3 call shapes + random histories of "
        "record / take / stop / close, 1-4 streams, takes past the end, calls after close).  Mixed histories (entry mix: "
        "MIX_FAMILIES x wait in {T,F}, every schedule with <= 2 pre-emptions, plus random walks over random mixed scripts): "
        "record() calls, play calls whose pa.open raises, a terminate() that raises, in the same history as 1-3 player threads "
        "with pause / resume / stop / join and one or two close calls.  Translator self-test: the skeleton extractor run on 8 "
        "edited copies of the source text (go.set -> go.clear, swapped statements, changed guard, dropped finally, operation "
        "moved out of its with-block, join before stop, start before append, unknown call) must give a different Gen text or "
        "a TranslationError; comment / local-name edits must give the same text")
TRUSTED = [
    "hand-written Lean transition system ALV/Model/C17.lean of AudioIO.play/close/thread_finished and "
    "AudioThread.run/stop/pause/play (modelled, not verified); atomicity = one threading/backend operation plus the "
    "local code up to the next one; the variant of stop() / run() (Cfg.fixed) is READ from the regenerated skeleton "
    "(below; the old behavioural probe is kept as a cross-check) — on the "
    "repaired source the liveness theorems that apply are the ones with cfg.fixed = true (src_shutdown).  An iterable that raises (or "
    "a backend write that raises) is the step `write` with nothing left and `fail` set (Cfg.fails by player index)",
    "fine-grained cases: hand-written ALV/Model/C17Fine.lean (chunk assembly: one pull per step, buffer per player; "
    "both chunking strategies have this shape) tied step by step; proved to refine the coarse system, raising iterables "
    "included when run has its try/finally (fine_refines under Sound); played objects are wrapped in props/c17.py:Hooked "
    "(a yield point before each item is handed over; the wrapped object itself — list, Stream.copy() copy, thub copy — is "
    "advanced atomically); which variant of `run` (exception leaves the loop with / without the epilogue: FCfg.dieFixed) "
    "is read from the regenerated skeleton of run()",
    "translator harness/props/c17_tr.py (ast -> lean/ALV/Gen/C17Src.lean, regenerated on every check): trusted are (1) the "
    "vocabulary mapping from source expressions to Skel operations (self.lock of AudioIO = manager lock, of AudioThread = "
    "the thread's own lock; self.halting of AudioIO = the close lock, of AudioThread = the stop flag; a local bound to "
    "_threads[0] / AudioThread(...) is a thread, one bound to _recordings[-1] a recording stream; write_stream(st, chunk, "
    "self.chunk_size, False) = one backend write), (2) the subset semantics assumed: statements run in source order, a "
    "`with <lock>:` acquires on entry and releases on every exit, `try … finally` runs its finally on every exit, the "
    "listed operations are the only ones of these methods that touch a shared object — every other statement must be made "
    "of whitelisted shapes and mention none of the synchronisation names (c17_tr.SYNC_NAMES), else TranslationError; (3) "
    "ALV.C17.yieldsWith as the reading of WHICH operations are yield points and which locks are held there.  What the "
    "src_* theorems give: the regenerated skeleton is the documented one (decide), the model's program counters are its "
    "yield points in source order with the same held locks, enabledness of every step is the one of its yield point, the "
    "switches are read from it; and (src_run_successor) the SUCCESSOR structure of stepPlayer is computed from it: a "
    "control-flow interpreter of Skel (ALV/Model/C17Next.lean: firstWith / afterWith, nextPc; trusted as the reading of "
    "sequencing, with, for / while / break, short-circuit guards with go.is_set() as a yield point, try/finally, inlined "
    "calls) run over the regenerated AudioThread.run gives, for every state and every enabled step of a player, exactly "
    "the program counter stepPlayer moves to; the same for stepMain inside each call (src_main_successor: play with "
    "__init__ inlined, close with stop() inlined, pause / play / stop; the guard values are mainGv, the one piece of "
    "control state besides the yield point is how the manager's lock block of close was left: kMRel none = by the "
    "break); and (src_player_step_is_interpreted) stepPlayer IS the interpretation of the regenerated run(): enabled "
    "exactly when the pending yield point is, and then the whole successor state = the effect of the skeleton's "
    "operation at that yield point (applyYP), then of the local operations passed (applyLocalP), then the next yield "
    "point as program counter — hand written and trusted there are only applyYP / applyLocalP (what ONE operation of the "
    "vocabulary does to the state) and playerGv (which fields the guards read); and (src_main_step_is_interpreted) "
    "the effects of stepMain inside a call likewise: successor state = applyYM of the skeleton's operation at the "
    "pending yield point, then applyLocalM of the local operations passed (finished = True, creation of the thread "
    "object, _threads.append, halting = True), up to the program counter (src_main_successor) and the return to the "
    "script.  Hand written and trusted for stepMain: applyYM / applyLocalM, mainGv, the data a program counter "
    "carries (which thread), the script level (nextCmd, the logged observation) — tied by the step-by-step replay; any "
    "change of a guard or of the order still "
    "breaks src_skeleton_is_documented",
    "call shapes: ALV/Spec/C17.lean PlayCall / openArgs / frames / samplesPerChunk are a hand-written reading of "
    "AudioThread.__init__ (defaults, _STRUCT2PYAUDIO, the setdefault of output_device_index); the driver resolves the "
    "call as written with them (the chunk size of the modelled play IS samplesPerChunk) and the harness compares the "
    "keyword arguments the fake backend received; record(): the expected pa.open arguments are computed in props/c17.py",
    "recording histories: hand-written ALV/Model/C17Rec.lean (RecStream generator, AudioIO.record / recording_finished / "
    "the recordings loop of close) in its INTENDED behaviour, tied call by call (results of every take, reads issued, "
    "device streams closed, _recordings, terminate); the fake input device delivers devChunk; since c60d4c5 (D26: "
    "recording_finished removes by identity) the code under test follows it on every history, and a call that raises "
    "where the model has none is a model AND a spec disagreement (the model-side predicate Driver/C17.lean:finishesLater "
    "only names a return of D26 in the signature)",
    "mixed histories: hand-written ALV/Model/C17Mix.lean, a layer over the coarse system that leaves it untouched (record() = "
    "one pa.open; a play whose pa.open raises = lock, go.set, pa.open, release, with the lock as the flag `shadow`; close() "
    "closes the listed recordings, the last one first, between its loop over _threads and terminate; a raising terminate changes "
    "only what the caller of close sees), tied step by step like the coarse system (labels with the thread-object and "
    "device-stream numbering of the run: tix / six), proved to refine the coarse system (mix_refines); recordings in mixed "
    "histories are only created and closed (take / stop are main-thread-only and tied by the rec entry).  extra_checks still "
    "compares the real code with itself on failed opens (history with the failing play call vs the history without it)",
    "harness/sched.py (deterministic scheduler in place of `threading`) and harness/fakeaudio.py (fake pyaudio/_portaudio "
    "with the PortAudio stream protocol, fault injection, an input device, host API infos); CPython `threading` semantics "
    "assumed, attribute reads/writes between two yield points are taken as atomic (GIL)",
]
ASSUMPTIONS = [
    "one control thread issues play/pause/play/stop/join/close; players are AudioThread objects created by AudioIO.play",
    "audio iterables are finite (lists, generators over lists, Stream.copy() / thub copies of a finite Stream, "
    "possibly raising after their samples), samples (ints, floats, Fractions, exactly representable in float32) and the "
    "float zero padding packable in the sample format (dfmt 'f'; 'i'/'h' only with whole chunks), channels 1 or 2 by the "
    "`channels` keyword (the deprecated `nchannels` alias is not exercised); recording streams: one channel, dfmt 'f', "
    "chunk_size > 0; take / stop in histories of the control thread alone (entry rec), record() and the draining by close() also "
    "in the same history as player threads (entry mix; no record() after close there: the backend refuses pa.open after "
    "terminate)",
    "backends: PyAudio-compatible; a write that raises is covered (the thread still closes its stream); an open that raises "
    "inside play and a terminate() that raises are modelled and tied (entry mix; theorems open_failure_leaves_no_trace, "
    "raising_terminate_changes_nothing); a backend whose stream.close() raises is NOT in the model and NOT generated: on the "
    "real code (fake backend, faults close) the player thread dies in its epilogue before thread_finished, stays in _threads, and "
    "close() spins for ever, wait true or false (the shape of D21) - reported as finding D28 with "
    "proposed_fixes/D28-stream-close-raises-close-spins.diff (try/finally around stream.close(): close() then returns, raising "
    "AssertionError because the backend left a stream open)",
    "fine-grained system (Lean, all schedules, any number of players, per-player chunk sizes): "
    "fine_assembly_own_samples (every configuration, raising iterables included: stream ++ buffer ++ unpulled = the "
    "player's own audio, buffer <= cs, chunks of exactly cs samples); under Sound (run has its try/finally, or no "
    "iterable raises): fine_refines (a fine step is a coarse step or a pull), fine_delivered_prefix/complete, "
    "fine_safety, fine_terminal_iff, fine_rank_decreases, fine_steps_bounded, fine_maximal_run_exists, fine_shutdown, "
    "fine_wait_close_delivers_all, fine_shutdown_with_raising_iterables (the former PENDING statement, now a theorem); "
    "delivered_failing (an un-stopped player whose iterable raises delivered exactly audio[: len//cs*cs]); "
    "die_close_spins (code without try/finally: close loops for ever over the dead thread, finding D21, fixed in /repo), "
    "die_fixed_close_returns",
    "liveness is proved for maximal runs of the model WITHOUT a fairness assumption: every step of every thread "
    "decreases a ranking function (theorem rank_decreases), so every schedule is finite (steps_bounded, bound "
    "1 + sum over calls: play 27+8*chunks, pause/play/stop 4, join 2, close 12) and can be continued to a terminal "
    "state (maximal_run_exists)",
    "liveness theorems (Lean, all schedules, any number of players, any chunk counts, any script): terminal_states "
    "(a run only ends with the script finished or joining a player blocked in go.wait() on a cleared event), "
    "close_never_blocks_fixed / close_returns_fixed / shutdown_fixed (repaired stop(), wait=False: close returns whatever "
    "was paused; scripts without join — a join of a paused player blocks by the script's own doing, on the real code too), "
    "close_returns_no_pause / shutdown_no_pause (no pause calls: both variants of stop(), wait true/false, joins allowed), "
    "close_returns_wait(_checked) / shutdown_wait(_checked) (wait=True, repaired stop(): no player still in its loop is "
    "paused when close is called — decidable from the script alone: closeUnpaused); afterwards (shutdown): close returned, "
    "all streams closed, terminate called exactly once, no player alive at the end of the run (at the instant close returns "
    "a player may still have its last lock release to do: known finding D15, theorem alive_after_close_reachable); "
    "wait_close_delivers_all (wait=True, no stop() call in the script: when close has returned every stream received its "
    "whole chunk sequence)",
    "call shapes (Lean): play_defaults, play_omitted_is_default, explicit_device_wins, frames_per_write; recording "
    "streams (Lean, all histories): rec_delivered_in_order, rec_manager_invariant, rec_closed_after_close, rec_remove_by_identity; "
    "the spec functions themselves: chunks_are_the_spec (chunksOf = chunksSpec = the ONLY sequence of cs-sample chunks whose "
    "concatenation is the padded audio), delivered_is_spec / fine_delivered_is_spec (deliveredOK holds in every reachable state), "
    "pull_moves_one_sample; mixed histories (Lean, all schedules): mix_refines, mix_delivered, mix_closed_after (both kinds of "
    "stream closed, terminate exactly once), mix_recordings_invariant, mix_shutdown (nobody alive), open_failure_leaves_no_trace, "
    "raising_terminate_changes_nothing; liveness of the mixed system is NOT proved (the extra calls only block on the manager "
    "lock, whose holder is always enabled: manager_lock_never_blocks) - the tie compares done / deadlock on every explored schedule",
    "NOT claimed: close(wait=True) with a player paused at that time blocks for ever (known finding D10b; model-level "
    "theorems deadlock_pause_close_wait, deadlock_pause_close_wait_fixed); "
    "the tie still carries liveness on the explored schedules of the real code (outcome done/deadlock compared step by "
    "step with the model)",
]
MANIFEST = {
    "text": "Lean 4 theorems about a hand-written interleaving transition system of AudioIO/AudioThread, for ALL schedules, "
            "any number of players, chunk counts and control scripts, played iterables that raise included: safety "
            "(delivery, terminate once, closed after close, backend protocol, lock order) AND liveness (every run is finite "
            "by a ranking function; close returns and everything is shut: shutdown_fixed, shutdown_no_pause, shutdown_wait; "
            "every terminal state characterised: terminal_states); the same for the fine-grained system in which every pull "
            "of a sample from a played iterable is a step (refinement fine_refines + chunk-assembly invariant "
            "fine_assembly_own_samples + fine_shutdown + fine_shutdown_with_raising_iterables); the call as written -> "
            "pa.open arguments and chunk size (openArgs, defaults as theorems); recording streams over all histories of "
            "record/take/stop/close (in order, closed exactly once, everything shut after close); tied to /repo by a "
            "step-by-step bisimulation check of the unmodified lazy_io.py source under a deterministic scheduler on every "
            "check, with scheduler-aware played iterables, both chunking strategies, 1..3 players, call-shape and sample-"
            "spelling variety, backend writes / opens that raise, with-blocks left by an exception, recording histories",
    "note": "Trusted: Lean kernel, axioms propext/Classical.choice/Quot.sound, harness/sched.py + harness/fakeaudio.py "
            "(CPython threading semantics assumed); the step functions of the models are hand written and validated against "
            "the code step by step along every explored schedule / call by call along every recording history; the "
            "synchronisation skeleton they follow (operations, order, lock nesting, guards, try/finally) and the two variant "
            "switches are extracted from the source on every run (translator c17_tr.py, theorems src_*), and the successor "
            "structure of stepPlayer / of stepMain inside each call is the interpretation of the regenerated methods "
            "(src_run_successor, src_main_successor), and stepPlayer as a whole is that interpretation with per-operation "
            "effects (src_player_step_is_interpreted; for stepMain inside a call: src_main_step_is_interpreted).  No "
            "PENDING statement.  Known findings excluded by explicit hypotheses / recognised signatures: wait=True with a "
            "paused player (D10b), the last lock release of a player that left _threads before close looked (D15).  "
            "D26 (close / take with two active recording streams raised TypeError) is repaired in /repo (c60d4c5) and "
            "compared strictly.",
    "technique": "interleaving transition system in Lean 4 with inductive invariants over all schedules and a ranking "
                 "function for termination; TRANSLATOR harness/props/c17_tr.py: the synchronisation skeleton of the 11 anchored "
                 "methods of AudioIO / AudioThread is regenerated from lazy_io.py with ast on every check as a Lean value "
                 "(ALV/Gen/C17Src.lean, deep embedding ALV.C17.Skel) and the src_* theorems re-check (decide) that it is the "
                 "skeleton the model documents, that the model's program counters are its yield points with the same held "
                 "locks, read the model's switches Cfg.fixed / FCfg.dieFixed from it, and (src_run_successor) that every step of "
                 "a player thread / (src_main_successor) of the control thread inside play / close / pause / play / stop moves "
                 "its program counter where a control-flow interpreter of the skeleton (ALV/Model/C17Next.lean) goes from "
                 "that yield point of the regenerated method, and stepPlayer = that interpreter with per-operation effects "
                 "(src_player_step_is_interpreted; stepMain inside a call: src_main_step_is_interpreted); step-by-step bisimulation against "
                 "the real code under a deterministic scheduler",
}

BUDGET = 300
_mod = None
_variant = None
_die_variant = None
_obs_cache = {}          # key -> observation (filled by the exploration and by impl)
_chosen = {}             # key -> executed schedule (needed by request)


def lazy_io():
    global _mod
    if _mod is None:
        warnings.simplefilter("ignore")
        _mod = fakeaudio.load_lazy_io(common.REPO)
    return _mod


def samples(m, n):
    """audio of the m-th play call of a script: n small integers (exact in float32)"""
    return [100 * (m + 1) + j for j in range(1, n + 1)]


def is_fine(c):
    return c.get("entry") == "fine"


def play_opts(c, cmd):
    """(chunk size, sample format, source, raises) of one play command.  Source = None: a list of its
    own; [how, g]: source g of the case ("list" = the SAME object played by every such call, "tee" =
    a Stream.copy() of one Stream, "thub" = one thub(...) object asked for a copy by each player)."""
    o = cmd[2] if len(cmd) > 2 else {}
    return o.get("cs", c["cs"]), o.get("dfmt", "f"), o.get("src"), bool(o.get("fail"))


def audio_of(c, m, cmd):
    """the samples the m-th play call of the script hands to the device"""
    src = play_opts(c, cmd)[2]
    if src is None:
        return samples(m, cmd[1])
    return samples(20 + src[1], c["sources"][src[1]])


FAIL_MSG = "played iterable raises"
WRITE_FAIL_MSG = "injected write failure"
DEFAULT_CHUNKS_SIZE = 2048
API_INFOS = [{"name": "ALSA", "defaultOutputDevice": 2, "defaultInputDevice": 3},
             {"name": "JACK Audio Connection Kit", "defaultOutputDevice": 7, "defaultInputDevice": 5}]
KINDS = ("int", "float", "fraction", "half-float", "half-fraction")


def shape_of(c):
    """How the calls of the case are WRITTEN (the model sees what they mean):
    cs_how   "kw" chunk_size=cs | "default" chunk_size omitted, chunks.size = cs during the run
    rate     None (omitted: 44100) | a number given by keyword
    channels None (omitted: 1) | 2 given by keyword (chunks of chunk_size * channels samples)
    wait_how "pos" AudioIO(wait) | "kw" AudioIO(wait=wait) | "omit" AudioIO() (only when wait is false)
    api      False | True: AudioIO(..., api="jack") with two host APIs known to the backend
    device   None | explicit output_device_index keyword (wins over the api default)
    kind     spelling of the samples: int | float | Fraction | half-integers as float / Fraction
    close_how "close" | "terminate" (alias)"""
    sh = {"cs_how": "kw", "rate": None, "channels": None, "wait_how": "pos", "api": False, "device": None,
          "kind": "int", "close_how": "close"}
    sh.update(c.get("shape") or {})
    if c["wait"] and sh["wait_how"] == "omit":
        sh["wait_how"] = "kw"
    return sh


def spell(xs, kind):
    if kind == "float":
        return [float(x) for x in xs]
    if kind == "fraction":
        return [Fraction(x) for x in xs]
    if kind == "half-float":
        return [x / 2.0 for x in xs]
    if kind == "half-fraction":
        return [Fraction(x, 2) for x in xs]
    return list(xs)


def kind_of(c, cmd):
    """integer sample formats take the plain integers only"""
    return shape_of(c)["kind"] if play_opts(c, cmd)[1] == "f" else "int"


def call_of(c, cmd):
    """keyword arguments of the play call as written -> (kwargs for the impl, call object for the driver)"""
    sh = shape_of(c)
    cs, dfmt, _src, _fail = play_opts(c, cmd)
    own = len(cmd) > 2 and "cs" in cmd[2]
    kw, call = {}, {}
    if own or sh["cs_how"] == "kw":
        kw["chunk_size"] = call["chunk_size"] = cs
    if dfmt != "f":
        kw["dfmt"] = call["dfmt"] = dfmt
    if sh["rate"] is not None:
        kw["rate"] = call["rate"] = sh["rate"]
    if sh["channels"] is not None:
        kw["channels"] = call["channels"] = sh["channels"]
    if sh["device"] is not None:
        kw["output_device_index"] = call["device"] = sh["device"]
    return kw, call


def samples_per_chunk(c, cmd):
    return play_opts(c, cmd)[0] * (shape_of(c)["channels"] or 1)


def is_mix(c):
    return c.get("entry") == "mix"


def open_faults(c):
    """ordinals of the pa.open calls that raise: the play calls marked {"openfail": true} (a play on a
    finished manager raises ThreadError before it opens anything; a record() after terminate is refused
    by the backend before the call counts)"""
    out, n, closed = [], 0, False
    for cmd in full_script(c):
        if cmd[0] == "play":
            if not closed:
                if len(cmd) > 2 and cmd[2].get("openfail"):
                    out.append(n)
                n += 1
        elif cmd[0] == "record":
            if not closed:
                n += 1
        elif cmd[0] == "close":
            closed = True
    return out


def write_faults(c):
    """{player index: number of writes that succeed before one raises} (JSON keys are strings)"""
    return {int(k): v for k, v in (c.get("faults") or {}).get("write", {}).items()}
FMT_SIZE = {"f": 4, "h": 2, "i": 4}     # formats AudioThread knows (_STRUCT2PYAUDIO); "b"/"B" too narrow


class Hooked(object):
    """Scheduler-aware iterable: every item asked of it is a yield point (`it<k>.pull`, k = the
    asking player), so a pre-emption can fall in the middle of the assembly of a chunk.  The end of
    the iteration is not a yield point; an iterable made to fail raises at one more pull."""

    def __init__(self, obj, owner, fail=False):
        self.obj, self.owner, self.fail = obj, owner, fail

    def __iter__(self):
        for x in self.obj:
            sched.iter_point(self.owner)
            yield x
        if self.fail:
            sched.iter_point(self.owner)
            raise ValueError(FAIL_MSG)


def full_script(c):
    sc = [list(x) for x in c["script"]]
    if c.get("with"):
        sc.append(["close"])
    return sc


# ------------------------------------------------------------------------------------------
# one scheduled run of the real code
# ------------------------------------------------------------------------------------------
class _Pin(object):
    """Scheduled threads hand over to each other thousands of times per second; on this machine
    a cross-CPU wake-up costs ~0.5 ms and a same-CPU one ~5 us, so the run is pinned to one CPU."""

    chosen = None
    chosen_at = 0.0

    @staticmethod
    def _idlest(cpus):
        """the allowed CPU that was idlest over the last 40 ms (other checks run on this machine)"""
        def snap():
            out = {}
            with open("/proc/stat") as f:
                for line in f:
                    if line.startswith("cpu") and line[3].isdigit():
                        parts = line.split()
                        out[int(parts[0][3:])] = int(parts[4]) + int(parts[5])
            return out
        try:
            a = snap()
            time.sleep(0.04)
            b = snap()
            return max(cpus, key=lambda c: b.get(c, 0) - a.get(c, 0))
        except (OSError, ValueError, IndexError):
            return cpus[os.getpid() % len(cpus)]

    def __enter__(self):
        try:
            self.save = os.sched_getaffinity(0)
            cpus = sorted(self.save)
            now = time.time()
            if _Pin.chosen not in cpus or now - _Pin.chosen_at > 15:
                _Pin.chosen = self._idlest(cpus)
                _Pin.chosen_at = now
            os.sched_setaffinity(0, {_Pin.chosen})
        except (AttributeError, OSError):
            self.save = None

    def __exit__(self, *a):
        if self.save is not None:
            try:
                os.sched_setaffinity(0, self.save)
            except OSError:
                pass


class _BlockError(Exception):
    """raised by the control script inside `with AudioIO(...) as io:` (must come out of the block)"""


def pend_str(pend):
    return ",".join("%d:%s:%d" % (t, l, 1 if e else 0) for t, l, e in pend)


def decode(data, cs, dfmt="f", scale=1):
    try:
        vals = struct.unpack("%d%s" % (cs, dfmt), data)
    except struct.error:
        return ["bad-length:%d" % len(data)]
    out = []
    for v in vals:
        f = Fraction(v) * scale
        out.append(int(f) if f.denominator == 1 else str(f))
    return out


def _left_behind(trace):
    out = []
    prev = None
    for ch, p in trace:
        if ch is None:
            break
        x = None
        if prev is not None and prev != ch:
            x = next(("%s:%d" % (l, 1 if e else 0) for t, l, e in p if t == prev), "")
        out.append(x)
        prev = ch
    return out


def run_case(c, pinned=False):
    """Execute script under schedule on the real code; returns the observation."""
    if not pinned:
        with _Pin():
            return run_case(c, True)
    mod = lazy_io()
    be = fakeaudio.new_backend()
    script = c["script"]
    wait = bool(c["wait"])
    fine = is_fine(c)
    ctx = {"io": None, "ths": [], "log": [], "started": []}

    def namer(obj):
        io = ctx["io"]
        if io is not None:
            if obj is getattr(io, "halting", None):
                return "hlock"
            if obj is getattr(io, "lock", None):
                return "mlock"
        for i, th in enumerate(S.thread_objs):
            d = th.__dict__
            if obj is d.get("lock"):
                return "tlock%d" % i
            if obj is d.get("go"):
                return "go%d" % i
        return None

    S = sched.Scheduler(c.get("schedule", ()), BUDGET, namer)
    be.owner = S
    sh = shape_of(c)
    be.faults = {"write": write_faults(c), "open": list((c.get("faults") or {}).get("open", [])) + open_faults(c),
                 "terminate": bool((c.get("faults") or {}).get("terminate")),
                 "close": list((c.get("faults") or {}).get("close", []))}
    be.apis = [dict(a) for a in API_INFOS] if sh["api"] else []

    # the played objects (built outside the scheduled world: no yield point)
    shared = {}
    if fine:
        import audiolazy
        uses = {}
        for cmd in script:
            if cmd[0] == "play" and play_opts(c, cmd)[2] is not None:
                how, g = play_opts(c, cmd)[2]
                uses[g] = uses.get(g, 0) + 1
        for g, n in enumerate(c.get("sources", [])):
            data = samples(20 + g, n)
            shared[g] = {"list": Hooked(list(data), S), "tee": audiolazy.Stream(list(data)),
                         "thub": Hooked(audiolazy.thub(audiolazy.Stream(list(data)), max(uses.get(g, 0), 1)), S)}

    def played_object(m, cmd):
        cs, dfmt, src, fail = play_opts(c, cmd)
        if not fine:
            return spell(samples(m, cmd[1]), kind_of(c, cmd))
        if src is None:
            return Hooked(spell(samples(m, cmd[1]), kind_of(c, cmd)), S, fail)
        how, g = src
        if how == "tee":
            return Hooked(shared[g]["tee"].copy(), S, fail)
        return shared[g][how]

    def snapshot(io):
        # (a thread object whose pa.open raised was never started: it is no player thread)
        return [[bool(th._alive_now()) for th in S.thread_objs if th._rec is not None], len(io._pa._streams)]

    def body(io):
        nplay = 0
        for cmd in script:
            op = cmd[0]
            try:
                if op == "play":
                    m = nplay
                    nplay += 1
                    cs, dfmt, src, fail = play_opts(c, cmd)
                    kw, _call = call_of(c, cmd)
                    obj = played_object(m, cmd)
                    half = kind_of(c, cmd).startswith("half") and src is None
                    ctx["started"].append({"m": m, "cs": samples_per_chunk(c, cmd), "frames": cs, "dfmt": dfmt,
                                           "fail": fail, "scale": 2 if half else 1})
                    try:
                        th = io.play(obj, **kw)
                    except Exception:
                        ctx["started"].pop()
                        raise
                    ctx["ths"].append(th)
                    ctx["log"].append(["play", "ok"])
                elif op == "close":
                    getattr(io, sh["close_how"])()
                    ctx["log"].append(["close", "ok"] + snapshot(io))
                elif op == "record":
                    ctx["started"].append({"m": None, "rec": True, "cs": cmd[1], "frames": cmd[1], "dfmt": "f",
                                           "fail": False, "scale": 1})
                    try:
                        r = io.record(chunk_size=cmd[1])
                    except Exception:
                        ctx["started"].pop()
                        raise
                    ctx.setdefault("recs", []).append(r)
                    ctx["log"].append(["record", "ok"])
                else:
                    i = cmd[1]
                    if i >= len(ctx["ths"]):
                        ctx["log"].append(["skipped", "ok"])
                        continue
                    th = ctx["ths"][i]
                    if op == "join":
                        th.join()
                        ctx["log"].append(["join", "ok"])
                    else:
                        getattr(th, {"resume": "play"}.get(op, op))()
                        ctx["log"].append(["ctl", "ok"])
            except Exception as e:
                ctx["log"].append([op, common.err_kind(e)])

    def manager():
        a, kw = [], {}
        if sh["wait_how"] == "pos":
            a.append(wait)
        elif sh["wait_how"] == "kw":
            kw["wait"] = wait
        if sh["api"]:
            if a and len(script) % 2:
                a.append("jack")
            else:
                kw["api"] = "jack"
        return mod.AudioIO(*a, **kw)

    def main():
        if c.get("with"):
            try:
                with manager() as io:
                    ctx["io"] = io
                    body(io)
                    if c.get("with_raise"):
                        raise _BlockError()     # an exception inside the with-block
            except _BlockError:
                ctx["with_exc"] = "propagated"
            ctx["log"].append(["close", "ok"] + snapshot(io))
        else:
            io = manager()
            ctx["io"] = io
            body(io)

    obs = {}

    def capture():
        io = ctx["io"]
        sts = []
        for k, st in enumerate(be.streams):
            info = ctx["started"][k] if k < len(ctx["started"]) else {
                "m": None, "cs": c["cs"], "frames": c["cs"], "dfmt": "f", "fail": False, "scale": 1}
            wf = be.faults["write"].get(k)
            sts.append({"written": [decode(d, info["cs"], info["dfmt"], info["scale"]) for d, _n in st.writes],
                        "input": bool(info.get("rec")), "closes": st.calls.count("close"), "reads": len(st.reads),
                        "nframes": sorted({n for _d, n in st.writes}),
                        "state": st.state, "m": info["m"], "cs": info["cs"], "frames": info["frames"],
                        "dfmt": info["dfmt"], "fail": info["fail"],
                        "write_failed": "write!" in st.calls, "write_fault": wf,
                        "open": {a: b for a, b in sorted(st.kwargs.items())}})
        obs.update({
            "log": [list(e) for e in ctx["log"]],
            "streams": sts,
            "alive": [bool(th._alive_now()) for th in S.thread_objs if th._rec is not None],
            "halting": [bool(getattr(th, "halting", False)) for th in S.thread_objs if th._rec is not None],
            "ghosts": sum(1 for th in S.thread_objs if th._rec is None),
            "recordings": len(getattr(io, "_recordings", [])) if io is not None else 0,
            "terminates": be.terminates,
            "opens": be.opens,
            "finished": bool(getattr(io, "finished", False)) if io is not None else False,
            "threads": len(getattr(io, "_threads", [])) if io is not None else 0,
            "protocol_errors": list(be.protocol_errors),
            "with_exc": ctx.get("with_exc"),
        })

    S.on_end = capture
    strategy = c.get("strategy", "struct")
    saved_default = mod.chunks.default
    saved_size = type(mod.chunks).size
    if strategy != "struct":
        mod.chunks.default = getattr(mod.chunks, strategy)
    if sh["cs_how"] == "default":
        type(mod.chunks).size = c["cs"]       # "Default chunk size can be ... changed via chunks.size"
    try:
        outcome = S.run(main)
    finally:
        mod.chunks.default = saved_default
        type(mod.chunks).size = saved_size
    io = ctx["io"]
    if "log" not in obs:
        capture()
    crashes = [[r.tid, r.crash] for r in S.recs if r is not None and r.crash]
    # a player whose iterable was made to raise (or whose backend write was made to raise) dies on
    # that exception: expected, listed apart
    fails = {k + 1 for k, st in enumerate(obs["streams"]) if st["fail"]}
    wfails = {k + 1 for k, st in enumerate(obs["streams"]) if st["write_failed"]}
    obs.update({
        "outcome": outcome,
        "steps": ["%d|%s" % (ch, pend_str(p)) for ch, p in S.trace if ch is not None],
        "final": pend_str(S.trace[-1][1]) if S.trace and S.trace[-1][0] is None else "",
        "chosen": list(S.chosen),
        # label of the operation executed at each step; at a context switch also what the thread
        # switched away from had pending ("label:enabled", "" when it had finished)
        "own": [next((l for t, l, _e in p if t == ch), "") for ch, p in S.trace if ch is not None],
        "left": _left_behind(S.trace),
        "crashes": [x for x in crashes if not (x[0] in fails and FAIL_MSG in x[1])
                    and not (x[0] in wfails and WRITE_FAIL_MSG in x[1])],
        "died": sorted(x[0] - 1 for x in crashes if (x[0] in fails and FAIL_MSG in x[1])
                       or (x[0] in wfails and WRITE_FAIL_MSG in x[1])),
        "hook_errors": S.hook_errors[:3],
    })
    if io is not None:
        io.finished = True            # neutralise AudioIO.__del__ (it would call close() at gc time)
    return obs


def _switches():
    """the model's switches as the translator reads them from the source under test ({} when it does not translate)"""
    global _switch_cache
    if _switch_cache is None:
        try:
            _switch_cache = c17_tr.switches()
        except Exception:
            _switch_cache = {}
    return _switch_cache


_switch_cache = None


def probe_variant():
    """Which `stop()` does the source under test have?  Probed from its behaviour: the event
    operation stop() issues under the thread's lock (`go.clear()` as first coded, `go.set()` since
    proposed_fixes/D10-close-paused.diff is applied)."""
    global _variant
    if _variant is None:
        o = run_case({"script": [["play", 0], ["stop", 0]], "wait": False, "cs": 2, "schedule": []})
        labs = [s.split("|")[0] + ":" + p.split(":")[1]
                for s in o["steps"] for p in s.split("|")[1].split(",") if p.split(":")[0] == s.split("|")[0]]
        _variant = "fixed" if "0:go0.set" in labs[labs.index("0:tlock0.acq"):] else "as-coded"
    return _variant


def probe_die_variant():
    """What does `AudioThread.run` do when the played iterable raises?  Probed from the behaviour:
    "as-coded" = the exception leaves `run` at once (no epilogue: the device stream stays open, the
    thread stays in `_threads`); "fixed" = the epilogue still runs (`try … finally`,
    proposed_fixes/D21-player-dies-close-spins.diff): the next operation of the thread is the
    acquisition of its own lock."""
    global _die_variant
    if _die_variant is None:
        o = run_case({"entry": "fine", "script": [["play", 1, {"fail": True}], ["join", 0]], "wait": False, "cs": 2,
                      "schedule": []})
        mine = [p.split(":")[1] for s in o["steps"] if s.startswith("1|")
                for p in s.split("|")[1].split(",") if p.startswith("1:")]
        _die_variant = "fixed" if "tlock0.acq" in mine else "as-coded"
    return _die_variant


def variant():
    """`Cfg.fixed` of the requests: READ from the regenerated synchronisation skeleton of stop() / run() (translator
    harness/props/c17_tr.py; the Lean reader is ALV.C17.variantOf, theorem src_variant_is_modelled).  Only when the source
    does not translate, or is neither variant of the model (then an obligation is broken anyway), the old behavioural
    probe chooses the variant the replay is compared with, so that the failing-input search still has a model to run."""
    v = _switches().get("fixed")
    if v is None:
        return probe_variant()
    return "fixed" if v else "as-coded"


def die_variant():
    """`FCfg.dieFixed` of the requests: read from the skeleton of run() (is the loop inside `try … finally` with the
    epilogue as its `finally`; Lean reader ALV.C17.dieVariantOf); fallback as for `variant`."""
    v = _switches().get("dieFixed")
    if v is None:
        return probe_die_variant()
    return "fixed" if v else "as-coded"


# ------------------------------------------------------------------------------------------
# case generation: bounded pre-emption enumeration on the real code
# ------------------------------------------------------------------------------------------
def key(c):
    if is_rec(c):
        return common.json.dumps(["rec", c["script"], c.get("shape") or {}], sort_keys=True)
    k = [c["script"], c["wait"], c["cs"], bool(c.get("with")) + 2 * bool(c.get("with_raise")), c.get("schedule", [])]
    if is_fine(c):
        k += ["fine", c.get("strategy", "struct"), c.get("sources", [])]
    if is_mix(c):
        k += ["mix"]
    if c.get("shape") or c.get("faults"):
        k += [c.get("shape") or {}, c.get("faults") or {}]
    return common.json.dumps(k, sort_keys=True)


def _case(cfg, chosen):
    c = dict(cfg)
    c.setdefault("entry", "sched")
    c["schedule"] = list(chosen)
    return c


def _own_label(step, tid):
    """pending operation of thread `tid` in a step record `chosen|tid:label:enabled,…`"""
    for p in step.split("|")[1].split(","):
        q = p.split(":")
        if int(q[0]) == tid:
            return q[1]
    return None


def in_assembly(label):
    """pre-emption points of the fine-grained families: the thread switched away from is asking
    its iterable for a sample or is about to write the chunk it has assembled"""
    return label is not None and (label.endswith(".pull") or label.endswith(".write"))


def explore(cfg, bound, cap, pre_ok=None):
    """All schedules of cfg with at most `bound` pre-emptions (at most `cap` of them).  With
    `pre_ok`, a pre-emption is only taken where pre_ok(pending label of the pre-empted thread)."""
    out = []
    stack = [([], bound)]
    runaway = 0
    while stack and len(out) < cap and runaway < 3:
        prefix, left = stack.pop()
        c = _case(cfg, prefix)
        o = run_case(c, True)
        if o["outcome"] == "bad-schedule":
            continue
        chosen = o["chosen"]
        c = _case(cfg, chosen)
        k = key(c)
        _obs_cache[k] = o
        out.append(c)
        if o["outcome"] != "done" and o["outcome"] != "deadlock":
            runaway += 1          # step budget exhausted (livelock): reported, not expanded
            continue
        for i in range(len(prefix), len(chosen)):
            pend = o["steps"][i].split("|")[1].split(",")
            en = [int(p.split(":")[0]) for p in pend if p.endswith(":1")]
            prev = chosen[i - 1] if i > 0 else None
            for a in en:
                if a == chosen[i]:
                    continue
                cost = 1 if (prev in en and a != prev) else 0
                if cost and pre_ok is not None and not pre_ok(_own_label(o["steps"][i], prev)):
                    continue
                if left - cost >= 0:
                    stack.append((chosen[:i] + [a], left - cost))
    return out


def random_walks(cfg, rng, n):
    """Schedules chosen uniformly among the enabled threads at every step."""
    out = []
    for _ in range(n):
        prefix = []
        for _round in range(16):
            o = run_case(_case(cfg, prefix), True)
            if o["outcome"] == "bad-schedule":
                break
            chosen = o["chosen"]
            if o["outcome"] not in ("done", "deadlock"):
                c = _case(cfg, chosen)
                _obs_cache[key(c)] = o
                out.append(c)
                break
            # pick a random point after the prefix and a random enabled alternative there
            pts = []
            for i in range(len(prefix), len(chosen)):
                pend = o["steps"][i].split("|")[1].split(",")
                en = [int(p.split(":")[0]) for p in pend if p.endswith(":1")]
                if len(en) > 1:
                    pts.append((i, en))
            if not pts or rng.random() < 0.25 or _round == 15:
                c = _case(cfg, chosen)
                _obs_cache[key(c)] = o
                out.append(c)
                break
            i, en = pts[rng.randrange(min(len(pts), 6))]
            prefix = chosen[:i] + [rng.choice(en)]
    return out


HISTORIES_1 = [
    [["play", 3], ["close"]],
    [["play", 3], ["join", 0], ["close"]],
    [["play", 4], ["pause", 0], ["resume", 0], ["close"]],
    [["play", 3], ["pause", 0], ["close"]],
    [["play", 3], ["stop", 0], ["close"]],
    [["play", 2], ["close"], ["play", 2], ["close"]],
    [["play", 3], ["pause", 0], ["resume", 0], ["join", 0], ["close"]],
    [["play", 3], ["stop", 0], ["join", 0], ["close"]],
    [["play", 3], ["pause", 0], ["stop", 0], ["close"]],
    [["close"], ["play", 2]],
    [["play", 3], ["pause", 0], ["resume", 0], ["stop", 0], ["close"]],
    [["play", 4], ["stop", 0], ["resume", 0], ["close"]],
    [["play", 0], ["close"]],
    [["play", 2], ["pause", 3], ["close"], ["close"]],
]
HISTORIES_2 = [
    [["play", 2], ["play", 3], ["close"]],
    [["play", 2], ["play", 2], ["pause", 1], ["resume", 1], ["stop", 0], ["close"]],
    [["play", 3], ["play", 1], ["join", 1], ["close"]],
    [["play", 2], ["play", 2], ["pause", 0], ["close"]],
]
HISTORIES_3 = [
    [["play", 2], ["play", 1], ["play", 2], ["close"]],
    [["play", 1], ["play", 2], ["play", 1], ["stop", 1], ["close"]],
]


# fine-grained families: (name, play calls, rest of the script, sources).  Default chunk size 2.
def _src(how, g=0):
    return {"src": [how, g]}


FINE_FAMILIES = [
    # two players alive at once with the same chunk size and format (one key for anything pooled by it)
    ("2p-same-key", [["play", 3], ["play", 3]], [["close"]], []),
    ("2p-same-key-uneven", [["play", 5], ["play", 1]], [["close"]], []),
    # different chunk sizes, different formats (integer formats cannot take the float zero padding:
    # lengths are multiples of the chunk size there)
    ("2p-diff-size", [["play", 3], ["play", 4, {"cs": 3}]], [["close"]], []),
    ("2p-diff-fmt", [["play", 2], ["play", 4, {"dfmt": "i"}]], [["close"]], []),
    ("2p-diff-fmt-h", [["play", 4, {"dfmt": "h"}], ["play", 3]], [["close"]], []),
    # control calls while both assemble chunks
    ("2p-ctl", [["play", 3], ["play", 4]], [["pause", 0], ["resume", 0], ["stop", 1], ["close"]], []),
    ("2p-join", [["play", 2], ["play", 3]], [["join", 0], ["close"]], []),
    # iterables that are shared or related
    ("shared-list", [["play", 3, _src("list")], ["play", 3, _src("list")]], [["close"]], [3]),
    ("shared-list-diff-size", [["play", 3, _src("list")], ["play", 3, dict(_src("list"), cs=3)]], [["close"]], [3]),
    ("tee-copies", [["play", 3, _src("tee")], ["play", 3, _src("tee")]], [["close"]], [3]),
    ("thub-copies", [["play", 3, _src("thub")], ["play", 3, _src("thub")]], [["close"]], [3]),
    # an iterable that raises half-way: the player thread dies
    ("raises-1p", [["play", 3, {"fail": True}]], [["close"]], []),
    ("raises-2p", [["play", 1, {"fail": True}], ["play", 3]], [["close"]], []),
    ("raises-join", [["play", 2, {"fail": True}]], [["join", 0], ["close"]], []),
]
FINE_FAMILIES_3 = [
    ("3p-same-key", [["play", 2], ["play", 3], ["play", 1]], [["close"]], []),
    ("3p-mixed", [["play", 2], ["play", 3, {"cs": 3}], ["play", 2, {"dfmt": "i"}]], [["close"]], []),
]
STRATEGIES = ("struct", "array")
# thorough tier: families explored with <= 2 pre-emptions ANYWHERE (the others: <= 1 anywhere)
THOROUGH_ANYWHERE = ("2p-same-key", "2p-diff-size", "2p-ctl", "shared-list", "thub-copies")


def fine_cfg(plays, tail, sources, wait, strategy, cs=2):
    return {"entry": "fine", "script": [list(x) for x in plays] + [list(x) for x in tail], "wait": wait, "cs": cs,
            "with": False, "strategy": strategy, "sources": list(sources)}


def random_fine_cfg(rng):
    """2–3 players, random lengths / chunk sizes / formats / sources, optional control calls"""
    cs = rng.choice([1, 2, 2, 3])
    nplayers = rng.choice([2, 2, 2, 3])
    sources = [rng.randint(1, 5)] if rng.random() < 0.3 else []
    how = rng.choice(["list", "tee", "thub"])
    plays = []
    for k in range(nplayers):
        o = {}
        r = rng.random()
        own = cs
        if r < 0.25:
            own = o["cs"] = rng.choice([1, 2, 3, 4])
        if sources and (k < 2 or rng.random() < 0.5):
            o["src"] = [how, 0]
            n = sources[0]
        else:
            n = rng.randint(0, 6)
            if rng.random() < 0.2:
                o["dfmt"] = rng.choice(["i", "h"])
                n = own * rng.randint(0, 2)
            elif rng.random() < 0.1:
                o["fail"] = True
        plays.append(["play", n, o] if o else ["play", n])
    tail = []
    for _ in range(rng.choice([0, 0, 1, 2])):
        tail.append([rng.choice(["pause", "resume", "stop", "join"]), rng.randrange(nplayers)])
    tail.append(["close"])
    cfg = fine_cfg(plays, tail, sources, rng.random() < 0.6, rng.choice(STRATEGIES), cs)
    if rng.random() < 0.5:
        cfg["shape"] = random_shape(rng, fine=True)
    return cfg


def generate_fine(rng, tier, scale):
    """Fine-grained cases: pre-emption inside chunk assembly, 2–3 players x both strategies."""
    quick = tier == "quick"
    cases = []
    if scale == 1:
        for fi, (name, plays, tail, sources) in enumerate(FINE_FAMILIES):
            for si, strategy in enumerate(STRATEGIES):
                for wi, wait in enumerate((True, False)):
                    cfg = fine_cfg(plays, tail, sources, wait, strategy)
                    if quick:
                        # every schedule with <= 2 pre-emptions taken inside chunk assembly; with <= 1
                        # pre-emption anywhere for one (strategy, wait) combination of each family
                        cases += explore(cfg, 2, 120, in_assembly)
                        if (fi + si + wi) % 4 == 0:
                            cases += explore(cfg, 1, 120)
                    else:
                        cases += explore(cfg, 3, 1500, in_assembly)
                        if name in THOROUGH_ANYWHERE:
                            cases += explore(cfg, 2, 2500)
                        else:
                            cases += explore(cfg, 1, 400)
        for fi, (name, plays, tail, sources) in enumerate(FINE_FAMILIES_3):
            for si, strategy in enumerate(STRATEGIES):
                for wi, wait in enumerate((True, False)):
                    cfg = fine_cfg(plays, tail, sources, wait, strategy)
                    if quick:
                        if (fi + si + wi) % 2 == 0:
                            cases += explore(cfg, 1, 150, in_assembly)
                    else:
                        cases += explore(cfg, 2, 2000, in_assembly)
    for _ in range((60 if quick else 1200) * scale):
        cfg = random_fine_cfg(rng)
        cases += random_walks(cfg, rng, 2)
    return cases


def random_shape(rng, fine=False):
    """how the calls are written: every dimension of shape_of, mostly non-default"""
    sh = {}
    if rng.random() < 0.4:
        sh["cs_how"] = "default"
    if rng.random() < 0.35:
        sh["rate"] = rng.choice([8000, 22050, 48000])
    if not fine and rng.random() < 0.2:
        sh["channels"] = 2
    sh["wait_how"] = rng.choice(["pos", "kw", "omit"])
    if rng.random() < 0.3:
        sh["api"] = True
    if rng.random() < 0.15:
        sh["device"] = rng.choice([0, 4])
    sh["kind"] = rng.choice(KINDS)
    if rng.random() < 0.25:
        sh["close_how"] = "terminate"
    return sh


# call shapes explored systematically (one dimension away from the plain call each, and all at once)
SHAPES = [
    {"cs_how": "default"},
    {"rate": 8000, "wait_how": "kw"},
    {"channels": 2, "kind": "float"},
    {"wait_how": "omit", "kind": "fraction"},
    {"api": True, "kind": "half-float"},
    {"api": True, "device": 4, "close_how": "terminate"},
    {"cs_how": "default", "rate": 48000, "channels": 2, "wait_how": "kw", "api": True, "kind": "half-fraction",
     "close_how": "terminate"},
]
SHAPE_HISTORIES = [
    [["play", 3], ["close"]],
    [["play", 4], ["pause", 0], ["resume", 0], ["close"]],
    [["play", 0], ["play", 5], ["close"], ["play", 1]],
]
# a backend write that raises after n writes (player index -> n): the thread must still close its
# stream and leave `_threads`, close() must return
FAULT_FAMILIES = [
    ([["play", 5], ["close"]], {"0": 0}),
    ([["play", 5], ["close"]], {"0": 1}),
    ([["play", 5], ["close"]], {"0": 2}),
    ([["play", 4], ["close"]], {"0": 2}),          # as many good writes as the audio has chunks: no failure
    ([["play", 4], ["play", 3], ["close"]], {"1": 1}),
    ([["play", 5], ["stop", 0], ["close"]], {"0": 1}),
    ([["play", 5], ["pause", 0], ["resume", 0], ["join", 0], ["close"]], {"0": 2}),
]


# mixed histories (entry "mix"): record() calls, play calls whose pa.open raises ({"openfail": true}) and a
# terminate() that raises, in the same history as the player threads
_OF = {"openfail": True}
MIX_FAMILIES = [
    ([["record", 2], ["play", 3], ["close"]], False),
    ([["play", 3], ["record", 2], ["play", 2], ["record", 1], ["close"]], False),
    ([["play", 3], ["play", 2, _OF], ["play", 2], ["close"]], False),
    ([["record", 1], ["play", 3], ["pause", 0], ["resume", 0], ["play", 1, _OF], ["close"], ["play", 1], ["close"]], False),
    ([["play", 3], ["record", 2], ["close"]], True),
    ([["record", 1], ["play", 2, _OF], ["play", 2], ["stop", 0], ["close"], ["play", 2, _OF], ["close"]], True),
    ([["play", 2], ["play", 3], ["play", 1, _OF], ["record", 2], ["join", 0], ["close"]], False),
    ([["play", 1], ["pause", 7], ["record", 2], ["play", 4, _OF], ["close"]], False),
]


def random_mix_cfg(rng):
    script, nplayers = [], 0
    for _ in range(rng.randint(2, 6)):
        r = rng.random()
        if r < 0.3:
            script.append(["play", rng.randint(0, 5)])
            nplayers += 1
        elif r < 0.5:
            script.append(["record", rng.choice([1, 2, 3])])
        elif r < 0.7:
            script.append(["play", rng.randint(0, 3), dict(_OF)])
        elif nplayers:
            script.append([rng.choice(["pause", "resume", "stop", "join"]), rng.randrange(nplayers + (rng.random() < 0.1))])
        else:
            script.append(["record", 2])
    # (no record() after close: the backend refuses pa.open after terminate — a protocol error by itself)
    script.append(["close"])
    if rng.random() < 0.3:
        script.append(rng.choice([["play", 2], ["play", 1, dict(_OF)], ["close"]]))
    cfg = {"entry": "mix", "script": script, "wait": rng.random() < 0.5, "cs": rng.choice([1, 2, 3]), "with": False}
    if rng.random() < 0.3:
        cfg["faults"] = {"terminate": True}
    return cfg


def generate_mix(rng, tier, scale):
    quick = tier == "quick"
    cases = []
    if scale == 1:
        for h, termfail in MIX_FAMILIES:
            for wait in (False, True):
                cfg = {"entry": "mix", "script": [list(x) for x in h], "wait": wait, "cs": 2, "with": False}
                if termfail:
                    cfg["faults"] = {"terminate": True}
                cases += explore(cfg, 2, 130 if quick else 4000)
    for _ in range((50 if quick else 1500) * scale):
        cases += random_walks(random_mix_cfg(rng), rng, 2)
    return cases


def _resize(script, rng, lo, hi):
    return [[c[0], rng.randint(lo, hi)] if c[0] == "play" else list(c) for c in script]


def generate(rng, tier, scale=1):
    lazy_io()
    cases = []
    quick = tier == "quick"
    with _Pin():
        if scale == 1:
            for hi, h in enumerate(HISTORIES_1):
                for wait in (False, True):
                    cfg = {"script": h, "wait": wait, "cs": 2, "with": (hi % 5 == 0 and h[-1] == ["close"])}
                    if cfg["with"]:
                        cfg["script"] = h[:-1]
                        cfg["with_raise"] = bool(hi % 2) != wait
                    cases += explore(cfg, 2 if quick else 3, 1500 if quick else 12000)
            for h in HISTORIES_2:
                for wait in (False, True):
                    cfg = {"script": h, "wait": wait, "cs": 2, "with": False}
                    cases += explore(cfg, 2 if quick else 3, 500 if quick else 6000)
            for h in HISTORIES_3:
                for wait in (False, True):
                    cfg = {"script": h, "wait": wait, "cs": 3, "with": False}
                    cases += explore(cfg, 1 if quick else 2, 300 if quick else 3000)
            for si, shp in enumerate(SHAPES):
                for hi, h in enumerate(SHAPE_HISTORIES):
                    cfg = {"script": h, "wait": bool((si + hi) % 2), "cs": 2, "with": False, "shape": shp}
                    cases += explore(cfg, 1 if quick else 2, 40 if quick else 600)
            for fi, (h, wf) in enumerate(FAULT_FAMILIES):
                for wait in (False, True):
                    cfg = {"script": h, "wait": wait, "cs": 2, "with": False, "faults": {"write": wf}}
                    if fi % 3 == 1:
                        cfg["shape"] = {"cs_how": "default", "kind": "half-float"}
                    cases += explore(cfg, 2, 120 if quick else 1500)
            if not quick:
                # chunk counts 0..4 for every one-player history
                for h in HISTORIES_1:
                    for nchunks in (0, 1, 2, 3, 4):
                        n = max(0, 2 * nchunks - (nchunks % 2))
                        cfg = {"script": [[c[0], n] if c[0] == "play" else list(c) for c in h],
                               "wait": bool(nchunks % 2), "cs": 2, "with": False}
                        cases += explore(cfg, 2, 1200)
        # random schedules over random variations of the histories
        nrand = (80 if quick else 1500) * scale
        pool = HISTORIES_1 + HISTORIES_2 + HISTORIES_3
        for _ in range(nrand):
            h = _resize(rng.choice(pool), rng, 0, 7)
            if rng.random() < 0.4:
                extra = rng.choice([["pause", 0], ["resume", 0], ["stop", 0], ["close"], ["play", 2], ["stop", 1]])
                h.insert(rng.randrange(1, len(h) + 1), extra)
            cfg = {"script": h, "wait": rng.random() < 0.5, "cs": rng.choice([1, 2, 3]),
                   "with": rng.random() < 0.2}
            if cfg["with"] and rng.random() < 0.5:
                cfg["with_raise"] = True
            if rng.random() < 0.7:
                cfg["shape"] = random_shape(rng)
            if rng.random() < 0.2:
                cfg["faults"] = {"write": {str(rng.randrange(2)): rng.randint(0, 3)}}
            cases += random_walks(cfg, rng, 2)
        cases += generate_fine(rng, tier, scale)
        cases += generate_mix(rng, tier, scale)
    # recording histories
    if scale == 1:
        for h in REC_HISTORIES:
            for shp in ({}, {"cs_how": "default", "api": True, "rate": 8000}, {"close_how": "terminate"}):
                c = {"entry": "rec", "script": [list(x) for x in h], "wait": False, "cs": 2}
                if shp:
                    c["shape"] = shp
                cases.append(c)
    for _ in range((250 if quick else 6000) * scale):
        cases.append(random_rec_case(rng))
    # distinct
    seen, out = set(), []
    for c in cases:
        k = key(c)
        if k not in seen:
            seen.add(k)
            out.append(c)
    return out



# ------------------------------------------------------------------------------------------
# recording streams (entry "rec"): histories of record / take / stop / close of the control thread
# ------------------------------------------------------------------------------------------
def is_rec(c):
    return c.get("entry") == "rec"


def dev_chunk(i, k, n):
    """what the fake input device delivers: the k-th read of n frames on stream i
    (ALV.C17Rec.devChunk has the same numbers)"""
    return [1000 * (i + 1) + k * n + j for j in range(n)]


def run_rec(c):
    """script: ["record", cs] | ["take", i, n] | ["stop", i] | ["close"]; shape: how record() is written"""
    mod = lazy_io()
    be = fakeaudio.new_backend()
    be.owner = None                  # one thread only: no scheduler, every operation acts directly
    sh = c.get("shape") or {}
    be.apis = [dict(a) for a in API_INFOS] if sh.get("api") else []

    class _Input(dict):
        def __missing__(self, i):
            return lambda k, n: struct.pack("%df" % n, *dev_chunk(i, k, n))
    be.input = _Input()
    ctx = {"io": None, "recs": [], "log": [], "visible": [], "aborted": None}

    def ints(xs):
        out = []
        for v in xs:
            f = Fraction(v)
            out.append(int(f) if f.denominator == 1 else str(f))
        return out

    def main():
        a, kw = [], {}
        if sh.get("api"):
            kw["api"] = "jack"
        io = mod.AudioIO(*a, **kw)
        ctx["io"] = io
        for j, cmd in enumerate(c["script"]):
            op = cmd[0]
            try:
                if op == "record":
                    kw = {}
                    if sh.get("cs_how") != "default":
                        kw["chunk_size"] = cmd[1]
                    else:
                        type(mod.chunks).size = cmd[1]
                    if sh.get("rate") is not None:
                        kw["rate"] = sh["rate"]
                    r = io.record(**kw)
                    ctx["recs"].append(r)
                    ctx["visible"].append([])
                    ctx["log"].append(["record", "ok"])
                elif op == "close":
                    getattr(io, sh.get("close_how", "close"))()
                    ctx["log"].append(["close", "ok"])
                else:
                    i = cmd[1]
                    if i >= len(ctx["recs"]):
                        ctx["log"].append(["skipped", "ok"])
                        continue
                    r = ctx["recs"][i]
                    if op == "take":
                        xs = ints(r.take(cmd[2]))
                        ctx["visible"][i] += xs
                        ctx["log"].append(["take", xs])
                    else:
                        r.stop()
                        ctx["log"].append(["stop", "ok"])
            except Exception as e:
                k = type(e).__name__
                ctx["log"].append([op, "IOError" if k in ("OSError", "IOError") else common.err_kind(e)])
                if not (op == "record" and k in ("OSError", "IOError")):
                    ctx["aborted"] = j       # an unexpected exception: the history stops here
                    return

    # a loop of the code under test that never ends (no yield point to stop it at): line budget
    lines = [0]

    def tracer(frame, event, arg):
        lines[0] += 1
        if lines[0] > 400000:
            raise _LineBudget()
        return tracer

    saved_size = type(mod.chunks).size
    outcome = "done"
    import sys
    try:
        sys.settrace(tracer)
        main()
    except _LineBudget:
        outcome = "budget"
    finally:
        sys.settrace(None)
        type(mod.chunks).size = saved_size
    io = ctx["io"]
    obs = {
        "outcome": outcome,
        "log": ctx["log"],
        "streams": [{"reads": len(st.reads), "nframes": sorted(set(st.reads)), "closes": st.calls.count("close"),
                     "state": st.state, "open": {a: b for a, b in sorted(st.kwargs.items())}} for st in be.streams],
        "recs": [{"recording": bool(r.recording), "visible": ctx["visible"][k]} for k, r in enumerate(ctx["recs"])],
        "recordings": len(getattr(io, "_recordings", [])) if io is not None else 0,
        "terminates": be.terminates,
        "finished": bool(getattr(io, "finished", False)) if io is not None else False,
        "crashes": [],
        "aborted": ctx["aborted"],
        "chosen": [],
    }
    if io is not None:
        io.finished = True
    # generators left suspended would run their `finally` at garbage-collection time, inside some
    # later run: finish them now, away from the manager
    for r in ctx["recs"]:
        try:
            r.device_manager = _Sink()
            r.stop()
            for _x in r:
                pass
        except Exception:
            pass
    return obs


class _Sink(object):
    def recording_finished(self, recst):
        pass


class _LineBudget(BaseException):
    pass


def rec_spec_problems(c, io, drv):
    out = []
    if io["outcome"] != "done":
        out.append(("run-does-not-end", str(io["outcome"])))
    if io["aborted"] is not None:
        e = io["log"][-1]
        out.append(("call-raises", "%s raised %s (call %d of the history)" % (e[0], e[1], io["aborted"])))
    for k, r in enumerate(io["recs"]):
        st = io["streams"][k] if k < len(io["streams"]) else None
        if st is None:
            out.append(("rec-delivered", "recording %d has no device stream" % k))
            continue
        cs = (st["nframes"] or [st["open"].get("frames_per_buffer")])[0]
        data = [x for j in range(st["reads"]) for x in dev_chunk(k, j, cs)]
        if r["visible"] != data[:len(r["visible"])]:
            out.append(("rec-delivered", "recording %d handed out %r, the device delivered %r" % (k, r["visible"], data)))
        if st["closes"] > 1:
            out.append(("rec-closed-twice", "device stream %d closed %d times" % (k, st["closes"])))
    if io["terminates"] > 1:
        out.append(("terminate-count", "terminate called %d times" % io["terminates"]))
    closed = any(e[0] == "close" and e[1] == "ok" for e in io["log"])
    if closed and io["aborted"] is None:
        if io["terminates"] != 1:
            out.append(("terminate-count", "terminate called %d times after close" % io["terminates"]))
        if io["recordings"]:
            out.append(("recordings-left", "_recordings not empty after close"))
        for k, st in enumerate(io["streams"]):
            if st["state"] != "closed" or st["closes"] != 1:
                out.append(("open-after-close", "input stream %d: state %s, closed %d times" % (k, st["state"], st["closes"])))
        if any(r["recording"] for r in io["recs"]):
            out.append(("recording-after-close", "a RecStream is still recording after close"))
    if not drv["spec"]["delivered"]:
        out.append(("rec-delivered", "the model's own run breaks the delivery invariant"))
    return out


def rec_model_problems(c, io, drv):
    out = []
    m = drv["model"]
    if io["aborted"] is not None:
        # the history stopped at an exception the model does not have (the model is total: no call of
        # a recording history raises, apart from record() after terminate): a disagreement in itself
        j = io["aborted"]
        out.append("call %d (%s) raised %s, the model has %r there" % (
            j, io["log"][-1][0], io["log"][-1][1], m["log"][j] if j < len(m["log"]) else None))
        if io["log"][:j] != m["log"][:j]:
            out.append("log before the exception: impl %r model %r" % (io["log"][:j], m["log"][:j]))
        return out
    if io["log"] != m["log"]:
        out.append("log: impl %r model %r" % (io["log"], m["log"]))
    sh = c.get("shape") or {}
    for k, st in enumerate(io["streams"]):
        if k >= len(m["streams"]):
            out.append("input stream %d unknown to the model" % k)
            break
        ms = m["streams"][k]
        if st["reads"] != ms["reads"] or st["closes"] != ms["closes"] or (st["state"] == "closed") != ms["done"]:
            out.append("input stream %d reads/closes/closed: impl %s/%s/%s model %s/%s/%s" % (
                k, st["reads"], st["closes"], st["state"] == "closed", ms["reads"], ms["closes"], ms["done"]))
        if st["nframes"] not in ([], [ms["cs"]]):
            out.append("input stream %d: frames per read %r, chunk size %d" % (k, st["nframes"], ms["cs"]))
        want = {"format": 1, "channels": 1, "rate": sh.get("rate") or 44100, "frames_per_buffer": ms["cs"], "input": True}
        if sh.get("api"):
            want["input_device_index"] = API_INFOS[1]["defaultInputDevice"]
        if st["open"] != want:
            out.append("input stream %d: pa.open(**%r), expected %r" % (k, st["open"], want))
    for k, r in enumerate(io["recs"]):
        if k < len(m["streams"]):
            ms = m["streams"][k]
            if r["recording"] != ms["recording"] or r["visible"] != ms["out"][:len(r["visible"])]:
                out.append("recording %d recording/handed out: impl %s/%r model %s/%r" % (
                    k, r["recording"], r["visible"], ms["recording"], ms["out"]))
    if len(m["streams"]) != len(io["streams"]):
        out.append("streams: impl %d model %d" % (len(io["streams"]), len(m["streams"])))
    if io["terminates"] != m["terminates"] or io["finished"] != m["finished"] or io["recordings"] != len(m["recordings"]):
        out.append("terminates/finished/_recordings: impl %s/%s/%s model %s/%s/%s" % (
            io["terminates"], io["finished"], io["recordings"], m["terminates"], m["finished"], len(m["recordings"])))
    return out


def random_rec_case(rng):
    n = rng.randint(2, 9)
    script, nrec = [], 0
    for _ in range(n):
        r = rng.random()
        if nrec == 0 or r < 0.25:
            script.append(["record", rng.choice([1, 2, 3, 4])])
            nrec += 1
        elif r < 0.65:
            script.append(["take", rng.randrange(nrec + (1 if rng.random() < 0.05 else 0)), rng.randint(0, 7)])
        elif r < 0.85:
            script.append(["stop", rng.randrange(nrec)])
        else:
            script.append(["close"])
    if rng.random() < 0.8:
        script.append(["close"])
        if rng.random() < 0.3:
            script.append(rng.choice([["take", 0, 3], ["record", 2], ["close"]]))
    sh = {}
    if rng.random() < 0.3:
        sh["cs_how"] = "default"
    if rng.random() < 0.3:
        sh["rate"] = rng.choice([8000, 48000])
    if rng.random() < 0.3:
        sh["api"] = True
    if rng.random() < 0.2:
        sh["close_how"] = "terminate"
    c = {"entry": "rec", "script": script, "wait": False, "cs": 2}
    if sh:
        c["shape"] = sh
    return c


REC_HISTORIES = [
    [["record", 3], ["close"]],
    [["record", 3], ["take", 0, 4], ["close"]],
    [["record", 2], ["take", 0, 3], ["stop", 0], ["take", 0, 5], ["take", 0, 1], ["close"]],
    [["record", 3], ["take", 0, 4], ["record", 2], ["take", 1, 1], ["stop", 0], ["take", 0, 1], ["close"], ["take", 1, 5], ["record", 2]],
    [["record", 2], ["record", 1], ["record", 3], ["take", 1, 2], ["take", 2, 1], ["close"], ["close"]],
    [["record", 2], ["stop", 0], ["take", 0, 2], ["close"]],
    [["close"], ["record", 2]],
]

# ------------------------------------------------------------------------------------------
# engine interface
# ------------------------------------------------------------------------------------------
def impl(c):
    if is_rec(c):
        return run_rec(c)
    k = key(c)
    o = _obs_cache.pop(k, None)
    if o is None:
        o = run_case(c)
    _chosen[k] = o["chosen"]
    o = dict(o)
    o["variant"] = variant()
    return o


def request_for(c, chosen):
    m = 0
    script = []
    fails = []
    closed = False
    sh = shape_of(c)
    wf = write_faults(c)
    for cmd in full_script(c):
        if cmd[0] == "play" and len(cmd) > 2 and cmd[2].get("openfail"):
            script.append(["playfail"])          # no player: the model's extra call (ALV.Model.C17Mix)
            m += 1
        elif cmd[0] == "record":
            script.append(["record", cmd[1]])
        elif cmd[0] == "play":
            cs, _dfmt, _src, fail = play_opts(c, cmd)
            audio = audio_of(c, m, cmd)
            spc = samples_per_chunk(c, cmd)
            if not closed:
                # by player index: a play after close creates no player.  A backend write made to
                # raise after n writes is, for the thread, an iterable that raises after n chunks
                # (the exception leaves `run` through its `finally` at the operation `st<k>.write`)
                n_ok = wf.get(len(fails))
                if n_ok is not None and n_ok < -(-len(audio) // spc):      # fewer than its chunks
                    audio = audio[:n_ok * spc]
                    fail = True
                fails.append(fail)
            script.append(["play", audio, None, call_of(c, cmd)[1]])
            m += 1
        else:
            script.append(cmd[:2])
            closed = closed or cmd[0] == "close"
    r = {"entry": c.get("entry", "sched"), "wait": bool(c["wait"]), "fixed": variant() == "fixed",
         "cs": c["cs"] if sh["cs_how"] == "default" else DEFAULT_CHUNKS_SIZE,
         "script": script, "schedule": chosen, "fails": fails,
         "apiOut": API_INFOS[1]["defaultOutputDevice"] if sh["api"] else None}
    if is_fine(c):
        r.update({"dieFixed": die_variant() == "fixed"})
    if is_mix(c):
        r.update({"termFails": bool((c.get("faults") or {}).get("terminate"))})
    return r


def request(c):
    if is_rec(c):
        return {"entry": "rec", "script": c["script"]}
    k = key(c)
    chosen = _chosen.pop(k, None)
    if chosen is None:
        chosen = run_case(c)["chosen"]
    return request_for(c, chosen)


def _current_cmd(c, io):
    sc = full_script(c)
    n = len(io["log"])
    return sc[n] if n < len(sc) else None


def spec_problems(c, io, drv):
    """The property, evaluated on what the real code did (chunks from the Lean spec)."""
    out = []
    if io["outcome"] == "bad-schedule":
        return out
    want = drv["spec"]["chunks"]
    # stream k belongs to the k-th play call that was not refused (run_case records its ordinal, its
    # chunk size and its sample format; a call interrupted by the end of the run may have opened its
    # stream already)
    plays_all = [x for x in full_script(c) if x[0] == "play"]
    failing = [i for i, x in enumerate(plays_all) if len(x) > 2 and x[2].get("openfail")]
    termfail = bool((c.get("faults") or {}).get("terminate"))
    ti = -1          # ordinal of the player thread that owns stream k: `alive` / `halting` list the player
                     # threads (one per output stream, in creation order), not the device streams - with a
                     # recording stream in front the two numberings differ (thorough-tier false alarm, session 4)
    for k, st in enumerate(io["streams"]):
        if not st.get("input"):
            ti += 1
        if st.get("input"):
            # a recording's device stream: never written to; closed exactly once by close()
            if st["written"]:
                out.append(("delivered", "input stream %d was written to" % k))
            if st["closes"] > 1:
                out.append(("rec-closed-twice", "input stream %d closed %d times" % (k, st["closes"])))
            continue
        m, cs = st["m"], st["cs"]
        if m is not None:
            m -= sum(1 for i in failing if i < m)      # the spec lists the chunks of the calls that open a stream
        if m is None or m >= len(want):
            out.append(("delivered", "stream %d has no play call" % k))
            continue
        w = st["written"]
        # an iterable that raises after its samples delivers the chunks that were complete (theorem
        # delivered_failing); a backend write made to raise: the chunks written before (the request
        # carries the audio cut there)
        full = want[m]
        if st["fail"]:
            full = want[m][:len(audio_of(c, st["m"], plays_all[st["m"]])) // cs]
        if w != want[m][:len(w)]:
            out.append(("delivered", "stream %d received %r, not a prefix of %r" % (k, w, want[m])))
        elif (ti < len(io["alive"]) and not io["alive"][ti] and not io["halting"][ti] and w != full
              and io["outcome"] == "done"):
            out.append(("delivered-incomplete", "stream %d: player finished un-stopped after %d of %d chunks" % (k, len(w), len(full))))
        if st["nframes"] not in ([], [st["frames"]]):
            out.append(("delivered", "stream %d: frames per write %r, chunk size %d" % (k, st["nframes"], st["frames"])))
        exp = drv["spec"]["opens"][m] if m < len(drv["spec"].get("opens", [])) else None
        if exp is not None:
            got = dict(st["open"])
            got.setdefault("output_device_index", None)
            if got != exp["open"]:
                out.append(("open-arguments", "stream %d: pa.open(**%r), expected %r" % (k, got, exp["open"])))
            if exp["samples"] != cs:
                out.append(("open-arguments", "stream %d: harness chunk size %d, spec %d" % (k, cs, exp["samples"])))
    if c.get("with") and c.get("with_raise") and io["outcome"] == "done" and io.get("with_exc") != "propagated":
        out.append(("with-block-exception-swallowed", "the exception raised inside the with-block did not come out of it"))
    if io["protocol_errors"]:
        out.append(("backend-protocol", io["protocol_errors"][0]))
    if io["crashes"]:
        out.append(("thread-crash", "%r" % io["crashes"][0]))
    if io["terminates"] > 1:
        out.append(("terminate-count", "terminate called %d times" % io["terminates"]))
    closed = False
    nplay = -1
    for e in io["log"]:
        if e[0] == "play":
            nplay += 1
        if e[0] == "close":
            if e[1] != "ok":
                # a backend whose terminate() raises: the close() that terminates it lets that error out
                # (theorem raising_terminate_changes_nothing: everything else is as if it had returned)
                if not (termfail and not closed and e[1] == "OTHER:OSError"):
                    out.append(("close-raises", e[1]))
                closed = True
                continue
            closed = True
            alive, nopen = e[2], e[3]
            if nopen:
                out.append(("open-after-close", "%d device streams open when close returned" % nopen))
            if any(alive):
                out.append(("alive-after-close", "player threads alive when close returned: %r" % alive))
        elif e[0] == "play" and closed and e[1] != "RuntimeError":
            out.append(("play-after-close", "play after close gave %r" % e[1]))
        elif e[0] == "play" and nplay in failing and not closed:
            # the backend's pa.open raises for this call: play lets that error out
            if e[1] != "OTHER:OSError":
                out.append(("open-failure-swallowed", "play whose pa.open raises gave %r" % e[1]))
        elif e[1] not in ("ok", "RuntimeError"):
            out.append(("call-raises", "%s raised %s" % (e[0], e[1])))
    if closed and io["outcome"] == "done":
        if io["terminates"] != 1:
            out.append(("terminate-count", "terminate called %d times after close" % io["terminates"]))
        if not io["finished"]:
            out.append(("not-finished", "finished flag false after close"))
        if io["threads"]:
            out.append(("threads-left", "_threads not empty after close"))
        if any(st["state"] != "closed" for st in io["streams"]):
            out.append(("open-after-close", "a device stream is not closed at the end of the run"))
        if any(st.get("input") and st["closes"] != 1 for st in io["streams"]):
            out.append(("open-after-close", "a recording's device stream was not closed exactly once"))
        if io.get("recordings"):
            out.append(("recordings-left", "_recordings not empty after close"))
    if io["outcome"] in ("deadlock", "budget") or str(io["outcome"]).startswith("INFRA"):
        cur = _current_cmd(c, io)
        if cur is not None and cur[0] == "close":
            out.append(("close-never-returns", "%s while the control script is inside close(): %s" % (io["outcome"], io["final"])))
        elif str(io["outcome"]).startswith("INFRA") or io["outcome"] == "budget":
            out.append(("run-does-not-end", str(io["outcome"])))
    return out


def model_problems(c, io, drv):
    out = []
    if io["outcome"] == "bad-schedule":
        return out
    m = drv["model"]
    a, b = io["steps"], m["steps"]
    for i in range(max(len(a), len(b))):
        x = a[i] if i < len(a) else None
        y = b[i] if i < len(b) else None
        if x != y:
            out.append("step %d: impl %r model %r" % (i, x, y))
            break
    if not out and io["final"] != (m["final"] if io["outcome"] != "done" else ""):
        out.append("final pending: impl %r model %r" % (io["final"], m["final"]))
    # a run cut by the step budget: the model must still have somebody enabled
    if {"budget": "unfinished"}.get(io["outcome"], io["outcome"]) != m["outcome"]:
        out.append("outcome: impl %s model %s" % (io["outcome"], m["outcome"]))
    ilog = [e[:2] + ([e[2], e[3]] if len(e) > 2 else []) for e in io["log"]]
    if ilog != m["log"]:
        out.append("log: impl %r model %r" % (ilog, m["log"]))
    ms = m["streams"]
    if is_mix(c):
        # device streams by index: a player's (model: `six`) or a recording's
        by_six = {s["six"]: s for s in ms if s["opened"]}
        recs = {r["six"]: r for r in m["recs"]}
        for k, st in enumerate(io["streams"]):
            if st.get("input"):
                r = recs.get(k)
                if r is None:
                    out.append("input stream %d unknown to the model" % k)
                elif st["closes"] != r["closes"] or (st["state"] == "closed") != (r["closes"] == 1) or st["frames"] != r["cs"]:
                    out.append("input stream %d closes/state/chunk size: impl %s/%s/%s model %s/%s" % (
                        k, st["closes"], st["state"], st["frames"], r["closes"], r["cs"]))
            else:
                s_ = by_six.get(k)
                if s_ is None:
                    out.append("stream %d unknown to the model" % k)
                elif st["written"] != s_["written"] or st["state"] != s_["state"]:
                    out.append("stream %d written/state: impl %r/%s model %r/%s" % (
                        k, st["written"], st["state"], s_["written"], s_["state"]))
        if len(io["streams"]) != len(by_six) + len(recs):
            out.append("device streams: impl %d model %d players + %d recordings" % (len(io["streams"]), len(by_six), len(recs)))
        if io.get("ghosts") != m["ghosts"] or io.get("recordings") != m["recordings"]:
            out.append("thread objects never started / _recordings: impl %s/%s model %s/%s" % (
                io.get("ghosts"), io.get("recordings"), m["ghosts"], m["recordings"]))
    for k, st in enumerate(io["streams"] if not is_mix(c) else []):
        if k >= len(ms):
            out.append("stream %d unknown to the model" % k)
            break
        if st["written"] != ms[k]["written"]:
            out.append("stream %d written: impl %r model %r" % (k, st["written"], ms[k]["written"]))
        if st["state"] != ms[k]["state"]:
            out.append("stream %d state: impl %s model %s" % (k, st["state"], ms[k]["state"]))
    for k, al in enumerate(io["alive"]):
        if k < len(ms) and (al != ms[k]["alive"] or io["halting"][k] != ms[k]["halting"]):
            out.append("thread %d alive/halting: impl %s/%s model %s/%s" % (k, al, io["halting"][k], ms[k]["alive"], ms[k]["halting"]))
    if not is_mix(c) and [s for s in ms[len(io["streams"]):] if s["state"] != "unopened"]:
        out.append("model has more opened streams than the impl")
    if io["terminates"] != m["terminates"] or io["finished"] != m["finished"] or io["threads"] != len(m["threads"]):
        out.append("terminates/finished/threads: impl %s/%s/%s model %s/%s/%s" % (
            io["terminates"], io["finished"], io["threads"], m["terminates"], m["finished"], len(m["threads"])))
    if bool(io["protocol_errors"]) != m["perr"]:
        out.append("backend protocol errors: impl %r model %s" % (io["protocol_errors"][:1], m["perr"]))
    if io["crashes"]:
        out.append("a thread died: %r" % io["crashes"][0])
    if io["hook_errors"]:
        out.append("harness namer failed: %r" % io["hook_errors"])
    return out


def compare(c, io, drv):
    if "err" in io:
        return [("model", "harness failure " + str(io)[:300])]
    if is_rec(c):
        return ([("model", d) for d in rec_model_problems(c, io, drv)[:3]]
                + [("spec", "%s: %s" % (k, d)) for k, d in rec_spec_problems(c, io, drv)[:3]])
    out = [("model", d) for d in model_problems(c, io, drv)[:3]]
    out += [("spec", "%s: %s" % (k, d)) for k, d in spec_problems(c, io, drv)[:3]]
    return out


def classify(c, io, drv):
    if "err" in io:
        return "harness:" + str(io.get("err"))
    if is_rec(c):
        sp = rec_spec_problems(c, io, drv)
        agrees = not rec_model_problems(c, io, drv)
        if not sp:
            return "correspondence"
        j = io.get("aborted")
        fl = drv["model"].get("finishes_later", [])
        if (j is not None and io["log"][-1][1] == "TypeError" and j < len(fl) and fl[j] and not any(fl[:j])):
            # the model names exactly this call as the first one that finishes (closes) a recording
            # stream which is not the oldest one still in _recordings: D26 (fixed by c60d4c5) is back
            return "rec:%s-raises-TypeError:finishes-a-recording-that-is-not-the-oldest-active-one" % io["log"][-1][0]
        return "rec:" + sp[0][0] + ("" if agrees else ":MODEL-DISAGREES")
    sp = spec_problems(c, io, drv)
    agrees = not model_problems(c, io, drv)
    if not sp:
        return "correspondence"
    kind, detail = sp[0]
    sig = kind
    if kind == "close-never-returns":
        blocked = [p for p in io["final"].split(",") if p]
        pl = sorted({p.split(":")[1].split(".")[-1] for p in blocked if not p.startswith("0:")})
        mn = [p.split(":")[1].split(".")[-1] for p in blocked if p.startswith("0:")]
        if io["outcome"] != "deadlock":
            mn = [str(io["outcome"])] + mn
        sig = "close-never-returns:wait=%s:main-in-%s:players-in-%s" % (
            "T" if c["wait"] else "F", "+".join(mn), "+".join(pl))
        if not c["wait"]:
            sig += ":stop=%s" % io.get("variant")
        dead_listed = [k for k in io.get("died", []) if k < len(io["streams"]) and io["streams"][k]["state"] != "closed"]
        if io["outcome"] == "budget" and dead_listed:
            # close() loops over a dead thread that is still in _threads (join returns at once)
            sig = "close-never-returns:played-iterable-raised:dead-thread-stays-in-_threads:close-loops-for-ever"
    elif kind == "alive-after-close":
        sig = "alive-after-close:thread-left-_threads-before-close-looked"
    # a known finding only explains a run on which the (proved) model agrees step by step
    return sig + ("" if agrees else ":MODEL-DISAGREES")


def nontrivial(c, io):
    if is_rec(c):
        return len(io.get("streams", [])) >= 1 or len(c["script"]) >= 2
    if io.get("outcome") == "bad-schedule":
        return False
    ch = io.get("chosen", [])
    switches = sum(1 for a, b in zip(ch, ch[1:]) if a != b)
    return len(io.get("alive", [])) >= 1 and switches >= 2


def tally_rec(eng, c, io):
    eng.count("granularity", "recording histories (record / take / stop / close)")
    eng.count("rec.outcome", "stopped at an exception" if io.get("aborted") is not None else io.get("outcome"))
    eng.count("rec.streams", len(io.get("streams", [])))
    sh = c.get("shape") or {}
    eng.count("rec.shape", ",".join(sorted("%s=%s" % kv for kv in sh.items())) or "plain")
    for e in io.get("log", []):
        eng.count("rec.events", e[0] + ":" + (e[1] if isinstance(e[1], str) else "%d items" % len(e[1])))
    closed = False
    for cmd in c["script"]:
        if cmd[0] == "close":
            closed = True
        elif closed:
            eng.count("rec.after_close", cmd[0])
    for k, st in enumerate(io.get("streams", [])):
        r = io["recs"][k] if k < len(io["recs"]) else None
        if r is not None and st["nframes"]:
            left = st["reads"] * st["nframes"][0] - len(r["visible"])
            eng.count("rec.at_close", "never read" if st["reads"] == 0 else ("chunk used up" if left == 0 else "in the middle of a chunk"))
        elif st["reads"] == 0:
            eng.count("rec.at_close", "never read")


def tally(eng, c, io):
    if is_rec(c):
        return tally_rec(eng, c, io)
    eng.count("outcome", io.get("outcome"))
    eng.count("variant", io.get("variant"))
    ch = io.get("chosen", [])
    eng.count("steps", len(ch) // 10 * 10)
    eng.count("players", len(io.get("alive", [])))
    eng.count("wait", c["wait"])
    eng.count("with_block", ("left by an exception" if c.get("with_raise") else "left normally") if c.get("with") else False)
    eng.count("context_switches", min(sum(1 for a, b in zip(ch, ch[1:]) if a != b), 12))
    ops = {lab.split(".")[-1] if "." in lab else lab for lab in io.get("own", []) if lab}
    for o in ops:
        eng.count("ops_executed", o)
    for e in io.get("log", []):
        eng.count("script_events", e[0] + ":" + e[1])
    for st in io.get("streams", []):
        eng.count("chunks_written", len(st["written"]))
        eng.count("stream_final_state", st["state"])
    if io.get("outcome") == "deadlock":
        eng.count("deadlock_pending", io["final"])
    if not is_mix(c):
        eng.count("granularity", "fine (every pull is a step)" if is_fine(c) else "coarse (synchronisation + backend)")
    sh = shape_of(c)
    eng.count("shape.chunk_size", "omitted (chunks.size)" if sh["cs_how"] == "default" else "keyword")
    eng.count("shape.rate", "omitted (44100)" if sh["rate"] is None else "keyword")
    eng.count("shape.channels", "omitted (1)" if sh["channels"] is None else "keyword %d" % sh["channels"])
    eng.count("shape.wait", {"pos": "positional", "kw": "keyword", "omit": "omitted (False)"}[sh["wait_how"]])
    eng.count("shape.api", ("api='jack'" if sh["api"] else "omitted") + (", explicit output_device_index" if sh["device"] is not None else ""))
    eng.count("shape.sample_kind", sh["kind"])
    eng.count("shape.close", sh["close_how"])
    for k, st in enumerate(io.get("streams", [])):
        if st.get("m") is not None:
            plays = [x for x in full_script(c) if x[0] == "play"]
            n = len(audio_of(c, st["m"], plays[st["m"]])) if st["m"] < len(plays) else 0
            eng.count("audio_length", "zero" if n == 0 else ("exact multiple of the chunk" if n % st["cs"] == 0 else "with a partly filled last chunk"))
        if st.get("write_fault") is not None:
            eng.count("fault.backend_write", "raised after %d writes" % st["write_fault"] if st["write_failed"] else "armed, never reached")
    if is_fine(c):
        tally_fine(eng, c, io)
    if is_mix(c):
        eng.count("granularity", "mixed histories (recordings / failing pa.open / raising terminate with players)")
        nrec = sum(1 for st in io.get("streams", []) if st.get("input"))
        eng.count("mix.recordings", nrec)
        eng.count("mix.open_failures", io.get("ghosts", 0))
        eng.count("mix.terminate_raises", bool((c.get("faults") or {}).get("terminate")))
        for e in io.get("log", []):
            if e[0] == "close" and e[1] == "OTHER:OSError":
                eng.count("mix.close", "let the error of terminate() out")
        ops = [lab for lab in io.get("own", []) if lab]
        # was a recording closed by close() while a player thread was still alive?
        for i, lab in enumerate(ops):
            if lab.endswith(".close") and io["chosen"][i] == 0:
                pend = io["steps"][i].split("|")[1].split(",")
                eng.count("mix.recording_closed_by_close", "some player thread still alive" if len(pend) > 1 else "no player thread alive")


def fill_profile(io):
    """(switches away from a player whose chunk is partly filled and not yet written,
        pre-emptions taken while the pre-empted player was pulling / about to write,
        were two players' chunks partly filled at the same time?)"""
    buf = {}
    mid = pre = 0
    overlap = False
    ch = io.get("chosen", [])
    left = io.get("left", [])
    nfull = 0
    for i, lab in enumerate(io.get("own", [])):
        t = ch[i]
        if left[i] is not None and left[i] != "":
            prev = ch[i - 1]
            if buf.get(prev, 0) > 0:
                mid += 1
            if left[i].endswith(":1") and in_assembly(left[i][:-2]):
                pre += 1
        if lab.endswith(".pull"):
            if buf.get(t, 0) == 0:
                nfull += 1
            buf[t] = buf.get(t, 0) + 1
        elif lab.endswith(".write"):
            if buf.get(t, 0) > 0:
                nfull -= 1
            buf[t] = 0
        if nfull >= 2:
            overlap = True
    return mid, pre, overlap


def tally_fine(eng, c, io):
    eng.count("fine.strategy", c.get("strategy", "struct"))
    sts = io.get("streams", [])
    eng.count("fine.players", len(sts))
    keys = [(st["dfmt"], st["cs"]) for st in sts]
    if len(keys) >= 2:
        eng.count("fine.pool_key(dfmt,size)", "some players share it" if len(set(keys)) < len(keys) else "all different")
        eng.count("fine.chunk_sizes", "equal" if len({k[1] for k in keys}) == 1 else "different")
        eng.count("fine.formats", "equal" if len({k[0] for k in keys}) == 1 else "different")
        eng.count("fine.audio_lengths", "equal" if len({len(audio_of(c, m, cmd)) for m, cmd in enumerate(
            [x for x in c["script"] if x[0] == "play"])}) == 1 else "different")
    for cmd in c["script"]:
        if cmd[0] == "play":
            _cs, _f, src, fail = play_opts(c, cmd)
            eng.count("fine.played_object", "raises half-way" if fail else ("own list" if src is None else
                      {"list": "the same list object", "tee": "Stream.copy() of one Stream", "thub": "one thub object"}[src[0]]))
    mid, pre, overlap = fill_profile(io)
    eng.count("fine.switches_in_mid_chunk", min(mid, 6))
    eng.count("fine.preemptions_in_assembly", min(pre, 4))
    eng.count("fine.two_chunks_partly_filled_at_once", overlap)
    if io.get("died"):
        eng.count("fine.player_died_on_exception", "%d thread(s), %s" % (len(io["died"]), io.get("outcome")))


def _request_for(c, chosen):
    return dict(request_for(c, chosen), id=ID)


def _signatures(cases):
    """classify() of each case (impl + driver), used to keep the shrinker on ONE signature: the
    engine only asks for 'still a spec/model mismatch', which would let a new violation drift
    into a recorded known finding while being minimised."""
    obs = [dict(run_case(c), variant=variant()) for c in cases]
    outs = common.Driver().batch([_request_for(c, o["chosen"]) for c, o in zip(cases, obs)])
    sigs = []
    for c, o, d in zip(cases, obs, outs):
        if "ok" not in d or o["outcome"] == "bad-schedule":
            sigs.append(None)
            continue
        pr = compare(c, o, d["ok"])
        sigs.append(classify(c, o, d["ok"]) if pr else None)
    return sigs


def _shrink_candidates(c):
    sc = c["script"]
    sch = c.get("schedule", [])
    # shorter schedule (the default policy continues without pre-emption), fewer calls, fewer samples
    cuts = {0, len(sch) // 2, len(sch) - 1} | {i for i in range(1, len(sch)) if sch[i] != sch[i - 1]}
    for n in sorted(cuts):
        if 0 <= n < len(sch):
            yield dict(c, schedule=sch[:n])
    for i in range(len(sc)):
        if len(sc) > 1:
            yield dict(c, script=sc[:i] + sc[i + 1:], schedule=[])
            yield dict(c, script=sc[:i] + sc[i + 1:])
    for i, cmd in enumerate(sc):
        if cmd[0] == "play" and cmd[1] > 0 and play_opts(c, cmd)[2] is None:
            # (an integer format cannot take the float zero padding: whole chunks only)
            dn = 1 if play_opts(c, cmd)[1] == "f" else play_opts(c, cmd)[0]
            if cmd[1] < dn:
                continue
            less = [[cmd[0], cmd[1] - dn] + list(cmd[2:])]
            yield dict(c, script=sc[:i] + less + sc[i + 1:])
            yield dict(c, script=sc[:i] + less + sc[i + 1:], schedule=[])
    if c.get("with"):
        yield dict(c, **{"with": False, "script": sc + [["close"]]})
    if is_fine(c):
        # plainer players: default chunk size / format, a list of their own, no failure
        for i, cmd in enumerate(sc):
            if cmd[0] == "play" and len(cmd) > 2:
                for k in sorted(cmd[2]):
                    if k == "cs" and cmd[2].get("dfmt") and cmd[1] % c["cs"]:
                        continue
                    o = {a: b for a, b in cmd[2].items() if a != k}
                    plain = [[cmd[0], len(audio_of(c, 0, cmd)) if k == "src" else cmd[1]] + ([o] if o else [])]
                    yield dict(c, script=sc[:i] + plain + sc[i + 1:])
                    yield dict(c, script=sc[:i] + plain + sc[i + 1:], schedule=[])
        for g, n in enumerate(c.get("sources", [])):
            if n > 0:
                yield dict(c, sources=c["sources"][:g] + [n - 1] + c["sources"][g + 1:])
        if c.get("strategy", "struct") != "struct":
            yield dict(c, strategy="struct")


def _rec_shrinks(c):
    sc = c["script"]
    for i in range(len(sc)):
        if len(sc) > 1:
            yield dict(c, script=sc[:i] + sc[i + 1:])
    for i, cmd in enumerate(sc):
        if cmd[0] == "take" and cmd[2] > 0:
            yield dict(c, script=sc[:i] + [["take", cmd[1], cmd[2] - 1]] + sc[i + 1:])
        if cmd[0] == "record" and cmd[1] > 1:
            yield dict(c, script=sc[:i] + [["record", cmd[1] - 1]] + sc[i + 1:])
    if c.get("shape"):
        yield {k: v for k, v in c.items() if k != "shape"}


def shrink(c):
    if is_rec(c):
        return list(_rec_shrinks(c))
    cands = list(_shrink_candidates(c))
    if not cands:
        return []
    sigs = _signatures([c] + cands)
    if sigs[0] is None:
        return []
    return [k for k, s in zip(cands, sigs[1:]) if s == sigs[0]]


def neighbours(c):
    if is_rec(c):
        for i in range(len(c["script"]) + 1):
            yield dict(c, script=c["script"][:i] + [["close"]] + c["script"][i:])
        return
    yield dict(c, wait=not c["wait"])
    sch = c.get("schedule", [])
    for i in range(len(sch) - 1):
        if sch[i] != sch[i + 1]:
            yield dict(c, schedule=sch[:i] + [sch[i + 1], sch[i]] + sch[i + 2:])
    if is_fine(c):
        yield dict(c, strategy="array" if c.get("strategy", "struct") == "struct" else "struct")
        if any(len(x) > 2 and x[2].get("dfmt") for x in c["script"] if x[0] == "play"):
            return                  # an integer format needs lengths that are multiples of the chunk size
    for cs in (1, 2, 3):
        if cs != c["cs"]:
            yield dict(c, cs=cs, schedule=[])


def _no_trace_view(o, drop=None):
    """what must not depend on a play call whose pa.open raised: the log without that call, what
    every device stream received and its state, the manager's state (threads that were never
    started do not count)"""
    log = [e[:2] for i, e in enumerate(o["log"]) if i != drop]
    rel = lambda w: [[v % 100 if isinstance(v, int) else v for v in ch] for ch in w]   # samples(m, n): 100 (m + 1) + j
    return {"log": log, "streams": [[rel(st["written"]), st["state"]] for st in o["streams"]],
            "terminates": o["terminates"], "finished": o["finished"], "threads": o["threads"],
            "outcome": o["outcome"], "protocol_errors": o["protocol_errors"], "crashes": o["crashes"]}


def failed_open_checks():
    """A backend whose pa.open raises for one play call: the call raises that error and leaves no
    trace — the history goes on exactly as the history without that call (manager lock free, nothing
    in _threads, every stream that was opened closed by close(), backend terminated once)."""
    out = []
    histories = [
        ([["play", 3], ["play", 3], ["close"]], 0, 0),
        ([["play", 3], ["play", 2], ["pause", 0], ["resume", 0], ["close"]], 1, 1),
        ([["play", 2], ["play", 3], ["play", 1], ["stop", 0], ["close"], ["play", 2]], 1, 1),
    ]
    for script, k, nopen in histories:
        for wait in (False, True):
            a = run_case({"script": script, "wait": wait, "cs": 2, "schedule": [], "faults": {"open": [nopen]}})
            plays = [i for i, x in enumerate(script) if x[0] == "play"]
            # (handles th_i count the players that were created: nothing shifts)
            less = script[:plays[k]] + script[plays[k] + 1:]
            b = run_case({"script": less, "wait": wait, "cs": 2, "schedule": []})
            got, want = _no_trace_view(a, plays[k]), _no_trace_view(b)
            raised = a["log"][plays[k]][1] if plays[k] < len(a["log"]) else None
            ok = got == want and raised == "OTHER:OSError"
            out.append(("play whose pa.open raises leaves no trace (%d calls, failing play #%d, wait=%s)" % (len(script), k, wait),
                        ok, "" if ok else "raised %r; with the failing call %r; without it %r" % (raised, got, want)))
    return out


def regenerate(eng=None):
    """translator: lean/ALV/Gen/C17Src.lean from <repo>/audiolazy/lazy_io.py (harness/props/c17_tr.py)"""
    return c17_tr.regenerate(eng)


def extra_checks(eng):
    v = variant()
    eng.count("variant_probe", v)
    sw = _switches()
    eng.extra["translated"] = {
        "translator": "harness/props/c17_tr.py -> lean/ALV/Gen/C17Src.lean (deep embedding: ALV.C17.Skel)",
        "under_the_translator": ["%s.%s" % m for m in c17_tr.METHODS],
        "theorems": ["src_skeleton_is_documented", "src_variant_is_modelled", "src_run_is_model", "src_play_is_model",
                     "src_close_is_model", "src_ctl_is_model", "src_yields_drive_the_steps", "src_shutdown",
                     "src_run_successor", "src_run_successor_total", "src_main_successor",
                     "src_player_step_is_interpreted", "src_main_step_is_interpreted"],
        "switches_read_from_the_source": sw,
        "not_translated": c17_tr.NOT_TRANSLATED,
    }
    for item in c17_tr.selftest():
        yield item
    yield ("the switches read from the skeleton are a variant of the model (Cfg.fixed, FCfg.dieFixed)",
           sw.get("fixed") is not None and sw.get("dieFixed") is not None, repr(sw))
    pv, pd = probe_variant(), probe_die_variant()
    ok = (sw.get("fixed") is None or pv == ("fixed" if sw["fixed"] else "as-coded")) and \
         (sw.get("dieFixed") is None or pd == ("fixed" if sw["dieFixed"] else "as-coded"))
    yield ("the behavioural probes agree with the switches read from the skeleton", ok,
           "probe stop()=%s die=%s; skeleton %r" % (pv, pd, sw))
    for item in failed_open_checks():
        yield item
    mod = lazy_io()
    yield ("lazy_io source loaded from the repo under test",
           os.path.realpath(mod.__file__) == os.path.realpath(os.path.join(common.REPO, "audiolazy", "lazy_io.py")),
           mod.__file__)
    yield ("AudioThread subclasses the scheduler's Thread", issubclass(mod.AudioThread, sched.Thread), "")
