"""C15 — MultiKeyDict / StrategyDict coherence.  A case is a whole history; impl, three-map
model and abstract spec are observed after every step.

Dimensions of a history (fields of a case, all optional):
  vf     value universe.  The integer `v` of an operation is an EQUALITY CLASS; every assignment builds a
         fresh object of that class, so equality and identity differ:  mk: int | num (1 / 1.0 / True) |
         tuple | str | bound | scale;  sd: func (identity == equality) | bound (a bound method fetched
         again) | scale (callable instances with __eq__/__hash__) | mixed | picky (== with a foreign
         type raises)
  kf     key universe: plain | fresh (an equal string built again for every use) | int | kinds (str, int, None,
         float, frozenset, bytes keys in one dict) | numeq (keys equal across types: 1 / 1.0 / True, another
         spelling at every use) (the last three mk only)
  init   (mk) the arguments of the constructor: {"form": dict | pairs | iter | kwargs | pairs+kwargs | dict+kwargs,
         "pairs": [[keys, v, r], ...]} (repeated keys, tuple keys = key tuples); routes ctor / fromkeys feed leading
         single-key assignments through MultiKeyDict(dict) / MultiKeyDict.fromkeys; sd routes decorator
         (keep_name=True) / decorator-rename (keep_name left to its default: renamed to the FIRST name)
  decoy  a second dict of the same class receives mirrored operations (sharing the value objects) and
         lookups between the steps; the dict under test must not notice
  view   "all" | "last" | {"every": n}: after which steps the whole state is observed
and of an operation: rejected operations (`setu` unhashable value, `setbk` unhashable key in the tuple,
`setns` non-string StrategyDict name, `bad` lookup / deletion with an unhashable operand) — whatever
raises must leave every observable unchanged; `fork` (mk) continues on `MultiKeyDict(d)` and keeps
watching the original;  `kc` = a call with a key argument of ANY shape: ["kc", kind, arg, (value,) uk] with kind
set | get | del | k2k | v2k | in | dget (`d.get`), arg {"s": item} (a single object) or {"t": [items]} (a tuple of
any length), item = a key name | None (an unhashable object of kind uk) | an int (sd: a hashable non-string),
value = a class | None (unhashable).  The exception KIND is compared (TypeError = "Rejected" vs KeyError)."""
import gc
import itertools
import json
import common
from common import err_kind
from props import c15_tr

# Performance only: the histories and their observations are millions of small, long-lived,
# acyclic containers; CPython's generational collector re-traverses them again and again (measured:
# 10x on the JSON parse of the driver output).  Automatic collection is switched off in this
# process; the only cyclic garbage (one throw-away class per StrategyDict instance) is collected
# by hand every few thousand histories, and the survivors are frozen out of later collections.
gc.disable()
_SD_CALLS = [0]


def _gc_tick():
    _SD_CALLS[0] += 1
    if _SD_CALLS[0] % 3000 == 0:
        gc.collect()
        gc.freeze()


ID = "C15"
RULE = ("exhaustive histories over small universes (mk: 3 keys x 2 values, tuples of length <= 2, "
        "24 assignments + 3 deletions, depth <= 3 (thorough: depth 4, and 3 values x 3 keys depth 4); "
        "sd: 2 names x 2 strategies incl. attribute / default manipulation, 16 operations, depth <= 3 "
        "(thorough: 4); the sd enumeration again with equal-but-not-identical strategies (bound methods fetched "
        "again / callable instances with __eq__) where a class is stored twice; the mk enumeration (depth <= 2, a fifth of depth 3) "
        "with fresh equal keys and values; mk and sd enumerations with "
        "rejected operations (unhashable value, unhashable key in the tuple, non-string name, unhashable lookup "
        "operand) mixed in, depth <= 3) plus random histories (length <= 40, 6 keys, 4 values, tuples with "
        "repeats, lookups interleaved; value universes int / 1-1.0-True / fresh tuples / fresh strings / bound "
        "methods / callable instances / ==-raising instances, key universes plain / fresh equal strings / large "
        "ints, decoy dict sharing the value objects, copy-constructor forks, rejected operations) plus long "
        "histories (1000-4000 operations over 12 keys, light view after every step, full view every 97th; random histories "
        "of 20 / 40 operations: full view every 4th step) plus a "
        "small malformed stream (empty key tuple); plus key arguments of every shape for every operation: sweeps of "
        "all non-mutating calls (get / del / key2keys / value2keys / in / dict.get / refused assignments) x (single item, "
        "tuples of length 0..3 over two keys, an unhashable object and - sd - a non-string, at every position) after 19 (mk) / "
        "17 (sd) prefixes followed by an ordinary assignment, and random calls (tuples of length <= 4) inside the random and long "
        "histories; constructor arguments in six call forms with repeated and tuple keys, dict.fromkeys, the strategy "
        "decorator with and without keep_name, keys of mixed kinds and keys equal across types (1 / 1.0 / True); the "
        "iteration ORDER of the three dicts is compared with the model's association lists, list(d) / d.values() / d.keys() "
        "must enumerate alike, iter(sd) in the order of sd.values(), sd.__doc__ must not raise, report len(sd) and name every name; "
        "the __doc__ CONTENT (one heading per strategy under its oldest name, '(Default)' on the default strategy only, aliases "
        "in key-tuple order); for sd histories the final sd[k] is compared with `sdLastAssigned` read off the history alone; "
        "entry sdn (outside the property, as coded): exhaustive depth <= 3 histories over 10 operations using the NAME 'default' "
        "(sd['default'] = f, del sd['default'], del sd.default) against the as-coded model, model only; "
        "translator self-test: six edited copies of the source text (comparison swapped, constant changed, statement dropped, hash() moved behind the deletions, assignment moved in front of the deletion loop, handler widened) must each change the generated Lean text or fail to translate, a copy with extra comments / docstrings / blank lines must not; "
        "a case is non-trivial when at least one assignment succeeded and "
        "the final dict is non-empty or an exception was observed; distinct = distinct JSON history")
TRUSTED = [
    "translator T5 (harness/props/c15_tr.py: ast -> lean/ALV/Gen/C15Src.lean, re-run before every build): it TRUSTS (a) the "
    "semantics it assumes for the Python subset it accepts — statements run in order, `A and B` / `x if c else y` short-circuit, "
    "a `for` over a tuple/list is a left fold of its body, `try: ... except KeyError:` catches exactly the KeyError of its body "
    "and its handler starts from the state the `try` was entered with (accepted only when nothing in the body can raise after a "
    "mutation; the callee's own atomicity is the model's), a generator expression under tuple() is filter/map, attribute and "
    "method lookups follow the MRO StrategyDict -> MultiKeyDict -> dict/object with no `__getattr__` / `__setattr__` hooks (checked "
    "on the class bodies) and no override in the per-instance subclass StrategyDictInstance (NOT checked: its body is outside the "
    "subset); (b) the vocabulary mapping — dict `d[k]` / `k in d` / `d[k] = v` / `del d[k]` / `d.get(k, tuple())` = dget / dhas / "
    "dset / ddel on an association list with KeyError from the first and fourth, `getattr` / `setattr` / `hasattr` / "
    "`object.__delattr__` / `vars(self)` = the same on the attribute list with AttributeError, `self.default` = the instance "
    "attribute or the class lambda (never equal to a stored strategy), tuple `+` / `reversed` / `tuple()` / `(k,)` / `len` / "
    "`k in list` = list operations with `==` on the items, `hash(x)` = no effect for hashable operands and a rejection for an "
    "unhashable one; (c) the declared KINDS of the parameters (key / key tuple / value / the name 'default' / unhashable), on "
    "which `isinstance(key, tuple)` and `isinstance(k, STR_TYPES)` are decided.  None of this is proved; all of it is exercised "
    "by the differential tie, whose model functions the regenerated ones are proved equal to",
    "hand-written Lean model ALV/Model/C15.lean of lazy_core.MultiKeyDict / StrategyDict "
    "(modelled, not verified: Python dict = insertion-ordered association list; vars(self) = association "
    "list with the attribute `default` as a distinguished name; a KeyError / AttributeError leaves the model state "
    "unchanged; an operand that cannot be hashed is a separate constructor of the operation type / a `KeyItem.unhashable` "
    "item of a key argument, refused in the first statements of the method as the repaired code does (9cbe718, 735182a); "
    "`Call.toOp` / `SCall.toOp` classify a key argument of any shape by reading those first statements; the association "
    "lists keep Python's insertion order, which the tie compares exactly for all three dicts)",
    "the inherited dict methods the classes rely on or that only LOOK (len, keys, values, items, `in`, get, fromkeys, the "
    "dict(...) call inside the constructor) are in the model; the inherited MUTATORS (update, setdefault, pop, popitem, clear, "
    "|=) and copy / | / == / repr / reversed act on the key-tuple storage only and are outside (histogram `inherited_from_dict` "
    "records which is which and whether the class starts overriding one)",
    "observations coming out of hash containers are compared sorted; the order inside a key tuple is compared exactly",
    "equality vs identity: the Lean value type is the type of EQUALITY CLASSES (`==` of the Python values); the model never "
    "looks at which of several equal objects is stored, so 'the behaviour depends only on the classes' holds for the model "
    "by construction (nothing to prove).  That the REAL code compares by `==` and not by `is` is what the equal-but-not-"
    "identical universes of the tie test; it is not proved",
    "operations refused for reasons the model has no notion of (a non-string StrategyDict name, a strategy whose `==` raises) "
    "are mapped to the model's / spec's generic rejected operation (no-op) on the strength of the impl's own exception: the "
    "tie checks 'if it raised, nothing changed', not whether it had to raise",
    "independence of two dicts alive at once (decoy) and of a copy made by MultiKeyDict(d) (fork) holds for the model by "
    "construction (a state is a value); the tie tests it on the real code",
]
ASSUMPTIONS = [
    "keys are non-tuple hashables (tie: short strings, fresh equal strings, large ints, str / int / None / float / frozenset / "
    "bytes mixed in one dict, keys equal across types 1 == 1.0 == True), values hashables whose __hash__ agrees with "
    "their __eq__ (two equal values with different hashes end up in two groups: Python's own dict contract is broken "
    "first); cross-type equal VALUES and KEYS form ONE class and the property fixes d[k] / the tuple items only up to == : "
    "which of the equal objects is handed back is not fixed and not compared.  A key that is itself a tuple (only reachable "
    "as an item of a key tuple, `d[((1, 2), 3)] = v`) is outside: `d[(1, 2)]` then looks at the storage, not at the key; "
    "observed as is (histogram `outside_the_property_observed_as_is`): d['c'] = 1; d[(('c',),)] = 5; del d[('c',)] succeeds and "
    "leaves the three maps incoherent (value 1 in the storage, not in _inv_dict), and d[(('c',),)] = 5; d['b'] = 5 raises KeyError. "
    "DECISION: a restriction of the key type ('single key or key tuple': a tuple is always a key TUPLE), not a finding",
    "key tuples are non-empty (the empty tuple is exercised separately, see known findings)",
    "StrategyDict names are strings different from 'default' and from every attribute/method of the class (a name "
    "attribute shadows the method: after sd['items'] = f, sd.__doc__ raises; sd['_keys_dict'] = f breaks the dict; "
    "sd['default'] = f; del sd['default'] raises AttributeError after removing the item).  DECISION: 'exposes every name as an "
    "attribute equal to the item' HOLDS for such names (getattr(sd, name) is the strategy) — what breaks is the class's own "
    "machinery that the instance attribute shadows; a documented restriction (strategy(): names are 'used both as key items and "
    "as attribute names'), recorded in the histogram `outside_the_property_observed_as_is`.  The name 'default' is modelled AS "
    "CODED (sdSetDefaultName / sdDelDefaultName / sdDelattrDefaultName, theorems C15.44-46, entry sdn of the tie): the strategy "
    "becomes THE default whatever was stored first, and deleting the name raises AttributeError after everything was removed; "
    "the decorator renames the strategy (func.__name__ = names[0]) BEFORE the assignment, so a refused sd.strategy('a', 3)(g) "
    "leaves g renamed: a side effect on the strategy object, not on the dict — recorded in the same histogram, outside the "
    "property (swapping the two statements would make a bound method, whose __name__ cannot be set, fail AFTER it was stored); "
    "stored strategies are never the class-level default lambda; an assignment naming a non-string is expected to be "
    "refused as a whole (the code raises TypeError today, see known findings)",
    "an operation that raises (missing key, unhashable key / value, a value's own __hash__ or __eq__ raising) must leave "
    "every observable of the dict unchanged; __hash__ of a stored value is stable (an object that hashes at one moment and "
    "raises at another breaks Python's dict itself and is outside)",
    "only the operations the property names — 'any sequence of item assignments (single key or key tuple), deletions and "
    "lookups' — (item assignment / deletion / lookup, key2keys, value2keys, len, iteration, keys/values/items views, the "
    "copy constructor MultiKeyDict(d); for StrategyDict attribute get/set/del, default, call, the strategy decorator).  "
    "DECISION: the mutators inherited from dict (update, pop, popitem, clear, setdefault, |=) are NOT overridden by the "
    "class, bypass the three maps (after d.clear() len(d) == 0 while list(d) still yields every value) and are outside the "
    "property; the check records that they are still inherited (histogram `inherited_from_dict`) and never calls them.  The "
    "inherited lookups `in` / get see the key-TUPLE storage (`'a' in d` is False for a bound key, `('a', 'b') in d` is True "
    "for a complete key tuple): modelled and compared as they are",
]

MANIFEST = {
    "text": ("Lean 4 theorems, for every key/value type with decidable equality and every history length: the "
             "coherence invariant of the three maps of MultiKeyDict is inductive; every operation of MultiKeyDict and "
             "StrategyDict (assignment with a key tuple, deletion, lookups, attribute get/set/del, default, call, and the "
             "operations REJECTED because an operand cannot be hashed) refines an abstract key->value map ordered by recency "
             "(+ attribute map + default), with equal results incl. KeyError / AttributeError / NotImplemented / rejection; "
             "corollaries: d[k] = last value assigned by an assignment that did not raise, one tuple per "
             "value in recency order, len/iteration count values, default = first stored strategy while it keeps a "
             "name and re-chosen when it loses all; EVERY operation that raises (KeyError, AttributeError, TypeError for an "
             "unhashable / non-string item at any position of a key argument of any shape, unhashable value) returns the state "
             "it was given, in any state; histories of calls with arbitrary key arguments refine the abstract map; d.items() = "
             "the specification's items, list(d) / d.values() / d.keys() enumerate in one order; the inherited `in` / get see "
             "complete key tuples; the constructor collapses its arguments as dict(...) and yields a coherent dict; the code "
             "before the repairs 9cbe718 / 735182a (half-way failing assignments) is kept as a regression model with theorems "
             "saying what it destroyed; round 4: sd[k] = the last strategy assigned to the name k read off the history alone "
             "(sdLastAssigned), deleting anything that is not a bound single key raises KeyError for EVERY key shape (tuples of any "
             "length, non-strings) on both classes, a refused assignment anywhere in a call history with the offending item at any "
             "position leaves every later result and the final state as if never issued, attribute = item and default = first "
             "stored for call histories; the NAME 'default' as coded (outside the property: it overrides the default and its "
             "deletion raises after removing); round 5: the bodies of __getitem__ / __setitem__ / __delitem__ / key2keys / value2keys / __iter__ of MultiKeyDict and __setitem__ / __delitem__ / __delattr__ / __call__ / __iter__ of StrategyDict, read from the source and translated statement by statement, ARE the model functions (17 theorems src_*_is_model), incl. that the statement hashing an unhashable key / value / name precedes every mutation.  Tied to /repo by exhaustive small-universe, random and long histories over value and key "
             "universes in which equality, identity and type differ, incl. iteration order of the three dicts."),
    "note": ("Trusted: Lean kernel (axioms propext, Classical.choice, Quot.sound), the Python correspondence harness, the source "
             "translator (Python-subset semantics, vocabulary mapping, parameter kinds: see trusted base); the "
             "model (Python dict = insertion-ordered association list, vars(self) = association list) is hand written "
             "and validated against the code differentially after every step of every history, incl. the private maps "
             "_keys_dict / _inv_dict.  Values are modelled up to == (which equal object is stored is not modelled).  Outside "
             "the theorems: the empty key tuple (recorded known finding), a replaced strategy whose == raises inside a "
             "multi-name assignment (known finding), keys that are themselves tuples, values whose hash disagrees with ==, "
             "StrategyDict names colliding with class attributes, and the inherited dict mutators (update, pop, popitem, clear, "
             "setdefault, |=) which bypass the maps."),
    "technique": "Lean 4 invariant + forward-simulation (refinement) proof over an executable model whose method bodies are REGENERATED from the source on every run by the translator harness/props/c15_tr.py (ast -> ALV/Gen/C15Src.lean, statement by statement) and proved equal to the model functions (src_*_is_model); differential history correspondence",
}

MK_KEYS = ["a", "b", "c"]
SD_KEYS = ["a", "b"]
MK_VF = ("int", "num", "tuple", "str", "bound", "scale")
SD_VF = ("func", "bound", "scale", "mixed", "picky")
UNHASHABLE = ("list", "dict", "set", "nohash", "badhash")
BAD_MK = ("get", "del", "k2k", "v2k", "gett")
BAD_SD = ("get", "del", "k2k", "v2k")
REJ_OPS = ("setu", "setbk", "setns", "bad")
LIGHT = ("res", "items", "attrs", "default", "alias")


# ----------------------------------------------------------------------------
# the value / key universes
# ----------------------------------------------------------------------------
class Boom(Exception):
    """raised by the test values' own __hash__ / __eq__"""


class _Amp(object):
    """`amp.apply` is a new bound method at every attribute read; they are == and hash alike"""

    def __init__(self, ident):
        self.ident = ident

    def apply(self, *args, **kwargs):
        return ("called", self.ident)


class _Scale(object):
    """callable with value semantics"""

    def __init__(self, g):
        self.g = g

    def __call__(self, *args, **kwargs):
        return ("called", self.g)

    def __eq__(self, other):
        return isinstance(other, _Scale) and self.g == other.g

    def __ne__(self, other):
        return not self == other

    def __hash__(self):
        return hash(("Scale", self.g))


class _Picky(object):
    """callable with value semantics that refuses to be compared with anything foreign"""

    def __init__(self, g):
        self.g = g

    def __call__(self, *args, **kwargs):
        return ("called", self.g)

    def __eq__(self, other):
        if not isinstance(other, _Picky):
            raise Boom("cannot compare a _Picky with %s" % type(other).__name__)
        return self.g == other.g

    def __ne__(self, other):
        return not self == other

    def __hash__(self):
        return hash(("Picky", self.g))


class _NoHash(object):
    """callable defining __eq__ only: Python makes it unhashable"""

    def __init__(self, g):
        self.g = g

    def __call__(self, *args, **kwargs):
        return ("called", self.g)

    def __eq__(self, other):
        return isinstance(other, _NoHash) and self.g == other.g


class _BadHash(object):
    """callable whose __hash__ raises its own exception"""

    def __call__(self, *args, **kwargs):
        return ("called", -1)

    def __hash__(self):
        raise Boom("hash")


def _unhashable(kind):
    if kind == "list":
        return [0]
    if kind == "dict":
        return {}
    if kind == "set":
        return set()
    if kind == "nohash":
        return _NoHash(1)
    if kind == "badhash":
        return _BadHash()
    raise ValueError("unknown unhashable kind %r" % (kind,))


def _expect(kind, bad_key=False):
    """the exceptions that make the step the predicted rejection (with an unhashable key AND an unhashable
    value either may be hashed first)"""
    if kind != "badhash":
        return ("TypeError",)
    return ("OTHER:Boom", "TypeError") if bad_key else ("OTHER:Boom",)


_TYPE_ERROR = ("TypeError",)
# a lookup / deletion with an unhashable operand: the code raises TypeError; answering "not there" (KeyError) is
# as good for the property — what matters is that nothing changes
_NOT_THERE = ("TypeError", "KeyError")


def _make_function(i):
    def strategy_function(*args, **kwargs):
        return ("called", i)
    strategy_function.ident = i
    return strategy_function


class _U(object):
    """the Python objects behind the key names / value classes of one history"""

    def __init__(self, c):
        self.entry = c["entry"]
        self.vf = c.get("vf") or ("int" if self.entry == "mk" else "func")
        self.kf = c.get("kf", "plain")
        self.names = list(c["keys"])
        self.funcs = {}
        self.amps = {}
        self.spell = 0

    # keys --------------------------------------------------------------------
    def key(self, name):
        if name is None:
            return []                                  # the unhashable key
        if self.kf == "plain":
            return name
        if self.kf == "fresh":
            return "".join(("K_", name))               # a new, equal string object every time
        if name not in self.names:
            self.names.append(name)
        i = self.names.index(name)
        if self.kf == "kinds":
            # keys of different kinds in one dict: str, int, None, float, frozenset, bytes
            m = i % 6
            if m == 0:
                return "".join(("K_", name))
            if m == 1:
                return 10 ** 6 + i
            if m == 2:
                return None if i == 2 else i + 0.5
            if m == 3:
                return i + 0.25
            if m == 4:
                return frozenset((i, "fs"))
            return ("b%d" % i).encode()
        if self.kf == "numeq":
            # keys that are EQUAL across types: 1 == 1.0 == True; another spelling at every use
            self.spell += 1
            r = self.spell % 3
            return i if r == 0 else float(i) if r == 1 else (bool(i) if i in (0, 1) else i)
        return 10 ** 6 + i                             # a new, equal int object every time

    def kdec(self, k):
        if self.kf == "plain":
            if isinstance(k, str):
                return k
        elif self.kf == "fresh":
            if isinstance(k, str) and k.startswith("K_"):
                return k[2:]
        elif self.kf == "kinds":
            for i, name in enumerate(self.names):
                o = self._kind_obj(i, name)
                if type(k) is type(o) and k == o:
                    return name
        elif self.kf == "numeq":
            if isinstance(k, (int, float)) and k == int(k) and 0 <= int(k) < len(self.names):
                return self.names[int(k)]
        elif isinstance(k, int) and not isinstance(k, bool) and 0 <= k - 10 ** 6 < len(self.names):
            return self.names[k - 10 ** 6]
        return "?%r" % (k,)

    def _kind_obj(self, i, name):
        m = i % 6
        return ("K_" + name, 10 ** 6 + i, None if i == 2 else i + 0.5, i + 0.25, frozenset((i, "fs")),
                ("b%d" % i).encode())[m]

    def ktuple(self, names):
        return tuple(self.key(n) for n in names)

    # values ------------------------------------------------------------------
    def func(self, v):
        f = self.funcs.get(v)
        if f is None:
            f = self.funcs[v] = _make_function(v)
        return f

    def flavour_of(self, v):
        vf = self.vf
        if vf == "mixed":
            return ("func", "bound", "scale")[v % 3]
        if vf == "picky":
            return "pickyobj" if v % 2 == 0 else "func"
        return vf

    def val(self, v, r=0):
        """an object of class `v`; a NEW one wherever the flavour allows it"""
        vf = self.flavour_of(v)
        if vf == "int":
            return v
        if vf == "num":
            return (v, float(v), bool(v) if v in (0, 1) else v)[r % 3]
        if vf == "tuple":
            return (v, "x")
        if vf == "str":
            return "".join(("v", str(v)))
        if vf == "func":
            return self.func(v)
        if vf == "bound":
            a = self.amps.get(v)
            if a is None:
                a = self.amps[v] = _Amp(v)
            return a.apply
        if vf == "scale":
            return _Scale(v)
        if vf == "pickyobj":
            return _Picky(v)
        raise ValueError("unknown value flavour %r" % (vf,))

    def cls(self, o):
        if isinstance(o, (int, float)):
            return int(o)
        if isinstance(o, tuple) and len(o) == 2 and o[1] == "x":
            return o[0]
        if isinstance(o, str) and o[:1] == "v":
            return int(o[1:])
        if isinstance(o, (_Scale, _Picky)):
            return o.g
        a = getattr(o, "__self__", None)
        if isinstance(a, _Amp):
            return a.ident
        i = getattr(o, "ident", None)
        if i is not None and self.funcs.get(i) is o:
            return i
        raise TypeError("not one of the test values: %r" % (o,))


# ----------------------------------------------------------------------------
# generation
# ----------------------------------------------------------------------------
def _tuples(keys, maxlen):
    out = []
    for n in range(1, maxlen + 1):
        out.extend([list(t) for t in itertools.product(keys, repeat=n)])
    return out


def _mk_ops(keys, vals, maxlen):
    ops = []
    for t in _tuples(keys, maxlen):
        for v in vals:
            ops.append(["set", t, v])
    ops += [["del", k] for k in keys]
    return ops


def _sd_ops(keys, vals):
    ops = []
    for t in _tuples(keys, 2):
        if len(t) == 2 and t[0] == t[1]:
            continue
        for v in vals:
            ops.append(["set", t, v])
    for k in keys:
        ops.append(["del", k])
        ops.append(["delattr", k])
        ops.append(["setattr", k, vals[-1]])
    ops.append(["delattr", None])
    ops.append(["setattr", None, vals[0]])
    return ops


def _universe(ops, extra_keys=("zz",), extra_vals=(9,)):
    ks, vs = [], []
    for op in ops:
        o = op[0]
        if o in ("set", "sets"):
            cand_k = op[1] if isinstance(op[1], list) else [op[1]]
            cand_v = [op[2]]
        elif o in ("del", "get", "k2k", "getattr"):
            cand_k, cand_v = [op[1]], []
        elif o in ("setattr", "delattr"):
            cand_k = [op[1]] if op[1] is not None else []
            cand_v = [op[2]] if o == "setattr" else []
        elif o == "gett":
            cand_k, cand_v = op[1], []
        elif o == "v2k":
            cand_k, cand_v = [], [op[1]]
        elif o == "setu":
            cand_k, cand_v = [k for k in op[1] if k is not None], []
        elif o in ("setbk", "setns"):
            cand_k, cand_v = op[1] + op[2], [op[3]]
        elif o == "kc":
            if op[1] == "v2k":
                cand_k, cand_v = [], [op[2]] if op[2] is not None else []
            else:
                arg = op[2]
                items = [arg["s"]] if "s" in arg else arg["t"]
                cand_k = [x for x in items if isinstance(x, str)]
                cand_v = [op[3]] if op[1] == "set" and op[3] is not None else []
        else:
            cand_k, cand_v = [], []
        for k in cand_k:
            if k not in ks:
                ks.append(k)
        for v in cand_v:
            if v not in vs:
                vs.append(v)
    return ks + [k for k in extra_keys if k not in ks], vs + [v for v in extra_vals if v not in vs]


def _halfway_prone(entry, ops, vf):
    """histories holding an operation that the code of today fails half-way (or that is refused on the
    impl's own say-so): always observed after every step, so that the first difference is AT that step"""
    if vf == "picky":
        return True
    for op in ops:
        if op[0] in ("setbk", "setns") or (entry == "sd" and op[0] == "setu"):
            return True
    return False


def _case(entry, ops, route="plain", view="all", vf=None, kf="plain", decoy=False, init=None):
    """view="last": the state is observed after the last step only (exhaustive enumerations contain
    every prefix as a history of its own); results are observed at every step in all modes.
    init = {"form": ..., "pairs": [[keys, v, r], ...]}: the arguments of the constructor (mk)"""
    keys, vals = _universe(([["set", p[0], p[1]] for p in init["pairs"]] if init else []) + ops)
    if entry == "sdn":
        # the name "default" itself is not looked up in the views (getattr(sd, "default") is the default)
        keys = [k for k in keys if k != "default"]
    # key tuples looked up as a whole (`d[(a, b)]`): singletons and ordered pairs of the first keys
    ks = keys[:3]
    tuples = [[k] for k in ks] + [[a, b] for a in ks for b in ks if a != b]
    if view != "all" and _halfway_prone(entry, ops, vf):
        view = "all"
    c = {"entry": entry, "ops": ops, "keys": keys, "vals": vals, "tuples": tuples, "route": route, "view": view}
    if vf not in (None, "int" if entry == "mk" else "func"):
        c["vf"] = vf
    if kf != "plain":
        c["kf"] = kf
    if decoy:
        c["decoy"] = True
    if init and init["pairs"]:
        c["init"] = init
    return c


def _recase(c, ops, **kw):
    """the same kind of history with other operations / one dimension changed"""
    n = len(ops)
    view = c.get("view", "all")
    if isinstance(view, dict) and n <= 60:
        view = "all"
    args = {"route": c.get("route", "plain"), "view": view, "vf": c.get("vf"), "kf": c.get("kf", "plain"),
            "decoy": c.get("decoy", False), "init": c.get("init")}
    args.update(kw)
    return _case(c["entry"], ops, **args)


def _rand_tuple(rng, keys, maxlen):
    n = rng.choice([1, 1, 1, 2, 2, 3, maxlen])
    return [rng.choice(keys) for _ in range(n)]


def _args_over(items, maxlen):
    out = [{"s": x} for x in items]
    for n in range(maxlen + 1):
        out.extend({"t": list(t)} for t in itertools.product(items, repeat=n))
    return out


def _sweep_calls(items, vals, sd, shift=0):
    """every kind of call x every shape of key argument over `items` (None = an unhashable object, an int = a
    hashable non-string), single and in tuples of length 0..3 at every position — all the calls that must
    NOT change the dict: lookups, refused assignments, deletions of keys that cannot be there"""
    calls = []
    for n, a in enumerate(_args_over(items, 3)):
        its = [a["s"]] if "s" in a else a["t"]
        clean = all(isinstance(x, str) for x in its)
        uk = UNHASHABLE[(n + shift) % len(UNHASHABLE)]
        for kind in ("get", "del", "in", "dget") if sd else ("get", "del", "k2k", "in", "dget"):
            if kind == "del" and "s" in a and clean:
                continue          # a deletion that may succeed: left to the histories
            calls.append(["kc", kind, a, uk])
        if clean:
            calls.append(["kc", "set", a, None, uk])
        else:
            for v in vals[:1] + [None] if n % 3 else vals + [None]:
                calls.append(["kc", "set", a, v, uk])
    if not sd:
        calls += [["kc", "v2k", v, UNHASHABLE[shift % len(UNHASHABLE)]] for v in vals + [None]]
    return calls[shift % 7:] + calls[:shift % 7]


def _rand_call(rng, keys, live, vals, sd):
    kind = rng.choice(["set", "set", "set", "get", "get", "del", "del", "in", "dget"] + ([] if sd else ["k2k", "v2k"]))
    uk = rng.choice(UNHASHABLE)
    if kind == "v2k":
        return ["kc", "v2k", rng.choice(vals + [9, None]), uk]

    def item():
        q = rng.random()
        if q < 0.5 and live:
            return rng.choice(live)
        if q < 0.75:
            return rng.choice(keys)
        if q < 0.82:
            return "zz"
        if q < 0.92 or not sd:
            return None
        return rng.randrange(12)
    if rng.random() < 0.4:
        arg = {"s": item()}
    else:
        n = rng.choice([0, 1, 1, 2, 2, 3, 4])
        if kind == "set" and n == 0:
            n = 1                 # (the empty key tuple is a known finding of its own)
        arg = {"t": [item() for _ in range(n)]}
    if kind == "set":
        return ["kc", "set", arg, rng.choice(vals) if rng.random() < 0.85 else None, uk]
    return ["kc", kind, arg, uk]


def _call_effect(op, live):
    """the live keys after a call (generator bookkeeping only)"""
    if op[1] not in ("set", "del"):
        return live
    arg = op[2]
    its = [arg["s"]] if "s" in arg else arg["t"]
    if not all(isinstance(x, str) for x in its):
        return live
    if op[1] == "set":
        return live if op[3] is None else [k for k in live if k not in its] + its
    return [k for k in live if "s" not in arg or k != arg["s"]]


def _rand_init(rng, keys, vals):
    pairs = []
    for _ in range(rng.choice([1, 2, 3, 3, 5])):
        ks = [rng.choice(keys)] if rng.random() < 0.7 else [rng.choice(keys) for _ in range(rng.choice([2, 2, 3]))]
        pairs.append([ks, rng.choice(vals), rng.randrange(3)])
    return {"form": rng.choice(["dict", "pairs", "iter", "kwargs", "pairs+kwargs", "dict+kwargs"]), "pairs": pairs}


def _rand_mk(rng, nkeys, nvals, length, maxlen, rej=0.0, halfway=0.0, fork=0.0, calls=0.0, live=()):
    """rej: share of atomically rejected operations (unhashable value, unhashable lookup operand);
    halfway: share of assignments with an unhashable key in the tuple; calls: share of calls with a key
    argument of any shape"""
    keys = ["k%d" % i for i in range(nkeys)]
    vals = list(range(nvals))
    ops = []
    live = list(live)
    for _ in range(length):
        if calls and rng.random() < calls:
            ops.append(_rand_call(rng, keys, live, vals, False))
            live = _call_effect(ops[-1], live)
            continue
        r = rng.random()
        if r < rej:
            if rng.random() < 0.6:
                t = _rand_tuple(rng, live or keys, 3) if rng.random() < 0.8 else _rand_tuple(rng, keys, 3)
                if rng.random() < 0.15:
                    t.insert(rng.randrange(len(t) + 1), None)      # an unhashable key as well: the value goes first
                ops.append(["setu", t, rng.choice(UNHASHABLE)])
            else:
                ops.append(["bad", rng.choice(BAD_MK)])
            continue
        r = (r - rej) / (1 - rej)
        if r < halfway:
            pool = live + keys if live else keys
            before = [rng.choice(pool) for _ in range(rng.choice([0, 0, 1, 1, 2]))]
            after = [rng.choice(pool) for _ in range(rng.choice([0, 0, 0, 1]))]
            ops.append(["setbk", before, after, rng.choice(vals)])
            continue
        r = (r - halfway) / (1 - halfway)
        if r < fork:
            ops.append(["fork"])
            continue
        r = (r - fork) / (1 - fork)
        if r < 0.45:
            t = _rand_tuple(rng, keys, maxlen)
            v = rng.choice(vals)
            if len(t) == 1 and rng.random() < 0.5:
                ops.append(["sets", t[0], v, rng.randrange(3)])
            else:
                ops.append(["set", t, v, rng.randrange(3)])
            live = [k for k in live if k not in t] + t
        elif r < 0.65:
            # mostly delete something that may be present
            k = rng.choice(live) if live and rng.random() < 0.8 else rng.choice(keys + ["zz"])
            ops.append(["del", k])
            live = [x for x in live if x != k]
        elif r < 0.75:
            ops.append(["get", rng.choice(keys + ["zz"])])
        elif r < 0.82:
            ops.append(["k2k", rng.choice(keys + ["zz"])])
        elif r < 0.89:
            ops.append(["v2k", rng.choice(vals + [9])])
        elif r < 0.95:
            ops.append(["gett", _rand_tuple(rng, keys, 2)])
        else:
            ops.append(["len"])
    return ops


def _rand_sd(rng, nkeys, nvals, length, rej=0.0, halfway=0.0, calls=0.0):
    keys = ["n%d" % i for i in range(nkeys)]
    vals = list(range(nvals))
    ops = []
    live = []
    for _ in range(length):
        if calls and rng.random() < calls:
            recent = [k for o in ops[-8:] if o[0] == "set" for k in o[1]]
            ops.append(_rand_call(rng, keys, live + recent, vals, True))
            live = _call_effect(ops[-1], live)
            continue
        r = rng.random()
        if r < rej:
            ops.append(["bad", rng.choice(BAD_SD)])
            continue
        r = (r - rej) / (1 - rej)
        if r < halfway:
            prev = [k for o in ops if o[0] == "set" for k in o[1]] or keys
            q = rng.random()
            if q < 0.4:
                ops.append(["setu", [rng.choice(prev) for _ in range(rng.choice([1, 1, 2]))], rng.choice(UNHASHABLE)])
            else:
                before = [rng.choice(prev) for _ in range(rng.choice([0, 1, 1, 2]))]
                after = [rng.choice(prev) for _ in range(rng.choice([0, 0, 1]))]
                ops.append(["setbk" if q < 0.7 else "setns", before, after, rng.choice(vals)])
            continue
        r = (r - halfway) / (1 - halfway)
        if r < 0.12 and ops:
            # aim at the attribute branches: touch the name used by an earlier assignment
            prev = [o for o in ops if o[0] == "set"]
            if prev:
                k = rng.choice(rng.choice(prev)[1])
                ops.append(rng.choice([["setattr", k, rng.choice(vals)], ["delattr", k], ["del", k],
                                       ["getattr", k]]))
                continue
        if r < 0.40:
            t = _rand_tuple(rng, keys, 3)
            ops.append(["set", t, rng.choice(vals)])
        elif r < 0.55:
            ops.append(["del", rng.choice(keys)])
        elif r < 0.65:
            ops.append(["delattr", rng.choice(keys + [None])])
        elif r < 0.72:
            ops.append(["setattr", rng.choice(keys + [None]), rng.choice(vals)])
        elif r < 0.80:
            ops.append(["getattr", rng.choice(keys)])
        elif r < 0.86:
            ops.append(["get", rng.choice(keys)])
        elif r < 0.92:
            ops.append(["call"])
        elif r < 0.97:
            ops.append(["default"])
        else:
            ops.append(["len"])
    return ops


def _stores_class_twice(h):
    seen = set()
    for op in h:
        if op[0] in ("set", "setattr"):
            if op[2] in seen:
                return True
            seen.add(op[2])
    return False


# small operation alphabets with rejected operations, for the exhaustive part
MK_REJ_BASE = [["set", ["a"], 0], ["set", ["a"], 1], ["set", ["b"], 0], ["set", ["b"], 1],
               ["set", ["a", "b"], 0], ["set", ["b", "a"], 1], ["del", "a"], ["del", "b"]]
MK_REJ = [["setu", ["a"], "list"], ["setu", ["a", "b"], "dict"], ["setu", ["b", None], "badhash"],
          ["bad", "get"], ["bad", "del"],
          ["setbk", [], [], 0], ["setbk", ["a"], [], 0], ["setbk", ["b"], [], 1], ["setbk", [], ["a"], 1],
          ["setbk", ["b"], ["a"], 0]]
SD_REJ_BASE = [["set", ["a"], 0], ["set", ["a"], 1], ["set", ["b"], 0], ["set", ["b"], 1], ["set", ["a", "b"], 0],
               ["del", "a"], ["del", "b"], ["setattr", "a", 1], ["delattr", "a"], ["setattr", None, 1]]
SD_REJ = [["setu", ["a"], "nohash"], ["setu", ["a", "b"], "badhash"], ["bad", "get"], ["bad", "del"],
          ["setbk", [], [], 0], ["setbk", ["a"], [], 1], ["setbk", ["b"], ["a"], 0],
          ["setns", [], [], 0], ["setns", ["a"], [], 1]]


SDN_OPS = [["set", ["default"], 0], ["set", ["default"], 1], ["del", "default"], ["delattr", None],
           ["set", ["a"], 0], ["set", ["a"], 1], ["set", ["a", "b"], 1], ["del", "a"], ["setattr", None, 1], ["call"]]


def _with_rejected(base, rej, depth):
    """histories of the given depth over base + rej holding at least one rejected operation"""
    for h in itertools.product(base + rej, repeat=depth):
        if any(op[0] in REJ_OPS for op in h):
            yield [list(op) for op in h]


def generate(rng, tier, scale=1):
    cases = []
    quick = tier == "quick"
    if scale == 1:
        # exhaustive small universes
        ops = _mk_ops(MK_KEYS, [0, 1], 2)
        sops = _sd_ops(SD_KEYS, [0, 1])
        for depth in (1, 2, 3):
            view = "all" if depth < 3 else "last"
            for h in itertools.product(ops, repeat=depth):
                cases.append(_case("mk", list(h), view=view))
            for h in itertools.product(sops, repeat=depth):
                cases.append(_case("sd", list(h), view="all"))
        # ... again where equality and identity differ: every assignment hands in a NEW equal object
        for depth in (2, 3):
            for n, h in enumerate(itertools.product(sops, repeat=depth)):
                if _stores_class_twice(h):
                    cases.append(_case("sd", list(h), view="all", vf=("bound", "scale")[(n // 2) % 2],
                                       kf=("plain", "fresh")[(n // 4) % 2]))
        for depth in (1, 2):
            for n, h in enumerate(itertools.product(ops, repeat=depth)):
                cases.append(_case("mk", list(h), view="all", vf=("tuple", "num", "str", "scale")[n % 4],
                                   kf=("fresh", "int")[(n // 4) % 2]))
        if quick:
            for n, h in enumerate(itertools.product(ops, repeat=3)):
                if n % 5 == 0:
                    cases.append(_case("mk", list(h), view="last", vf=("tuple", "num", "str", "scale", "bound")[(n // 5) % 5],
                                       kf=("fresh", "int", "plain")[(n // 25) % 3]))
        # ... and with rejected operations mixed in
        for depth in (1, 2, 3) if not quick else (1, 2):
            for h in _with_rejected(MK_REJ_BASE, MK_REJ, depth):
                cases.append(_case("mk", h, view="all" if depth < 3 else "last"))
        if quick:
            # depth 3 for mk: the rejected operation after two ordinary ones, and between two
            for a in MK_REJ_BASE:
                for b in MK_REJ_BASE:
                    for z in MK_REJ:
                        cases.append(_case("mk", [list(a), list(b), list(z)], view="last"))
                        cases.append(_case("mk", [list(a), list(z), list(b)], view="last"))
        for depth in (1, 2, 3) if not quick else (1, 2):
            for h in _with_rejected(SD_REJ_BASE, SD_REJ, depth):
                cases.append(_case("sd", h, view="all"))
        if quick:
            # depth 3 for sd: two ordinary operations, then the rejected one
            for a in SD_REJ_BASE[:7]:
                for b in SD_REJ_BASE:
                    for z in SD_REJ:
                        cases.append(_case("sd", [list(a), list(b), list(z)], view="all"))
        if not quick:
            for h in itertools.product(ops, repeat=4):
                cases.append(_case("mk", list(h), view="last"))
            ops3 = _mk_ops(MK_KEYS, [0, 1, 2], 1) + [["set", ["a", "b"], 0], ["set", ["b", "c"], 1], ["set", ["c", "a"], 2]]
            for h in itertools.product(ops3, repeat=4):
                cases.append(_case("mk", list(h), view="last"))
            for h in itertools.product(sops, repeat=4):
                cases.append(_case("sd", list(h), view="last"))
            for n, h in enumerate(itertools.product(sops, repeat=4)):
                if n % 3 == 0 and _stores_class_twice(h):
                    cases.append(_case("sd", list(h), view="last", vf=("bound", "scale", "mixed")[(n // 3) % 3]))
            for n, h in enumerate(itertools.product(ops, repeat=3)):
                cases.append(_case("mk", list(h), view="last", vf=("tuple", "num", "str", "scale", "bound")[n % 5],
                                   kf=("fresh", "int", "plain")[(n // 5) % 3]))
        # key arguments of every shape for every operation: after each prefix, all the calls that must not
        # change the dict (lookups / `in` / `get` / refused assignments / deletions of impossible keys, with
        # unhashable and non-string items alone and at every position of tuples of length 0..3), then one
        # ordinary operation: a call that left a trace shows in the views
        pre_mk = [[]] + [[list(a)] for a in MK_REJ_BASE] + [[list(rng.choice(MK_REJ_BASE)), list(rng.choice(MK_REJ_BASE))]
                                                            for _ in range(10 if quick else 64)]
        for n, pre in enumerate(pre_mk):
            cases.append(_case("mk", pre + _sweep_calls(["a", "b", None], [0, 1], False, n) + [["set", ["b", "a"], 1], ["len"]],
                               view="last", vf=MK_VF[n % len(MK_VF)], kf=("plain", "fresh", "kinds", "numeq", "int")[n % 5]))
        pre_sd = [[]] + [[list(a)] for a in SD_REJ_BASE] + [[list(rng.choice(SD_REJ_BASE[:7])), list(rng.choice(SD_REJ_BASE))]
                                                            for _ in range(6 if quick else 48)]
        for n, pre in enumerate(pre_sd):
            cases.append(_case("sd", pre + _sweep_calls(["a", "b", None, 7 + n], [0, 1], True, n) + [["set", ["b", "a"], 1], ["call"]],
                               view="last", vf=SD_VF[n % 4], kf=("plain", "fresh")[n % 2]))
        # cross-type equal keys and keys of mixed kinds, exhaustively (depth 2)
        for n, h in enumerate(itertools.product(ops, repeat=2)):
            cases.append(_case("mk", list(h), view="all", vf=("int", "num", "scale")[n % 3], kf=("numeq", "kinds")[(n // 3) % 2]))
        # OUTSIDE the property, as coded (entry sdn): the NAME "default" collides with the attribute `default`
        # (sd["default"] = f makes f THE default; del sd["default"] raises AttributeError after removing
        # everything when it was the only name) — exhaustive depth <= 3 over a small alphabet
        for depth in (1, 2, 3):
            for h in itertools.product(SDN_OPS, repeat=depth):
                if any(op[1:2] in (["default"], [["default"]]) for op in h):
                    cases.append(_case("sdn", [list(op) for op in h], view="all"))
        # malformed stream: empty key tuple
        for v in (0, 1):
            cases.append(_case("mk", [["set", [], v]], "empty"))
            cases.append(_case("mk", [["set", ["a"], v], ["set", [], v]], "empty"))
            cases.append(_case("mk", [["set", [], 0], ["set", [], 1], ["set", ["a"], v]], "empty"))
        # long histories over a dozen keys
        for i in range(3 if quick else 12):
            n = rng.choice([1000, 2000, 4000]) if i else 4000
            view = {"every": 97}
            cases.append(_case("mk", _rand_mk(rng, 12, rng.choice([3, 5]), n, 4, rej=0.02, calls=0.1), view=view,
                               vf=rng.choice(MK_VF), kf=rng.choice(["plain", "fresh", "int", "kinds", "numeq"])))
            cases.append(_case("sd", _rand_sd(rng, 12, rng.choice([3, 5]), n // 2, rej=0.02, calls=0.1), view=view,
                               vf=rng.choice(SD_VF[:4]), kf=rng.choice(["plain", "fresh"])))
    nrand = (1000 if quick else 8000) * scale
    # (histories of 20 and 40 operations: light view after every step, everything after every 4th)
    for i in range(nrand):
        length = rng.choice([3, 6, 10, 20, 40])
        route = rng.choice(["plain", "plain", "plain", "ctor", "fromkeys"])
        nk, nv = rng.choice([2, 4, 6]), rng.choice([1, 2, 4])
        init = None
        if route == "plain" and rng.random() < 0.35:
            init = _rand_init(rng, ["k%d" % j for j in range(nk)], list(range(nv)))
        cases.append(_case("mk", _rand_mk(rng, nk, nv, length, 4,
                                          rej=rng.choice([0, 0, 0.1]), fork=rng.choice([0, 0, 0, 0.05]),
                                          calls=rng.choice([0, 0.2, 0.5]),
                                          live=[k for p in init["pairs"] for k in p[0]] if init else ()), route,
                           view="all" if length <= 10 else {"every": 4},
                           vf=rng.choice(MK_VF), kf=rng.choice(["plain", "fresh", "int", "kinds", "numeq"]),
                           decoy=rng.random() < 0.2, init=init))
    for i in range(nrand):
        length = rng.choice([3, 6, 10, 20, 40])
        route = rng.choice(["plain", "decorator", "decorator-rename"])
        cases.append(_case("sd", _rand_sd(rng, rng.choice([2, 3, 5]), rng.choice([2, 3, 4]), length,
                                          rej=rng.choice([0, 0, 0.1]), calls=rng.choice([0, 0.2, 0.5])), route,
                           view="all" if length <= 10 else {"every": 4},
                           vf=rng.choice(SD_VF), kf=rng.choice(["plain", "plain", "fresh"]),
                           decoy=rng.random() < 0.2))
    # histories with the assignments that fail half-way today (each is lost for everything after that step)
    for i in range(nrand // 8):
        length = rng.choice([3, 6, 10])
        cases.append(_case("mk", _rand_mk(rng, rng.choice([2, 4]), rng.choice([1, 2, 3]), length, 3, rej=0.1,
                                          halfway=0.15), vf=rng.choice(MK_VF), kf=rng.choice(["plain", "fresh"])))
        cases.append(_case("sd", _rand_sd(rng, rng.choice([2, 3]), rng.choice([2, 3]), length, rej=0.05,
                                          halfway=0.15), vf=rng.choice(SD_VF[:4])))
    return cases


# ----------------------------------------------------------------------------
# impl
# ----------------------------------------------------------------------------
def _res(f):
    try:
        return f()
    except KeyError:
        return {"err": "KeyError"}
    except AttributeError:
        return {"err": "AttributeError"}


def _run(f, expect=None, booms=None, i=None):
    """the result of one step: the value of f() or the exception it raised.  `expect`: the error kind that
    makes the step the predicted rejection; without it a `Boom` coming out of a value's own __eq__ is
    a rejection on the impl's say-so (recorded in `booms`)"""
    try:
        return f()
    except Exception as e:
        k = err_kind(e)
        if expect is not None:
            if k not in expect and isinstance(e, Boom) and booms is not None:
                booms.append(i)             # a stored value's own == raised: refused on the impl's say-so
                return {"err": "Rejected"}
            return {"err": "Rejected" if k in expect else k}
        if k in ("KeyError", "AttributeError"):
            return {"err": k}
        if isinstance(e, Boom) and booms is not None:
            booms.append(i)
            return {"err": "Rejected"}
        raise


def _val(v):
    return {"v": v}


def _view_level(c):
    """step index -> 0 (result only) / 1 (light: items, attrs, default) / 2 (everything); mirrors
    `viewLevel` of the driver"""
    view = c.get("view", "all")
    ops = c["ops"]
    n = len(ops)
    every = 1 if view == "all" else 0 if view == "last" else int(view["every"])

    def level(i):
        if i == n - 1 or ops[i][0] in REJ_OPS or ops[i][0] == "kc" or every == 1 or (every != 0 and (i + 1) % every == 0):
            return 2
        return 0 if every == 0 else 1
    return level


def _items(d, u):
    C, D = u.cls, u.kdec
    return sorted([[[D(k) for k in kt], C(v)] for kt, v in dict.items(d)])


_KEY_ERROR = {"err": "KeyError"}
_ATTR_ERROR = {"err": "AttributeError"}


def _mk_view(d, u, keys, vals, tuples):
    """everything the property names, through the public accessors (+ the two private maps); written
    as plain loops: this is the hot spot of the whole check"""
    C, D = u.cls, u.kdec
    plain = u.kf == "plain"
    get, k2k, gett = [], [], []
    for k in keys:
        kk = k if plain else u.key(k)
        try:
            get.append({"v": C(d[kk])})
        except KeyError:
            get.append(_KEY_ERROR)
        try:
            k2k.append({"t": [D(x) for x in d.key2keys(kk)]})
        except KeyError:
            k2k.append(_KEY_ERROR)
    for t in tuples:
        try:
            gett.append({"v": C(d[tuple(t) if plain else u.ktuple(t)])})
        except KeyError:
            gett.append(_KEY_ERROR)
    return {
        "len": len(d),
        "iter": sorted([C(v) for v in d._inv_dict]),
        "items": _items(d, u),
        "keytuples": sorted([[D(k) for k in kt] for kt in d.keys()]),
        "values": sorted([C(v) for v in d.values()]),
        "keys_dict": sorted([[D(k), [D(x) for x in t]] for k, t in d._keys_dict.items()]),
        "inv_dict": sorted([[C(v), [D(x) for x in t]] for v, t in d._inv_dict.items()]),
        # iteration ORDER of the three dicts (compared with the model's association lists as they are)
        "o_inv": [C(v) for v in d._inv_dict],
        "o_items": [[[D(k) for k in kt], C(v)] for kt, v in dict.items(d)],
        "o_keys": [D(k) for k in d._keys_dict],
        "get": get,
        "k2k": k2k,
        "v2k": [[D(x) for x in d.value2keys(u.val(v, 1))] for v in vals],
        "gett": gett,
    }


def _rot(c, name):
    ks = c["keys"]
    return ks[(ks.index(name) + 1) % len(ks)] if name in ks else name


def _quiet(f):
    try:
        f()
    except Exception:
        pass


def _setkey(u, names, single=False):
    """the key handed to `d[...] = `: a lone key (when asked for) or a tuple"""
    if single and len(names) == 1:
        return u.key(names[0])
    return u.ktuple(names)


_NONSTR = (7, None, 2.5, b"x", frozenset(), True)


def _call_key(u, arg, uk):
    """the Python key argument of a call: {"s": item} a single object, {"t": [...]} a tuple; an item is a
    key name, None (an unhashable object of kind `uk`) or an int n (sd: a hashable non-string)"""
    def item(x):
        if x is None:
            return _unhashable(uk)
        if isinstance(x, str):
            return u.key(x)
        return _NONSTR[x % len(_NONSTR)]
    if "s" in arg:
        return item(arg["s"])
    return tuple(item(x) for x in arg["t"])


def _do_call(d, u, op, booms=None, i=None):
    """one call with a key argument of any shape on the real dict.  The exception KIND is part of the
    observation: TypeError (or the exception of the operand's own __hash__) = "Rejected", KeyError stays"""
    kind, uk = op[1], op[-1]
    if kind == "v2k":
        uses_bad = op[2] is None
    else:
        uses_bad = None in ([op[2]["s"]] if "s" in op[2] else op[2]["t"]) or (kind == "set" and op[3] is None)
    # (the exception of the operand's own __hash__ counts as the refusal only when such an operand is there)
    expect = ("TypeError", "OTHER:Boom") if uk == "badhash" and uses_bad else _TYPE_ERROR
    if kind == "v2k":
        val = _unhashable(uk) if op[2] is None else u.val(op[2], 1)
        return _run(lambda: {"t": [u.kdec(x) for x in d.value2keys(val)]}, expect, booms, i)
    key = _call_key(u, op[2], uk)
    if kind == "set":
        obj = _unhashable(uk) if op[3] is None else u.val(op[3], 0)

        def f():
            d[key] = obj
        return _run(f, expect, booms, i)
    if kind == "get":
        return _run(lambda: _val(u.cls(d[key])), expect, booms, i)
    if kind == "del":
        def f():
            del d[key]
        return _run(f, expect, booms, i)
    if kind == "k2k":
        return _run(lambda: {"t": [u.kdec(x) for x in d.key2keys(key)]}, expect, booms, i)
    if kind == "in":
        return _run(lambda: bool(key in d), expect, booms, i)
    if kind == "dget":
        def f():
            r = d.get(key)
            return "None" if r is None else _val(u.cls(r))
        return _run(f, expect, booms, i)
    raise ValueError("unknown call %r" % (op,))


def _construct(c, u, alias):
    """MultiKeyDict(*args, **kwargs) in the form the case asks for"""
    from audiolazy import MultiKeyDict
    init = c["init"]
    form = init["form"]
    pairs = []
    for p in init["pairs"]:
        names = p[0]
        key = u.key(names[0]) if len(names) == 1 else u.ktuple(names)
        pairs.append((key, u.val(p[1], p[2] if len(p) > 2 else 0)))
    kw_ok = all(isinstance(k, str) for k, _ in pairs)
    if form in ("kwargs", "pairs+kwargs", "dict+kwargs") and not kw_ok:
        form = "pairs"
    if form == "dict":
        arg = dict(pairs)
        pristine = dict(arg)
        d = MultiKeyDict(arg)
        if arg != pristine or list(arg) != list(pristine):
            alias.append("constructor changed its argument")
        return d
    if form == "pairs":
        return MultiKeyDict(pairs)
    if form == "iter":
        return MultiKeyDict(iter(pairs))
    if form == "kwargs":
        return MultiKeyDict(**dict(pairs))
    h = len(pairs) // 2
    if form == "pairs+kwargs":
        return MultiKeyDict(pairs[:h], **dict(pairs[h:]))
    if form == "dict+kwargs":
        return MultiKeyDict(dict(pairs[:h]), **dict(pairs[h:]))
    raise ValueError("unknown constructor form %r" % (form,))


def _aliasing(c, u):
    """does the history store one value class through several objects?  (histogram only)"""
    fl = set()
    seen = set()
    for op in c["ops"]:
        if op[0] in ("set", "sets", "setattr"):
            if op[2] in seen:
                fl.add(u.flavour_of(op[2]))
            seen.add(op[2])
    return sorted(fl)


def _impl_mk(c):
    from audiolazy import MultiKeyDict
    ops = c["ops"]
    keys, vals, tuples = c["keys"], c["vals"], c.get("tuples", [])
    u = _U(c)
    start = 0
    d = None
    alias = []
    if c.get("route") == "ctor":
        # leading single-key assignments with distinct keys go through the constructor
        init, names = {}, set()
        while start < len(ops) and ops[start][0] == "sets" and ops[start][1] not in names:
            names.add(ops[start][1])
            init[u.key(ops[start][1])] = u.val(ops[start][2], ops[start][3] if len(ops[start]) > 3 else 0)
            start += 1
        pristine = dict(init)
        d = MultiKeyDict(init)
        if init != pristine or list(init) != list(pristine):
            alias.append("constructor changed its argument")
    if c.get("route") == "fromkeys":
        # leading single-key assignments of ONE value class go through dict.fromkeys (which calls
        # cls() and then __setitem__ for every element, repeated ones included)
        while start < len(ops) and ops[start][0] == "sets" and ops[start][2] == ops[0][2]:
            start += 1
        if start:
            d = MultiKeyDict.fromkeys([u.key(o[1]) for o in ops[:start]], u.val(ops[0][2], 0))
            if type(d) is not MultiKeyDict:
                alias.append("fromkeys did not build a MultiKeyDict")
    if c.get("init"):
        d = _construct(c, u, alias)
    if d is None:
        d = MultiKeyDict()
    decoy = MultiKeyDict() if c.get("decoy") else None
    watched = []       # (dict that was copied, its full view at that moment)
    forked = False     # the copy rebuilds `_keys_dict` tuple by tuple: its key ORDER is not the original's
    level = _view_level(c)
    steps = []
    for i, op in enumerate(ops):
        if i < start:
            steps.append(None)      # inside the constructor: not observable step by step
            continue
        o = op[0]
        if o in ("set", "sets"):
            names = op[1] if o == "set" else [op[1]]
            key = _setkey(u, names, o == "sets")
            obj = u.val(op[2], op[3] if len(op) > 3 else 0)
            if decoy is not None:
                _quiet(lambda: decoy.__setitem__(_setkey(u, [_rot(c, k) for k in names], o == "sets"), obj))
                _quiet(lambda: (decoy.value2keys(obj), decoy.key2keys(u.key(_rot(c, names[0]))), len(decoy)))

            def f():
                d[key] = obj
            r = _run(f)
        elif o == "del":
            if decoy is not None:
                _quiet(lambda: decoy.__delitem__(u.key(_rot(c, op[1]))))

            def f():
                del d[u.key(op[1])]
            r = _run(f)
        elif o == "get":
            r = _run(lambda: _val(u.cls(d[u.key(op[1])])))
        elif o == "gett":
            r = _run(lambda: _val(u.cls(d[u.ktuple(op[1])])))
        elif o == "k2k":
            r = _run(lambda: {"t": [u.kdec(x) for x in d.key2keys(u.key(op[1]))]})
        elif o == "v2k":
            r = {"t": [u.kdec(x) for x in d.value2keys(u.val(op[1], 2))]}
        elif o == "len":
            r = len(d)
        elif o == "setu":
            key = _setkey(u, op[1], True)
            bad = _unhashable(op[2])
            if decoy is not None:
                _quiet(lambda: decoy.__setitem__(key, bad))

            def f():
                d[key] = bad
            r = _run(f, _expect(op[2], None in op[1]))
        elif o == "setbk":
            key = _setkey(u, op[1] + [None] + op[2], True)
            obj = u.val(op[3], 0)

            def f():
                d[key] = obj
            r = _run(f, _TYPE_ERROR)
        elif o == "bad":
            w = op[1]
            if w == "get":
                r = _run(lambda: _val(u.cls(d[[]])), _NOT_THERE)
            elif w == "del":
                def f():
                    del d[[]]
                r = _run(f, _NOT_THERE)
            elif w == "k2k":
                r = _run(lambda: d.key2keys([]), _NOT_THERE)
            elif w == "v2k":
                r = _run(lambda: (d.value2keys([]), None)[1], _NOT_THERE)
                r = {"err": "Rejected"} if r is None else r       # "no key holds it" is an answer too
            elif w == "gett":
                r = _run(lambda: d[(u.key(keys[0]), [])], _NOT_THERE)
            else:
                raise ValueError("unknown bad operand %r" % (op,))
        elif o == "kc":
            r = _do_call(d, u, op)
        elif o == "fork":
            # go on with a copy made by the constructor; the original is watched from now on
            watched.append((d, _mk_view(d, u, keys, vals, tuples)))
            d = MultiKeyDict(d)
            forked = True
            r = len(d)
        else:
            raise ValueError("unknown op %r" % (op,))
        lv = level(i)
        if lv == 2:
            v = _mk_view(d, u, keys, vals, tuples)
            if forked:
                del v["o_keys"]
            # C15.26: list(d), d.values() and d.keys() enumerate the values in the same order
            if [u.cls(x) for x in d] != [u.cls(x) for x in d.values()] or \
                    [tuple(t) for t in d.keys()] != [tuple(d.value2keys(x)) for x in d]:
                alias.append("iteration orders of list(d), d.values(), d.keys() disagree")
            for j, (od, snap) in enumerate(watched):
                if _mk_view(od, u, keys, vals, tuples) != snap:
                    alias.append("dict copied at fork %d changed with its copy" % j)
        elif lv == 1:
            v = {"items": _items(d, u)}
        else:
            v = {}
        if alias:
            v["alias"] = sorted(set(alias))
        v["res"] = r
        steps.append(v)
    return {"steps": steps, "booms": [], "handed": _aliasing(c, u)}


def _impl_sd(c):
    from audiolazy import StrategyDict
    _gc_tick()
    ops = c["ops"]
    keys, vals, tuples = c["keys"], c["vals"], c.get("tuples", [])
    u = _U(c)
    sd = StrategyDict("sd_under_test")
    decoy = StrategyDict("decoy") if c.get("decoy") else None
    hidden = ("__name__", "_keys_dict", "_inv_dict", "default")
    deco = c.get("route") == "decorator"
    booms = []
    alias = []

    def default_now():
        if "default" in vars(sd):
            return _val(u.cls(vars(sd)["default"]))
        r = sd.default()                    # class-level lambda
        if r is NotImplemented:
            return "NotImplemented"
        raise TypeError("unexpected class default result %r" % (r,))

    def call_now():
        r = sd(1, x=2)
        if r is NotImplemented:
            return "NotImplemented"
        if isinstance(r, tuple) and r[0] == "called":
            # calling the dict must call the default strategy itself
            return _val(r[1])
        raise TypeError("unexpected call result %r" % (r,))

    def attr_name(k):
        return "default" if k is None else u.key(k)

    rename = c.get("route") == "decorator-rename"
    deco = deco or rename

    def assign(names, obj, single):
        if deco and len(names) > 0 and all(k is not None for k in names):
            nm = getattr(obj, "__name__", None)
            kt = u.ktuple(names)
            if rename and not hasattr(obj, "__self__") and callable(obj):
                # keep_name defaults to False: the strategy is renamed to the FIRST name given
                # (a bound method cannot be renamed: that route keeps the name)
                back = sd.strategy(*kt)(obj)
                if getattr(obj, "__name__", None) != str(kt[0]):
                    alias.append("strategy() did not rename the strategy to the first name")
            else:
                back = sd.strategy(*kt, keep_name=True)(obj)
                if getattr(obj, "__name__", None) != nm:
                    alias.append("strategy(keep_name=True) renamed the strategy")
            if back is not sd:
                alias.append("the decorator did not return the StrategyDict")
        else:
            sd[_setkey(u, names, single)] = obj

    def doc_check():
        """the self-generated docstring: never raises, counts the strategies, names every name"""
        try:
            doc = sd.__doc__
        except Exception as e:
            alias.append("__doc__ raised %s" % err_kind(e))
            return
        if not isinstance(doc, str) or "Strategies stored: %d." % len(sd) not in doc:
            alias.append("__doc__ does not report len(sd)")
            return
        named = sorted(set(_DOC_NAME.findall(doc)))
        want = sorted(set(k for kt in dict.keys(sd) for k in kt))
        if named != want:
            alias.append("__doc__ names %r, stored %r" % (named, want))
            return
        # content: one heading per strategy under its OLDEST name, "(Default)" on the default strategy and on no
        # other, the remaining names listed as aliases in the order of the key tuple
        has_default = "default" in vars(sd)
        dflt = vars(sd).get("default")
        for kt, v in dict.items(sd):
            if not kt:
                continue
            head = "**Strategy sd_under_test.%s%s**." % (kt[0], " (Default)" if has_default and v == dflt else "")
            if head not in doc:
                alias.append("__doc__ lacks the heading %r" % head)
            rest = ["sd_under_test.%s" % k for k in kt[1:]]
            if len(rest) == 1 and "An alias for it is ``%s``." % rest[0] not in doc:
                alias.append("__doc__ lacks the alias of %r" % (kt[0],))
            if len(rest) > 1 and "Aliases available are ``%s``." % "``, ``".join(rest) not in doc:
                alias.append("__doc__ lacks the aliases of %r" % (kt[0],))
        if doc.count(" (Default)**.") != sum(1 for v in dict.values(sd) if has_default and v == dflt):
            alias.append("__doc__ marks %d strategies as default" % doc.count(" (Default)**."))
        if ("Default unnamed strategy" in doc) != (has_default and not any(v == dflt for v in dict.values(sd))) \
                and has_default:
            alias.append("__doc__ and the unnamed default disagree")

    level = _view_level(c)
    steps = []
    for i, op in enumerate(ops):
        o = op[0]
        if o == "set":
            obj = u.val(op[2], 0)
            if decoy is not None:
                _quiet(lambda: decoy.__setitem__(_setkey(u, [_rot(c, k) for k in op[1]], True), obj))
                _quiet(lambda: (decoy.value2keys(obj), decoy.key2keys(u.key(_rot(c, op[1][0]))), decoy(0), decoy.default))
            r = _run(lambda: assign(op[1], obj, True), None, booms, i)
        elif o == "del":
            if decoy is not None:
                _quiet(lambda: decoy.__delitem__(u.key(_rot(c, op[1]))))

            def f():
                del sd[u.key(op[1])]
            r = _run(f, None, booms, i)
        elif o == "get":
            r = _run(lambda: _val(u.cls(sd[u.key(op[1])])), None, booms, i)
        elif o == "getattr":
            r = _run(lambda: _val(u.cls(getattr(sd, u.key(op[1])))), None, booms, i)
        elif o == "setattr":
            obj = u.val(op[2], 0)
            if decoy is not None:
                _quiet(lambda: setattr(decoy, attr_name(None if op[1] is None else _rot(c, op[1])), obj))
            setattr(sd, attr_name(op[1]), obj)
            r = None
        elif o == "delattr":
            if decoy is not None:
                _quiet(lambda: delattr(decoy, attr_name(None if op[1] is None else _rot(c, op[1]))))

            def f():
                delattr(sd, attr_name(op[1]))
            r = _run(f, None, booms, i)
        elif o == "default":
            r = default_now()
        elif o == "call":
            r = call_now()
        elif o == "len":
            r = len(sd)
        elif o == "setu":
            bad = _unhashable(op[2])
            r = _run(lambda: assign(op[1], bad, True), _expect(op[2]))
        elif o == "setbk":
            obj = u.val(op[3], 0)
            r = _run(lambda: assign(op[1] + [None] + op[2], obj, True), _TYPE_ERROR)
        elif o == "setns":
            obj = u.val(op[3], 0)
            key = u.ktuple(op[1]) + (7,) + u.ktuple(op[2])      # the non-string name

            def f():
                sd[key if len(key) > 1 else key[0]] = obj
            r = _run(f, _TYPE_ERROR)
        elif o == "bad":
            w = op[1]
            if w == "get":
                r = _run(lambda: sd[[]], _NOT_THERE)
            elif w == "del":
                def f():
                    del sd[[]]
                r = _run(f, _NOT_THERE)
            elif w == "k2k":
                r = _run(lambda: sd.key2keys([]), _NOT_THERE)
            elif w == "v2k":
                r = _run(lambda: (sd.value2keys([]), None)[1], _NOT_THERE)
                r = {"err": "Rejected"} if r is None else r
            else:
                raise ValueError("unknown bad operand %r" % (op,))
        elif o == "kc":
            r = _do_call(sd, u, op, booms, i)
        else:
            raise ValueError("unknown op %r" % (op,))
        lv = level(i)
        if lv == 0:
            steps.append({"res": r})
            continue
        # name attributes of the instance, restricted to the names of this history's universe (other
        # instance attributes, e.g. private bookkeeping, are not the property's business)
        attrs = sorted([u.kdec(k), u.cls(x)] for k, x in vars(sd).items() if k not in hidden and u.kdec(k) in keys)
        if lv == 1:
            v = {"items": _items(sd, u), "attrs": attrs, "default": default_now()}
        else:
            v = _mk_view(sd, u, keys, vals, tuples)
            v["attrs"] = attrs
            v["default"] = default_now()
            v["call"] = call_now()
            ga = v["getattr"] = []
            for k in keys:
                try:
                    ga.append({"v": u.cls(getattr(sd, u.key(k)))})
                except AttributeError:
                    ga.append(_ATTR_ERROR)
            # StrategyDict iterates its values
            v["sditer"] = sorted(u.cls(x) for x in sd)
            if [u.cls(x) for x in sd] != [x[1] for x in v["o_items"]]:
                alias.append("iter(sd) is not the order of sd.values()")
            if u.vf != "picky":       # (`default not in values` compares strategies: a picky one raises)
                doc_check()
        if alias:
            v["alias"] = sorted(set(alias))
        v["res"] = r
        steps.append(v)
    return {"steps": steps, "booms": booms, "handed": _aliasing(c, u)}


import re
_DOC_NAME = re.compile(r"sd_under_test\.(\w+)")

_BOOMS = {}      # history -> steps refused on the impl's say-so (read by `request`)


def _boom_key(c):
    return json.dumps([c["ops"], c.get("kf"), c.get("route"), c.get("decoy")])


def impl(c):
    try:
        io = _impl_mk(c) if c["entry"] == "mk" else _impl_sd(c)
    except Exception as e:      # anything the history semantics does not predict
        io = {"err": err_kind(e), "msg": str(e)[:200]}
    if c.get("vf") == "picky":
        if len(_BOOMS) > 20000:
            _BOOMS.clear()
        _BOOMS[_boom_key(c)] = io.get("booms", [])
    return io


def request(c):
    sd = c["entry"] != "mk"
    booms = ()
    if c.get("vf") == "picky":
        k = _boom_key(c)
        if k not in _BOOMS:
            impl(c)
        booms = _BOOMS[k]
    ops = []
    for i, op in enumerate(c["ops"]):
        o = op[0]
        if i in booms:
            ops.append(["rej"] if sd else ["bad"])
        elif o == "sets":
            ops.append(["set", [op[1]], op[2]])
        elif o in ("set", "setattr"):
            ops.append(op[:3])
        elif o == "setu":
            ops.append(["setref", op[1]] if sd else ["setu", [k for k in op[1] if k is not None]])
        elif o == "setbk":
            ops.append(["setref", op[1]] if sd else ["setbk", op[1], op[2], op[3]])
        elif o == "setns":
            ops.append(["rej"])
        elif o == "bad":
            ops.append(["rej"] if sd else ["bad"])
        elif o == "fork":
            ops.append(["len"])
        elif o == "kc":
            ops.append(op[:-1])                # (the last field is the kind of the unhashable objects)
        else:
            ops.append(op)
    req = {"entry": c["entry"], "ops": ops, "keys": c["keys"], "vals": c["vals"],
           "tuples": c.get("tuples", []), "view": c.get("view", "all")}
    if c.get("init"):
        req["init"] = [[p[0], p[1]] for p in c["init"]["pairs"]]
    return req


# ----------------------------------------------------------------------------
# comparison
# ----------------------------------------------------------------------------
_SORTED = ("iter", "items", "keys_dict", "inv_dict", "sditer")


def _canon_model(m):
    out = {}
    # the association lists of the model in THEIR order = the iteration order of the three dicts
    if "inv_dict" in m:
        out["o_inv"] = [x[0] for x in m["inv_dict"]]
        out["o_items"] = m["items"]
        out["o_keys"] = [x[0] for x in m["keys_dict"]]
    for f in ("res", "len", "iter", "items", "keys_dict", "inv_dict", "get", "k2k", "v2k", "gett",
              "attrs", "default", "getattr", "sditer"):
        if f in m:
            x = m[f]
            if f == "attrs":
                x = sorted(a for a in x if a[0] is not None)
            elif f in _SORTED:
                x = sorted(x)
            out[f] = x
    return out


def _canon_spec(s):
    out = {}
    for f in ("res", "len", "iter", "items", "get", "k2k", "v2k", "gett", "attrs", "default", "getattr"):
        if f in s:
            x = s[f]
            if f == "attrs" or f in _SORTED:
                x = sorted(x)
            out[f] = x
    return out


def _diff_step(iv, ref, kind):
    """fields of the reference observation that differ from the impl's"""
    bad = []
    for f, want in ref.items():
        got = iv.get(f)
        if got != want and not (f == "o_keys" and f not in iv):
            bad.append(f)
    if iv.get("alias"):
        bad.append("alias")
    # derived impl-only observations: the same information seen through other accessors
    if "len" not in ref:
        return bad
    if kind == "spec":
        if iv["keytuples"] != sorted(x[0] for x in ref["items"]):
            bad.append("keytuples")
        if iv["values"] != sorted(x[1] for x in ref["items"]):
            bad.append("values")
        if "sditer" in iv and iv["sditer"] != ref["iter"]:
            bad.append("sditer")
        if "call" in iv and iv["call"] != ref["default"]:
            bad.append("call")
    else:
        if "call" in iv and iv["call"] != ref["default"]:
            bad.append("call")
    return bad


def first_diff(c, io, drv, kind):
    """(step index, fields) of the first step where impl differs from model / spec, else None"""
    if "err" in io:
        return (-1, ["impl-raised-" + io["err"]])
    side = drv["model"] if kind == "model" else drv["spec"]
    canon = _canon_model if kind == "model" else _canon_spec
    if len(side) != len(io["steps"]):
        return (-1, ["step-count"])
    for i, (iv, sv) in enumerate(zip(io["steps"], side)):
        if iv is None:
            continue
        bad = _diff_step(iv, canon(sv), kind)
        if bad:
            return (i, bad)
    if kind == "spec" and "last" in drv and io["steps"] and io["steps"][-1] is not None:
        # `lastAssigned` / `sdLastAssigned` of the history alone (C15.7 / C15.37); None = a name the history
        # deletes through its attribute, where the theorem does not speak
        if any(w is not None and g != w for g, w in zip(io["steps"][-1]["get"], drv["last"])) or \
                len(io["steps"][-1]["get"]) != len(drv["last"]):
            return (len(io["steps"]) - 1, ["last-assigned"])
    return None


def _model_follows_defect(c):
    """histories outside the refinement theorems (`Op.valid` / `SOp.valid`): the empty key tuple.
    There the model follows the code as it is, the spec says what the property wants."""
    for o in c["ops"]:
        if o[0] == "set" and o[1] == []:
            return True
    return False


def compare(c, io, drv):
    out = []
    if c["entry"] == "sdn":
        # outside the property: only the correspondence with the as-coded model
        d = first_diff(c, io, drv, "model")
        if d is not None:
            i, bad = d
            _DIFF_AT[id(c)] = i
            op = c["ops"][i] if 0 <= i < len(c["ops"]) else None
            out.append(("model", "sdn: step %d %r: impl differs from the as-coded model in %s" % (i, op, ",".join(bad))))
        return out
    # The empty key tuple and the half-way failing assignments are outside the theorems (`Op.valid`).
    # The spec says what the property wants (bind no key / change nothing); the model follows the code
    # as it is today.  For such histories only the spec is authoritative (so that a repaired repo is
    # not reported as a broken correspondence); when impl and spec differ the model comparison is
    # reported as well.
    ds = first_diff(c, io, drv, "spec")
    kinds = ("model", "spec")
    if ds is None and _model_follows_defect(c):
        kinds = ("spec",)
    for kind in kinds:
        d = ds if kind == "spec" else first_diff(c, io, drv, kind)
        if d is not None:
            i, bad = d
            if len(_DIFF_AT) > 50000:
                _DIFF_AT.clear()
            _DIFF_AT[id(c)] = min(i, _DIFF_AT.get(id(c), i)) if out else i
            op = c["ops"][i] if 0 <= i < len(c["ops"]) else None
            out.append((kind, "%s: step %d %r: impl differs from %s in %s" % (c["entry"], i, op, kind, ",".join(bad))))
    return out


def nontrivial(c, io):
    if "err" in io or not io["steps"]:
        return False
    steps = [s for s in io["steps"] if s is not None]
    if not steps:
        return False
    some_set = any(op[0] in ("set", "sets") for op in c["ops"])
    errs = any(isinstance(s["res"], dict) and "err" in s["res"] for s in steps)
    return some_set and (steps[-1]["len"] > 0 or errs)


def _len_bucket(n):
    if n <= 40:
        return min(n // 5 * 5, 40)
    return 100 if n < 1000 else 1000 if n < 2000 else 2000 if n < 4000 else 4000


def _rej_tag(c, io, i):
    """(operation, condition) when step i is an operation that is (to be) refused"""
    op = c["ops"][i]
    o = op[0]
    if o == "setu":
        return "set", "unhashable-value"
    if o == "setbk":
        return "set", "unhashable-key"
    if o == "setns":
        return "set", "non-string-name"
    if o == "bad":
        return op[1], "unhashable-operand"
    if o == "kc":
        if i in io.get("booms", ()):
            return op[1], "eq-raises"
        sh = _arg_shape(op)
        if "unhashable" in sh or "nonstr" in sh:
            return "call-" + op[1], sh.split(":")[-1]
        return None
    if i in io.get("booms", ()):
        return ("set" if o in ("set", "sets") else o), "eq-raises"
    return None


_MUTATORS = ("update", "pop", "popitem", "clear", "setdefault", "__ior__", "__or__", "copy", "fromkeys",
             "get", "__contains__", "keys", "values", "items", "__len__", "__eq__", "__repr__", "__reversed__",
             "__iter__", "__getitem__", "__setitem__", "__delitem__")
_IN_MODEL = ("get", "__contains__", "keys", "values", "items", "__len__", "__iter__", "fromkeys")


def _arg_shape(op):
    """histogram bucket of the key argument of a call"""
    if op[1] == "v2k":
        return "value:%s" % ("unhashable" if op[2] is None else "ok")
    arg = op[2]
    items = [arg["s"]] if "s" in arg else arg["t"]
    kinds = ["ok" if isinstance(x, str) else "unhashable" if x is None else "nonstr" for x in items]
    what = "ok"
    if "unhashable" in kinds:
        what = "unhashable@%s" % ("only" if len(kinds) == 1 else "first" if kinds[0] == "unhashable" else
                                  "last" if kinds[-1] == "unhashable" and kinds.count("unhashable") == 1 else "inside")
    elif "nonstr" in kinds:
        what = "nonstr@%s" % ("only" if len(kinds) == 1 else "first" if kinds[0] == "nonstr" else
                              "last" if kinds[-1] == "nonstr" and kinds.count("nonstr") == 1 else "inside")
    if op[1] == "set" and op[3] is None:
        what = what + "+unhashable-value" if what != "ok" else "unhashable-value"
    dup = len(set(map(str, items))) < len(items)
    return "%s%s:%s" % ("single" if "s" in arg else "tuple%d" % min(len(items), 4), "/dup" if dup else "", what)


def _outcome(f):
    try:
        r = f()
        return "ok" if r is None else "ok:%s" % (r,)
    except Exception as e:
        return err_kind(e)


def _outside_observed():
    """directed experiments on inputs the ASSUMPTIONS exclude: what the code does today, recorded in the
    evidence (histogram only, no obligation) so that a change of behaviour there is visible"""
    from audiolazy import MultiKeyDict, StrategyDict
    out = []

    def state(d):
        return "store=%r keys=%r inv=%r" % (sorted(map(repr, dict.items(d))), sorted(map(repr, d._keys_dict.items())),
                                            sorted(map(repr, d._inv_dict.items())))
    # (1) a key that is itself a tuple: stored, never found again by d[...] (a tuple argument is a key TUPLE);
    #     deleting it looks the VALUE up through the storage and can take another value's entry away
    d = MultiKeyDict()
    d["c"] = 1
    d[(("c",),)] = 5
    out.append("tuple-valued key: d['c']=1; d[(('c',),)]=5; d[('c',)] -> %s (the value of key 'c', not of key ('c',))"
               % _outcome(lambda: d[("c",)]))
    out.append("tuple-valued key: ... del d[('c',)] -> %s; %s; len=%d list(d)=%r (incoherent: value 1 kept in the "
               "storage but gone from _inv_dict)" % (_outcome(lambda: d.__delitem__(("c",))), state(d), len(d), list(d)))
    d = MultiKeyDict()
    d[(("c",),)] = 5
    out.append("tuple-valued key: d[(('c',),)]=5; d['b']=5 -> %s (the merge cannot delete the tuple-valued key); %s"
               % (_outcome(lambda: d.__setitem__("b", 5)), state(d)))

    # (2) values whose hash disagrees with ==: two groups for "equal" values
    class H(object):
        def __init__(self, h):
            self.h = h

        def __eq__(self, other):
            return isinstance(other, H)

        def __hash__(self):
            return self.h
    d = MultiKeyDict()
    d["a"] = H(1)
    d["b"] = H(2)
    out.append("hash disagrees with ==: d['a']=H(1); d['b']=H(2) (H(1) == H(2)) -> len=%d keys=%r"
               % (len(d), sorted(dict.keys(d))))

    # (3) StrategyDict names colliding with attributes of the class (the instance attribute shadows them)
    def f0(*a, **k):
        return "f0"

    def f1(*a, **k):
        return "f1"
    for name in ("items", "_keys_dict", "_inv_dict", "key2keys", "strategy", "default"):
        sd = StrategyDict("x")
        sd["a"] = f0
        r = _outcome(lambda: sd.__setitem__(name, f1))
        obs = ["sd[name]=f1 -> %s" % r,
               "sd['a'] -> %s" % _outcome(lambda: sd["a"].__name__),
               "getattr(sd, name) is f1 -> %s" % _outcome(lambda: getattr(sd, name) is f1),
               "default -> %s" % _outcome(lambda: sd.default.__name__),
               "__doc__ -> %s" % _outcome(lambda: "str" if isinstance(sd.__doc__, str) else "?"),
               "del sd[name] -> %s" % _outcome(lambda: sd.__delitem__(name)),
               "names left %r" % (sorted(k for kt in dict.keys(sd) for k in kt),)]
        out.append("name collides with class attribute %r: %s" % (name, "; ".join(obs)))

    # (4) the decorator renames the strategy BEFORE the assignment: a refused assignment leaves it renamed
    for names, what in ((("a", 3), "non-string name"), (("b", []), "unhashable name")):
        sd = StrategyDict("x")

        def g(*a, **k):
            return "g"
        r = _outcome(lambda: sd.strategy(*names)(g))
        out.append("decorator refused (%s): sd.strategy%r(g) -> %s, g.__name__ afterwards %r, len(sd)=%d"
                   % (what, names, r, g.__name__, len(sd)))
    return out


def regenerate(eng=None):
    """translator T5: rewrite lean/ALV/Gen/C15Src.lean from the method bodies of the repo under test"""
    return c15_tr.regenerate(eng)


# (what, old text, new text): deliberate edits of the SOURCE TEXT the translator must notice
_TR_EDITS = [
    ("comparison swapped in __delitem__ (k != key -> k == key)",
     "new_key = tuple(k for k in key_tuple if k != key)", "new_key = tuple(k for k in key_tuple if k == key)"),
    ("constant changed in StrategyDict.__delitem__ (len(keys) == 1 -> == 2)",
     "del_default = len(keys) == 1 and value == self.default", "del_default = len(keys) == 2 and value == self.default"),
    ("statement dropped in __delitem__ (del self._inv_dict[value])", "    del self._inv_dict[value]\n", ""),
    ("hash(key) moved behind the deletion loop of __setitem__",
     "    hash(key) # An unhashable key is refused before anything is changed\n", None),
    ("super().__setitem__ moved in front of the deletion loop of StrategyDict.__setitem__",
     "    super(StrategyDict, self).__setitem__(keys, value)\n", None),
    ("handler widened in StrategyDict.__setitem__ (except KeyError -> except Exception)",
     "      except KeyError:\n        pass # Not found!", "      except Exception:\n        pass # Not found!"),
]
_TR_MOVE_TO = {3: ("    # Do the assignment\n    for k in key:\n      self._keys_dict[k] = key\n", "after"),
               4: ("    for k in keys:\n      try:\n        del self[k]", "before")}


def _translator_selftest(eng):
    out = []
    try:
        src = c15_tr.read_source()
        base = c15_tr.translate(src)
    except Exception as e:
        return [("translator-selftest", False, "the source does not translate: %s: %s" % (type(e).__name__, e))]
    import os
    path = os.path.join(common.LEAN, c15_tr.GEN_REL)
    on_disk = open(path).read() if os.path.exists(path) else None
    out.append(("translator-selftest: the file on disk is the translation of the source (deterministic, byte for byte)",
                on_disk == base, "" if on_disk == base else "lean/%s differs from a fresh translation" % c15_tr.GEN_REL))
    # harmless edits are normalised away: comments, blank lines, a docstring
    quiet = src.replace("  def key2keys(self, key):\n", "  def key2keys(self, key):   # a comment\n\n")
    quiet = quiet.replace("    key_tuple = self._keys_dict[key]\n", "    \"\"\" a docstring \"\"\"\n    key_tuple = self._keys_dict[key]  # look-up\n")
    try:
        same = quiet != src and c15_tr.translate(quiet) == base
    except Exception as e:
        same = False
    out.append(("translator-selftest: comments / blank lines / docstrings do not change the translation", same, ""))
    applied = 0
    for i, (what, old, new) in enumerate(_TR_EDITS):
        if src.count(old) != 1:
            eng.count("translator_selftest", "edit site not found: " + what)
            continue
        if new is None:          # move the line
            anchor, side = _TR_MOVE_TO[i]
            rest = src.replace(old, "")
            if rest.count(anchor) != 1:
                eng.count("translator_selftest", "edit site not found: " + what)
                continue
            edited = rest.replace(anchor, anchor + old if side == "after" else old + anchor)
        else:
            edited = src.replace(old, new)
        applied += 1
        try:
            got = c15_tr.translate(edited)
            res = "same text" if got == base else "different Lean text"
        except c15_tr.TranslationError as e:
            res = "TranslationError"
        except SyntaxError as e:
            res = "edited text does not parse"
        eng.count("translator_selftest", "%s -> %s" % (what, res))
        out.append(("translator-selftest: " + what, res in ("different Lean text", "TranslationError"), res))
    out.append(("translator-selftest: at least 4 of the 6 edits apply to this source", applied >= 4, "%d applied" % applied))
    return out


def extra_checks(eng):
    """translator self-test (obligations) + a record of the scope decision (no obligation): the dict mutators the property does not name are
    still the ones inherited from dict (they bypass the three maps); if the class starts overriding
    one, the histogram shows it and the decision should be revisited"""
    from audiolazy import MultiKeyDict, StrategyDict
    for tag in _outside_observed():
        eng.count("outside_the_property_observed_as_is", tag)
    for name in _MUTATORS:
        for cls in (MultiKeyDict, StrategyDict):
            own = any(name in vars(k) for k in cls.__mro__ if k not in (dict, object))
            eng.count("inherited_from_dict", "%s.%s:%s" % (
                cls.__name__, name, "overridden" if own else
                "inherited(in the model)" if name in _IN_MODEL else "inherited(bypasses the maps, out of scope)"))
    eng.extra["translated"] = {
        "translator": "harness/props/c15_tr.py -> lean/" + c15_tr.GEN_REL.replace("\\", "/") + " (shallow: Lean functions over St / SD in Except Err)",
        "under_translator": ["%s.%s%s -> ALV.Gen.C15.%s = model (theorem src_%s_is_model)" % (c, m, list(k), g, g)
                             for c, m, g, k in c15_tr.SPECS],
        "not_translated": dict(c15_tr.NOT_TRANSLATED),
    }
    return _translator_selftest(eng)


def tally(eng, c, io):
    eng.count("entry", c["entry"])
    eng.count("route", c.get("route", "plain"))
    eng.count("constructor", "%s:%d-pairs" % (c["init"]["form"], min(len(c["init"]["pairs"]), 4)) if c.get("init") else "no-arguments")
    eng.count("history_len", _len_bucket(len(c["ops"])))
    eng.count("value_flavour", "%s:%s" % (c["entry"], c.get("vf") or ("int" if c["entry"] == "mk" else "func")))
    eng.count("key_flavour", "%s:%s" % (c["entry"], c.get("kf", "plain")))
    eng.count("shared", "decoy-dict-sharing-value-objects" if c.get("decoy") else
              "copy-constructor-fork" if any(o[0] == "fork" for o in c["ops"]) else "single-dict")
    view = c.get("view", "all")
    eng.count("view", view if isinstance(view, str) else "every-%d" % view["every"])
    if "err" in io:
        eng.count("impl_error", io["err"])
        return
    for fl in io.get("handed", []) or ["-"]:
        eng.count("class_stored_through_several_objects", fl)
    for i, (op, s) in enumerate(zip(c["ops"], io["steps"])):
        if s is None:
            eng.count("op", "ctor-set")
            continue
        r = s["res"]
        tag = "ok"
        if isinstance(r, dict) and "err" in r:
            tag = r["err"]
        elif r == "NotImplemented":
            tag = "NotImplemented"
        name = op[0]
        if name in ("set", "sets"):
            t = op[1] if isinstance(op[1], list) else [op[1]]
            name = "set/len%d%s" % (min(len(t), 3), "/dup" if len(set(t)) < len(t) else "")
        if name in ("setattr", "delattr") and op[1] is None:
            name += "/default"
        if name == "setu":
            name = "setu/" + op[2]
        if name == "bad":
            name = "bad/" + op[1]
        if name == "kc":
            name = "call-" + op[1]
            eng.count("call_key_argument", "%s:%s:%s:%s" % (c["entry"], op[1], _arg_shape(op), tag))
        eng.count("op", "%s:%s" % (name, tag))
        rt = _rej_tag(c, io, i)
        if rt is not None:
            eng.count("rejected", "%s:%s:%s" % (c["entry"], rt[0], rt[1]))
    for tag in _branches(c, io):
        eng.count("branch", tag)
    last = [s for s in io["steps"] if s is not None]
    if last:
        v = last[-1]
        eng.count("final_len", min(v["len"], 5))
        eng.count("final_max_tuple", max([len(x[0]) for x in v["items"]] + [0]))
        if "attrs" in v:
            eng.count("sd_final_default", "set" if v["default"] != "NotImplemented" else "unset")
            stale = {a[0] for a in v["attrs"]} - {k for x in v["items"] for k in x[0]}
            eng.count("sd_attr_without_item", bool(stale))


# ----------------------------------------------------------------------------
# branch coverage of the modelled code, read off the impl's own observations (state before the
# step + operation); only for histories observed (at least lightly) after every step
# ----------------------------------------------------------------------------
_EMPTY_VIEW = {"items": [], "attrs": [], "default": "NotImplemented"}


def _branches(c, io):
    if "err" in io or c.get("view", "all") == "last":
        return
    prev = _EMPTY_VIEW
    for op, st in zip(c["ops"], io["steps"]):
        if st is None or "items" not in st:
            prev = None
            continue
        if prev is not None:
            bound = {k: x[1] for x in prev["items"] for k in x[0]}
            group = {x[1]: x[0] for x in prev["items"]}
            attrs = dict((a[0], a[1]) for a in prev.get("attrs", []))
            dflt = prev.get("default")
            o = op[0]
            if o in ("set", "sets"):
                ks = op[1] if isinstance(op[1], list) else [op[1]]
                v = op[2]
                yield "set:value-%s" % ("already-stored(merge)" if v in group else "new")
                if len(set(ks)) < len(ks):
                    yield "set:duplicate-key-in-tuple"
                if any(k in bound and bound[k] != v for k in ks):
                    yield "set:overwrites-key-of-other-value"
                if any(k in bound and bound[k] == v for k in ks):
                    yield "set:re-gives-own-key(reorder)"
                if not any(k in bound for k in ks):
                    yield "set:only-fresh-keys"
                if any(w != v and all(k in ks for k in t) for w, t in group.items()):
                    yield "set:other-value-loses-all-keys"
                if c["entry"] == "sd":
                    d = dflt["v"] if isinstance(dflt, dict) else None
                    if d is None:
                        yield "sd-set:no-default->chosen"
                    elif d in group and all(k in ks for k in group[d]):
                        yield "sd-set:default-loses-all-names->rechosen"
                    else:
                        yield "sd-set:default-kept"
            elif o == "del":
                k = op[1]
                if k not in bound:
                    yield "del:missing(KeyError)"
                else:
                    w = bound[k]
                    yield "del:%s" % ("last-key-of-value" if group[w] == [k] else "tuple-shrinks")
                    if c["entry"] == "sd":
                        yield "sd-del:attr-%s" % ("equal->removed" if attrs.get(k) == w else
                                                  ("differs->kept" if k in attrs else "absent"))
                        d = dflt["v"] if isinstance(dflt, dict) else None
                        yield "sd-del:default-%s" % ("removed" if d == w and group[w] == [k] else "kept")
            elif o == "delattr":
                k = op[1]
                if k is None:
                    yield "delattr-default:%s" % ("present" if isinstance(dflt, dict) else "absent(AttributeError)")
                elif k not in bound:
                    yield "delattr:non-strategy-%s" % ("attribute" if k in attrs else "missing(AttributeError)")
                elif k not in attrs:
                    yield "delattr:strategy-without-attribute(AttributeError)"
                elif attrs[k] == bound[k]:
                    yield "delattr:have-both-equal->del-item"
                else:
                    yield "delattr:have-both-different->attribute-put-back"
            elif o == "setu":
                ks = [k for k in op[1] if k is not None]
                yield "rejected:unhashable-value:%s" % ("keys-hold-values" if any(k in bound for k in ks) else "keys-unbound")
            elif o in ("setbk", "setns"):
                pre = list(op[1]) + (list(group.get(op[3], [])) if c["entry"] == "mk" else [])
                yield "rejected:%s:%s" % ("unhashable-key" if o == "setbk" else "non-string-name",
                                          "keys-in-front-hold-values" if any(k in bound for k in pre) else "nothing-in-front")
            elif o == "bad":
                yield "rejected:unhashable-operand"
        prev = st


_DIFF_AT = {}     # id(case) -> first step at which the impl differed (left by `compare`, read by `shrink`)


def shrink(c):
    ops = c["ops"]
    n = len(ops)
    # cut after the step that differed, drop a suffix, then blocks, then single operations, then
    # shorten tuples, then the dimensions
    at = _DIFF_AT.get(id(c))
    if at is not None and 0 <= at < n - 1:
        yield _recase(c, ops[:at + 1])
    if n > 1:
        yield _recase(c, ops[:n // 2])
        yield _recase(c, ops[:-1])
    if n > 24:
        # delta debugging: remove one block; long histories get few, large blocks per round
        size = n // 2
        budget = 24 if n > 150 else 120
        while size >= 4 and budget > 0:
            for start in range(0, n, size):
                yield _recase(c, ops[:start] + ops[start + size:])
                budget -= 1
            size //= 2
    if n <= 150:
        for i in range(n):
            yield _recase(c, ops[:i] + ops[i + 1:])
    if n <= 60:
        for i, op in enumerate(ops):
            o = op[0]

            def put(new):
                return _recase(c, ops[:i] + [new] + ops[i + 1:])
            if o == "set" and len(op[1]) > 1:
                for j in range(len(op[1])):
                    yield put(["set", op[1][:j] + op[1][j + 1:]] + op[2:])
            if o in ("set", "sets") and len(op) > 3:
                yield put(op[:3] + [0]) if op[3] != 0 else put(op[:3])
            if o == "setu":
                for j in range(len(op[1])):
                    if len(op[1]) > 1:
                        yield put(["setu", op[1][:j] + op[1][j + 1:], op[2]])
                if op[2] != "list":
                    yield put(["setu", op[1], "list"])
            if o in ("setbk", "setns"):
                for j in range(len(op[1])):
                    yield put([o, op[1][:j] + op[1][j + 1:], op[2], op[3]])
                for j in range(len(op[2])):
                    yield put([o, op[1], op[2][:j] + op[2][j + 1:], op[3]])
            if o == "fork":
                yield put(["len"])
            if o == "kc" and op[1] != "v2k" and "t" in op[2]:
                t = op[2]["t"]
                for j in range(len(t)):
                    if len(t) > 1 or op[1] != "set":
                        yield put(op[:2] + [{"t": t[:j] + t[j + 1:]}] + op[3:])
                if len(t) == 1:
                    yield put(op[:2] + [{"s": t[0]}] + op[3:])
            if o == "kc" and op[-1] != "list":
                yield put(op[:-1] + ["list"])
        if c.get("route", "plain") not in ("plain", "empty"):
            yield _recase(c, ops, route="plain")
        if c.get("decoy"):
            yield _recase(c, ops, decoy=False)
        if c.get("init"):
            ps = c["init"]["pairs"]
            yield _recase(c, ops, init=None)
            for j in range(len(ps)):
                yield _recase(c, ops, init={"form": c["init"]["form"], "pairs": ps[:j] + ps[j + 1:]})
            if c["init"]["form"] != "pairs":
                yield _recase(c, ops, init={"form": "pairs", "pairs": ps})
        if c.get("kf", "plain") != "plain":
            yield _recase(c, ops, kf="plain")
        if c.get("vf") is not None:
            yield _recase(c, ops, vf=None)
            if c["entry"] == "sd" and c["vf"] in ("mixed", "picky"):
                yield _recase(c, ops, vf="bound")
                yield _recase(c, ops, vf="scale")
        if c.get("view", "all") != "all":
            yield _recase(c, ops, view="all")


def neighbours(c):
    ops = c["ops"]
    keys = [k for k in c["keys"] if k != "zz"] or ["a"]
    vals = [v for v in c["vals"] if v != 9] or [0]
    if len(ops) > 60:
        return
    for i in range(len(ops) + 1):
        for k in keys[:3]:
            yield _recase(c, ops[:i] + [["del", k]] + ops[i:], route="plain")
            for v in vals[:2]:
                yield _recase(c, ops[:i] + [["set", [k], v]] + ops[i:], route="plain")
    for i in range(len(ops)):
        yield _recase(c, ops[:i] + ops[i + 1:], route="plain")


def classify(c, io, drv):
    d = (first_diff(c, io, drv, "spec") if c["entry"] != "sdn" else None) or first_diff(c, io, drv, "model")
    if d is None:
        return c["entry"] + ":agree"
    i, bad = d
    if i < 0:
        return "%s:%s" % (c["entry"], bad[0])
    op = c["ops"][i]
    iv = io["steps"][i]
    # a value that owns no key: only an assignment with the empty key tuple creates it
    empty_set = any(o[0] == "set" and o[1] == [] for o in c["ops"][:i + 1])
    phantom = any(x[0] == [] for x in iv.get("items", [])) or any(x[1] == [] for x in iv.get("inv_dict", []))
    if c["entry"] == "mk" and empty_set and phantom:
        return "mk:set-empty-tuple:value-without-keys"
    # an operation that is (to be) refused: did it raise, and if so did it leave the dict alone?
    rt = _rej_tag(c, io, i)
    if rt is not None:
        return "%s:%s:%s:%s" % (c["entry"], rt[0], rt[1], "not-rejected" if "res" in bad else "state-changed")
    name = op[0]
    if name in ("setattr", "delattr") and op[1] is None:
        name += "-default"
    # the fields every view level reports, so that a history observed sparsely keeps its signature
    # when the shrinker switches to observing every step
    fields = [f for f in bad if f in LIGHT] or bad
    return "%s:%s:%s" % (c["entry"], name, "+".join(sorted(set(fields))))
