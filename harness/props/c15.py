"""C15 — MultiKeyDict / StrategyDict coherence.  A case is a whole history; impl, three-map
model and abstract spec are observed after every step."""
import gc
import itertools
import common
from common import err_kind

# Performance only: the histories and their observations are millions of small, long-lived,
# acyclic containers; CPython's generational collector re-traverses them again and again (measured:
# 10x on the JSON parse of the driver output).  Automatic collection is switched off in this
# process; the only cyclic garbage (one throw-away class per StrategyDict instance) is collected
# by hand every few thousand histories, and the survivors are frozen out of later collections.
gc.disable()
_SD_CALLS = [0]


def _gc_tick():
    _SD_CALLS[0] += 1
    if _SD_CALLS[0] % 3000 == 0:
        gc.collect()
        gc.freeze()


ID = "C15"
RULE = ("exhaustive histories over small universes (mk: 3 keys x 2 values, tuples of length <= 2, "
        "24 assignments + 3 deletions, depth <= 3 (thorough: depth 4, and 3 values x 3 keys depth 4); "
        "sd: 2 names x 2 strategies incl. attribute / default manipulation, 16 operations, depth <= 3 "
        "(thorough: 4)) plus random histories (length <= 40, 6 keys, 4 values, tuples with "
        "repeats, lookups interleaved) plus a small malformed stream (empty key tuple); a case is "
        "non-trivial when at least one assignment succeeded and the final dict is non-empty or a "
        "KeyError/AttributeError was observed; distinct = distinct JSON history")
TRUSTED = [
    "hand-written Lean model ALV/Model/C15.lean of lazy_core.MultiKeyDict / StrategyDict "
    "(modelled, not verified: Python dict = insertion-ordered association list; vars(self) = association "
    "list with the attribute `default` as a distinguished name; an exception leaves the model state unchanged)",
    "observations coming out of hash containers are compared sorted; the order inside a key tuple is compared exactly",
]
ASSUMPTIONS = [
    "keys are non-tuple hashables of one type (tie: short strings), values hashables of one type (tie: small ints; "
    "for StrategyDict distinct function objects) - cross-type equalities such as 1 == 1.0 == True are outside the tie",
    "key tuples are non-empty (the empty tuple is exercised separately, see known findings)",
    "StrategyDict names are strings different from 'default' and from every attribute/method of the class; "
    "stored strategies are never the class-level default lambda",
    "only the operations the property names (item assignment / deletion / lookup, key2keys, value2keys, len, iteration, "
    "keys/values/items views; for StrategyDict attribute get/set/del, default, call, the strategy decorator); the "
    "mutators inherited from dict (update, pop, popitem, clear, setdefault) bypass the three maps and are outside",
]

MANIFEST = {
    "text": ("Lean 4 theorems, for every key/value type with decidable equality and every history length: the "
             "coherence invariant of the three maps of MultiKeyDict is inductive; every operation of MultiKeyDict and "
             "StrategyDict (assignment with a key tuple, deletion, lookups, attribute get/set/del, default, call) "
             "refines an abstract key->value map ordered by recency (+ attribute map + default), with equal results "
             "incl. KeyError / AttributeError / NotImplemented; corollaries: d[k] = last assigned value, one tuple per "
             "value in recency order, len/iteration count values, default = first stored strategy while it keeps a "
             "name and re-chosen when it loses all.  Tied to /repo by exhaustive small-universe and random histories."),
    "note": ("Trusted: Lean kernel (axioms propext, Classical.choice, Quot.sound), the Python correspondence harness; the "
             "model (Python dict = insertion-ordered association list, vars(self) = association list) is hand written "
             "and validated against the code differentially after every step of every history, incl. the private maps "
             "_keys_dict / _inv_dict.  Outside the theorems: the empty key tuple (recorded known finding), keys that "
             "are themselves tuples, cross-type equal keys (1 == 1.0 == True), StrategyDict names colliding with "
             "class attributes, and the inherited dict mutators (update, pop, clear, setdefault) which bypass the maps."),
    "technique": "Lean 4 invariant + forward-simulation (refinement) proof over an executable model; differential history correspondence",
}

MK_KEYS = ["a", "b", "c"]
SD_KEYS = ["a", "b"]


# ----------------------------------------------------------------------------
# generation
# ----------------------------------------------------------------------------
def _tuples(keys, maxlen):
    out = []
    for n in range(1, maxlen + 1):
        out.extend([list(t) for t in itertools.product(keys, repeat=n)])
    return out


def _mk_ops(keys, vals, maxlen):
    ops = []
    for t in _tuples(keys, maxlen):
        for v in vals:
            ops.append(["set", t, v])
    ops += [["del", k] for k in keys]
    return ops


def _sd_ops(keys, vals):
    ops = []
    for t in _tuples(keys, 2):
        if len(t) == 2 and t[0] == t[1]:
            continue
        for v in vals:
            ops.append(["set", t, v])
    for k in keys:
        ops.append(["del", k])
        ops.append(["delattr", k])
        ops.append(["setattr", k, vals[-1]])
    ops.append(["delattr", None])
    ops.append(["setattr", None, vals[0]])
    return ops


def _universe(ops, extra_keys=("zz",), extra_vals=(9,)):
    ks, vs = [], []
    for op in ops:
        if op[0] in ("set", "sets"):
            cand_k = op[1] if isinstance(op[1], list) else [op[1]]
            cand_v = [op[2]]
        elif op[0] in ("del", "get", "k2k", "getattr"):
            cand_k, cand_v = [op[1]], []
        elif op[0] in ("setattr", "delattr"):
            cand_k = [op[1]] if op[1] is not None else []
            cand_v = [op[2]] if op[0] == "setattr" else []
        elif op[0] == "gett":
            cand_k, cand_v = op[1], []
        elif op[0] == "v2k":
            cand_k, cand_v = [], [op[1]]
        else:
            cand_k, cand_v = [], []
        for k in cand_k:
            if k not in ks:
                ks.append(k)
        for v in cand_v:
            if v not in vs:
                vs.append(v)
    return ks + [k for k in extra_keys if k not in ks], vs + [v for v in extra_vals if v not in vs]


def _case(entry, ops, route="plain", view="all"):
    """view="last": the state is observed after the last step only (exhaustive enumerations contain
    every prefix as a history of its own); results are observed at every step in both modes"""
    keys, vals = _universe(ops)
    # key tuples looked up as a whole (`d[(a, b)]`): singletons and ordered pairs of the first keys
    ks = keys[:3]
    tuples = [[k] for k in ks] + [[a, b] for a in ks for b in ks if a != b]
    return {"entry": entry, "ops": ops, "keys": keys, "vals": vals, "tuples": tuples, "route": route, "view": view}


def _rand_tuple(rng, keys, maxlen):
    n = rng.choice([1, 1, 1, 2, 2, 3, maxlen])
    return [rng.choice(keys) for _ in range(n)]


def _rand_mk(rng, nkeys, nvals, length, maxlen):
    keys = ["k%d" % i for i in range(nkeys)]
    vals = list(range(nvals))
    ops = []
    live = []
    for _ in range(length):
        r = rng.random()
        if r < 0.45:
            t = _rand_tuple(rng, keys, maxlen)
            v = rng.choice(vals)
            if len(t) == 1 and rng.random() < 0.5:
                ops.append(["sets", t[0], v])
            else:
                ops.append(["set", t, v])
            live = [k for k in live if k not in t] + t
        elif r < 0.65:
            # mostly delete something that may be present
            k = rng.choice(live) if live and rng.random() < 0.8 else rng.choice(keys + ["zz"])
            ops.append(["del", k])
            live = [x for x in live if x != k]
        elif r < 0.75:
            ops.append(["get", rng.choice(keys + ["zz"])])
        elif r < 0.82:
            ops.append(["k2k", rng.choice(keys + ["zz"])])
        elif r < 0.89:
            ops.append(["v2k", rng.choice(vals + [9])])
        elif r < 0.95:
            ops.append(["gett", _rand_tuple(rng, keys, 2)])
        else:
            ops.append(["len"])
    return ops


def _rand_sd(rng, nkeys, nvals, length):
    keys = ["n%d" % i for i in range(nkeys)]
    vals = list(range(nvals))
    ops = []
    for _ in range(length):
        r = rng.random()
        if r < 0.12 and ops:
            # aim at the attribute branches: touch the name used by an earlier assignment
            prev = [o for o in ops if o[0] == "set"]
            if prev:
                k = rng.choice(rng.choice(prev)[1])
                ops.append(rng.choice([["setattr", k, rng.choice(vals)], ["delattr", k], ["del", k],
                                       ["getattr", k]]))
                continue
        if r < 0.40:
            t = _rand_tuple(rng, keys, 3)
            ops.append(["set", t, rng.choice(vals)])
        elif r < 0.55:
            ops.append(["del", rng.choice(keys)])
        elif r < 0.65:
            ops.append(["delattr", rng.choice(keys + [None])])
        elif r < 0.72:
            ops.append(["setattr", rng.choice(keys + [None]), rng.choice(vals)])
        elif r < 0.80:
            ops.append(["getattr", rng.choice(keys)])
        elif r < 0.86:
            ops.append(["get", rng.choice(keys)])
        elif r < 0.92:
            ops.append(["call"])
        elif r < 0.97:
            ops.append(["default"])
        else:
            ops.append(["len"])
    return ops


def generate(rng, tier, scale=1):
    cases = []
    quick = tier == "quick"
    if scale == 1:
        # exhaustive small universes
        ops = _mk_ops(MK_KEYS, [0, 1], 2)
        sops = _sd_ops(SD_KEYS, [0, 1])
        for depth in (1, 2, 3):
            view = "all" if depth < 3 else "last"
            for h in itertools.product(ops, repeat=depth):
                cases.append(_case("mk", list(h), view=view))
            for h in itertools.product(sops, repeat=depth):
                cases.append(_case("sd", list(h), view="all"))
        if not quick:
            for h in itertools.product(ops, repeat=4):
                cases.append(_case("mk", list(h), view="last"))
            ops3 = _mk_ops(MK_KEYS, [0, 1, 2], 1) + [["set", ["a", "b"], 0], ["set", ["b", "c"], 1], ["set", ["c", "a"], 2]]
            for h in itertools.product(ops3, repeat=4):
                cases.append(_case("mk", list(h), view="last"))
            for h in itertools.product(sops, repeat=4):
                cases.append(_case("sd", list(h), view="last"))
        # malformed stream: empty key tuple
        for v in (0, 1):
            cases.append(_case("mk", [["set", [], v]], "empty"))
            cases.append(_case("mk", [["set", ["a"], v], ["set", [], v]], "empty"))
            cases.append(_case("mk", [["set", [], 0], ["set", [], 1], ["set", ["a"], v]], "empty"))
    nrand = (1000 if quick else 8000) * scale
    for i in range(nrand):
        length = rng.choice([3, 6, 10, 20, 40])
        route = rng.choice(["plain", "plain", "ctor"])
        cases.append(_case("mk", _rand_mk(rng, rng.choice([2, 4, 6]), rng.choice([1, 2, 4]), length, 4), route))
    for i in range(nrand):
        length = rng.choice([3, 6, 10, 20, 40])
        route = rng.choice(["plain", "decorator"])
        cases.append(_case("sd", _rand_sd(rng, rng.choice([2, 3, 5]), rng.choice([2, 3, 4]), length), route))
    return cases


# ----------------------------------------------------------------------------
# impl
# ----------------------------------------------------------------------------
def _res(f):
    try:
        return f()
    except KeyError:
        return {"err": "KeyError"}
    except AttributeError:
        return {"err": "AttributeError"}


def _val(v):
    return {"v": v}


def _keys(t):
    if not isinstance(t, tuple):
        raise TypeError("key tuple expected, got %r" % (t,))
    return {"t": list(t)}


def _mk_view(d, keys, vals, tuples, enc_v, dec_v):
    return {
        "len": len(d),
        "iter": sorted(enc_v(v) for v in d),
        "items": sorted([list(kt), enc_v(v)] for kt, v in dict.items(d)),
        "keytuples": sorted(list(kt) for kt in d.keys()),
        "values": sorted(enc_v(v) for v in d.values()),
        "keys_dict": sorted([k, list(t)] for k, t in d._keys_dict.items()),
        "inv_dict": sorted([enc_v(v), list(t)] for v, t in d._inv_dict.items()),
        "get": [_res(lambda: _val(enc_v(d[k]))) for k in keys],
        "k2k": [_res(lambda: _keys(d.key2keys(k))) for k in keys],
        "v2k": [list(d.value2keys(dec_v(v))) for v in vals],
        "gett": [_res(lambda: _val(enc_v(d[tuple(t)]))) for t in tuples],
    }


def _impl_mk(c):
    from audiolazy import MultiKeyDict
    ops = c["ops"]
    keys, vals = c["keys"], c["vals"]
    start = 0
    d = None
    if c.get("route") == "ctor":
        # leading single-key assignments with distinct keys go through the constructor
        init = {}
        while start < len(ops) and ops[start][0] == "sets" and ops[start][1] not in init:
            init[ops[start][1]] = ops[start][2]
            start += 1
        d = MultiKeyDict(init)
    if d is None:
        d = MultiKeyDict()
    ident = lambda v: v
    view_all = c.get("view", "all") == "all"
    steps = []
    for i, op in enumerate(ops):
        if i < start:
            steps.append(None)      # inside the constructor: not observable step by step
            continue
        o = op[0]
        if o == "set":
            def f():
                d[tuple(op[1])] = op[2]
            r = _res(f)
        elif o == "sets":
            def f():
                d[op[1]] = op[2]
            r = _res(f)
        elif o == "del":
            def f():
                del d[op[1]]
            r = _res(f)
        elif o == "get":
            r = _res(lambda: _val(d[op[1]]))
        elif o == "gett":
            r = _res(lambda: _val(d[tuple(op[1])]))
        elif o == "k2k":
            r = _res(lambda: _keys(d.key2keys(op[1])))
        elif o == "v2k":
            r = _keys(d.value2keys(op[1]))
        elif o == "len":
            r = len(d)
        else:
            raise ValueError("unknown op %r" % (op,))
        if view_all or i == len(ops) - 1:
            v = _mk_view(d, keys, vals, c.get("tuples", []), ident, ident)
        else:
            v = {}
        v["res"] = r
        steps.append(v)
    return {"steps": steps}


class _Strategies:
    """distinct, hashable callables; `==` is identity"""

    def __init__(self, n):
        self.fs = []
        for i in range(n):
            self.fs.append(self._make(i))

    @staticmethod
    def _make(i):
        def strategy_function(*args, **kwargs):
            return ("called", i)
        strategy_function.ident = i
        return strategy_function

    def enc(self, f):
        i = getattr(f, "ident", None)
        if i is None or self.fs[i] is not f:
            raise TypeError("not one of the test strategies: %r" % (f,))
        return i


def _impl_sd(c):
    from audiolazy import StrategyDict
    _gc_tick()
    ops = c["ops"]
    keys, vals = c["keys"], c["vals"]
    st = _Strategies(max(vals) + 1)      # vals always contains the unused identity 9
    sd = StrategyDict("sd_under_test")
    hidden = ("__name__", "_keys_dict", "_inv_dict", "default")
    deco = c.get("route") == "decorator"

    def default_now():
        if "default" in vars(sd):
            return _val(st.enc(vars(sd)["default"]))
        r = sd.default()                    # class-level lambda
        if r is NotImplemented:
            return "NotImplemented"
        raise TypeError("unexpected class default result %r" % (r,))

    def call_now():
        r = sd(1, x=2)
        if r is NotImplemented:
            return "NotImplemented"
        if isinstance(r, tuple) and r[0] == "called":
            # calling the dict must call the default strategy itself
            return _val(r[1])
        raise TypeError("unexpected call result %r" % (r,))

    view_all = c.get("view", "all") == "all"
    steps = []
    for i, op in enumerate(ops):
        o = op[0]
        if o == "set":
            def f():
                if deco and len(op[1]) > 0:
                    sd.strategy(*op[1], keep_name=True)(st.fs[op[2]])
                elif len(op[1]) == 1:
                    sd[op[1][0]] = st.fs[op[2]]
                else:
                    sd[tuple(op[1])] = st.fs[op[2]]
            r = _res(f)
        elif o == "del":
            def f():
                del sd[op[1]]
            r = _res(f)
        elif o == "get":
            r = _res(lambda: _val(st.enc(sd[op[1]])))
        elif o == "getattr":
            r = _res(lambda: _val(st.enc(getattr(sd, op[1]))))
        elif o == "setattr":
            setattr(sd, "default" if op[1] is None else op[1], st.fs[op[2]])
            r = None
        elif o == "delattr":
            def f():
                delattr(sd, "default" if op[1] is None else op[1])
            r = _res(f)
        elif o == "default":
            r = default_now()
        elif o == "call":
            r = call_now()
        elif o == "len":
            r = len(sd)
        else:
            raise ValueError("unknown op %r" % (op,))
        if not (view_all or i == len(ops) - 1):
            steps.append({"res": r})
            continue
        v = _mk_view(sd, keys, vals, c.get("tuples", []), st.enc, lambda i: st.fs[i])
        v["res"] = r
        # name attributes of the instance, restricted to the names of this history's universe (other
        # instance attributes, e.g. private bookkeeping, are not the property's business)
        v["attrs"] = sorted([k, st.enc(x)] for k, x in vars(sd).items() if k not in hidden and k in keys)
        v["default"] = default_now()
        v["call"] = call_now()
        v["getattr"] = [_res(lambda: _val(st.enc(getattr(sd, k)))) for k in keys]
        # StrategyDict iterates its values
        v["sditer"] = sorted(st.enc(x) for x in sd)
        v["iter"] = sorted(st.enc(x) for x in sd._inv_dict)
        steps.append(v)
    return {"steps": steps}


def impl(c):
    try:
        return _impl_mk(c) if c["entry"] == "mk" else _impl_sd(c)
    except Exception as e:      # anything the history semantics does not predict
        return {"err": err_kind(e), "msg": str(e)[:200]}


def request(c):
    ops = []
    for op in c["ops"]:
        if op[0] == "sets":
            ops.append(["set", [op[1]], op[2]])
        else:
            ops.append(op)
    return {"entry": c["entry"], "ops": ops, "keys": c["keys"], "vals": c["vals"],
            "tuples": c.get("tuples", []), "view": c.get("view", "all")}


# ----------------------------------------------------------------------------
# comparison
# ----------------------------------------------------------------------------
def _canon_model(m):
    if "len" not in m:
        return {"res": m["res"]}
    out = {"res": m["res"], "len": m["len"], "iter": sorted(m["iter"]), "items": sorted(m["items"]),
           "keys_dict": sorted(m["keys_dict"]), "inv_dict": sorted(m["inv_dict"]),
           "get": m["get"], "k2k": m["k2k"], "v2k": m["v2k"], "gett": m["gett"]}
    if "attrs" in m:
        out["attrs"] = sorted([a for a in m["attrs"] if a[0] is not None])
        out["default"] = m["default"]
        out["getattr"] = m["getattr"]
        out["sditer"] = sorted(m["sditer"])
    return out


def _canon_spec(s):
    if "len" not in s:
        return {"res": s["res"]}
    out = {"res": s["res"], "len": s["len"], "iter": sorted(s["iter"]), "items": sorted(s["items"]),
           "get": s["get"], "k2k": s["k2k"], "v2k": s["v2k"], "gett": s["gett"]}
    if "attrs" in s:
        out["attrs"] = sorted(s["attrs"])
        out["default"] = s["default"]
        out["getattr"] = s["getattr"]
    return out


def _diff_step(iv, ref, kind):
    """fields of the reference observation that differ from the impl's"""
    bad = []
    for f, want in ref.items():
        got = iv.get(f)
        if got != want:
            bad.append(f)
    # derived impl-only observations: the same information seen through other accessors
    if "len" not in ref:
        return bad
    if kind == "spec":
        if iv["keytuples"] != sorted(x[0] for x in ref["items"]):
            bad.append("keytuples")
        if iv["values"] != sorted(x[1] for x in ref["items"]):
            bad.append("values")
        if "sditer" in iv and iv["sditer"] != ref["iter"]:
            bad.append("sditer")
        if "call" in iv and iv["call"] != ref["default"]:
            bad.append("call")
    else:
        if "call" in iv and iv["call"] != ref["default"]:
            bad.append("call")
    return bad


def first_diff(c, io, drv, kind):
    """(step index, fields) of the first step where impl differs from model / spec, else None"""
    if "err" in io:
        return (-1, ["impl-raised-" + io["err"]])
    side = drv["model"] if kind == "model" else drv["spec"]
    canon = _canon_model if kind == "model" else _canon_spec
    if len(side) != len(io["steps"]):
        return (-1, ["step-count"])
    for i, (iv, sv) in enumerate(zip(io["steps"], side)):
        if iv is None:
            continue
        bad = _diff_step(iv, canon(sv), kind)
        if bad:
            return (i, bad)
    if kind == "spec" and "last" in drv and io["steps"] and io["steps"][-1] is not None:
        if io["steps"][-1]["get"] != drv["last"]:
            return (len(io["steps"]) - 1, ["last-assigned"])
    return None


def _has_empty_set(c):
    return any(o[0] == "set" and o[1] == [] for o in c["ops"])


def compare(c, io, drv):
    out = []
    # The empty key tuple is outside the property's quantifier and outside the theorems
    # (`Op.valid`).  The spec reads `d[()] = v` as "bind no key" = no change; the model follows the
    # code as it is today.  For such histories only the spec is authoritative (so that a repaired
    # repo is not reported as a broken correspondence); when impl and spec differ the model
    # comparison is reported as well.
    kinds = ("model", "spec")
    if _has_empty_set(c) and first_diff(c, io, drv, "spec") is None:
        kinds = ("spec",)
    for kind in kinds:
        d = first_diff(c, io, drv, kind)
        if d is not None:
            i, bad = d
            op = c["ops"][i] if 0 <= i < len(c["ops"]) else None
            out.append((kind, "%s: step %d %r: impl differs from %s in %s" % (c["entry"], i, op, kind, ",".join(bad))))
    return out


def nontrivial(c, io):
    if "err" in io or not io["steps"]:
        return False
    steps = [s for s in io["steps"] if s is not None]
    if not steps:
        return False
    some_set = any(op[0] in ("set", "sets") for op in c["ops"])
    errs = any(isinstance(s["res"], dict) and "err" in s["res"] for s in steps)
    return some_set and (steps[-1]["len"] > 0 or errs)


def tally(eng, c, io):
    eng.count("entry", c["entry"])
    eng.count("route", c.get("route", "plain"))
    eng.count("history_len", min(len(c["ops"]) // 5 * 5, 40))
    if "err" in io:
        eng.count("impl_error", io["err"])
        return
    for op, s in zip(c["ops"], io["steps"]):
        if s is None:
            eng.count("op", "ctor-set")
            continue
        r = s["res"]
        tag = "ok"
        if isinstance(r, dict) and "err" in r:
            tag = r["err"]
        elif r == "NotImplemented":
            tag = "NotImplemented"
        name = op[0]
        if name in ("set", "sets"):
            t = op[1] if isinstance(op[1], list) else [op[1]]
            name = "set/len%d%s" % (min(len(t), 3), "/dup" if len(set(t)) < len(t) else "")
        if name in ("setattr", "delattr") and op[1] is None:
            name += "/default"
        eng.count("op", "%s:%s" % (name, tag))
    for tag in _branches(c, io):
        eng.count("branch", tag)
    last = [s for s in io["steps"] if s is not None]
    if last:
        v = last[-1]
        eng.count("final_len", min(v["len"], 5))
        eng.count("final_max_tuple", max([len(x[0]) for x in v["items"]] + [0]))
        if "attrs" in v:
            eng.count("sd_final_default", "set" if v["default"] != "NotImplemented" else "unset")
            stale = {a[0] for a in v["attrs"]} - {k for x in v["items"] for k in x[0]}
            eng.count("sd_attr_without_item", bool(stale))


# ----------------------------------------------------------------------------
# branch coverage of the modelled code, read off the impl's own observations (state before the
# step + operation); only for histories observed after every step
# ----------------------------------------------------------------------------
_EMPTY_VIEW = {"items": [], "attrs": [], "default": "NotImplemented"}


def _branches(c, io):
    if "err" in io or c.get("view", "all") != "all":
        return
    prev = _EMPTY_VIEW
    for op, st in zip(c["ops"], io["steps"]):
        if st is None or "items" not in st:
            prev = None
            continue
        if prev is not None:
            bound = {k: x[1] for x in prev["items"] for k in x[0]}
            group = {x[1]: x[0] for x in prev["items"]}
            attrs = dict((a[0], a[1]) for a in prev.get("attrs", []))
            dflt = prev.get("default")
            o = op[0]
            if o in ("set", "sets"):
                ks = op[1] if isinstance(op[1], list) else [op[1]]
                v = op[2]
                yield "set:value-%s" % ("already-stored(merge)" if v in group else "new")
                if len(set(ks)) < len(ks):
                    yield "set:duplicate-key-in-tuple"
                if any(k in bound and bound[k] != v for k in ks):
                    yield "set:overwrites-key-of-other-value"
                if any(k in bound and bound[k] == v for k in ks):
                    yield "set:re-gives-own-key(reorder)"
                if not any(k in bound for k in ks):
                    yield "set:only-fresh-keys"
                if any(w != v and all(k in ks for k in t) for w, t in group.items()):
                    yield "set:other-value-loses-all-keys"
                if c["entry"] == "sd":
                    d = dflt["v"] if isinstance(dflt, dict) else None
                    if d is None:
                        yield "sd-set:no-default->chosen"
                    elif d in group and all(k in ks for k in group[d]):
                        yield "sd-set:default-loses-all-names->rechosen"
                    else:
                        yield "sd-set:default-kept"
            elif o == "del":
                k = op[1]
                if k not in bound:
                    yield "del:missing(KeyError)"
                else:
                    w = bound[k]
                    yield "del:%s" % ("last-key-of-value" if group[w] == [k] else "tuple-shrinks")
                    if c["entry"] == "sd":
                        yield "sd-del:attr-%s" % ("equal->removed" if attrs.get(k) == w else
                                                  ("differs->kept" if k in attrs else "absent"))
                        d = dflt["v"] if isinstance(dflt, dict) else None
                        yield "sd-del:default-%s" % ("removed" if d == w and group[w] == [k] else "kept")
            elif o == "delattr":
                k = op[1]
                if k is None:
                    yield "delattr-default:%s" % ("present" if isinstance(dflt, dict) else "absent(AttributeError)")
                elif k not in bound:
                    yield "delattr:non-strategy-%s" % ("attribute" if k in attrs else "missing(AttributeError)")
                elif k not in attrs:
                    yield "delattr:strategy-without-attribute(AttributeError)"
                elif attrs[k] == bound[k]:
                    yield "delattr:have-both-equal->del-item"
                else:
                    yield "delattr:have-both-different->attribute-put-back"
        prev = st


def shrink(c):
    ops = c["ops"]
    n = len(ops)
    # drop a suffix, then single operations, then shorten tuples
    if n > 1:
        yield _case(c["entry"], ops[:n // 2], c.get("route", "plain"))
        yield _case(c["entry"], ops[:-1], c.get("route", "plain"))
    for i in range(n):
        yield _case(c["entry"], ops[:i] + ops[i + 1:], c.get("route", "plain"))
    for i, op in enumerate(ops):
        if op[0] == "set" and len(op[1]) > 1:
            for j in range(len(op[1])):
                yield _case(c["entry"], ops[:i] + [["set", op[1][:j] + op[1][j + 1:], op[2]]] + ops[i + 1:],
                            c.get("route", "plain"))
    if c.get("route", "plain") not in ("plain", "empty"):
        yield _case(c["entry"], ops, "plain")


def neighbours(c):
    ops = c["ops"]
    keys = [k for k in c["keys"] if k != "zz"] or ["a"]
    vals = [v for v in c["vals"] if v != 9] or [0]
    for i in range(len(ops) + 1):
        for k in keys[:3]:
            yield _case(c["entry"], ops[:i] + [["del", k]] + ops[i:], "plain")
            for v in vals[:2]:
                yield _case(c["entry"], ops[:i] + [["set", [k], v]] + ops[i:], "plain")
    for i in range(len(ops)):
        yield _case(c["entry"], ops[:i] + ops[i + 1:], "plain")


def classify(c, io, drv):
    d = first_diff(c, io, drv, "spec") or first_diff(c, io, drv, "model")
    if d is None:
        return c["entry"] + ":agree"
    i, bad = d
    if i < 0:
        return "%s:%s" % (c["entry"], bad[0])
    op = c["ops"][i]
    iv = io["steps"][i]
    # a value that owns no key: only an assignment with the empty key tuple creates it
    empty_set = any(o[0] == "set" and o[1] == [] for o in c["ops"][:i + 1])
    phantom = any(x[0] == [] for x in iv.get("items", [])) or any(x[1] == [] for x in iv.get("inv_dict", []))
    if c["entry"] == "mk" and empty_set and phantom:
        return "mk:set-empty-tuple:value-without-keys"
    name = op[0]
    if name in ("setattr", "delattr") and op[1] is None:
        name += "-default"
    return "%s:%s:%s" % (c["entry"], name, "+".join(sorted(set(bad))))
