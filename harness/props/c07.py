"""C07 — Poly ring / evaluation / composition / calculus / Lagrange / eq-hash.

Tie in the exact regime: Fraction coefficients, zero=Fraction(0).  Cases are
expression trees over Laurent polynomials evaluated with the real operators and
with the Lean model (operation by operation) and the Lean spec (coefficient-wise
ring operations in canonical form); law vectors (the ring / homomorphism / calculus
laws of the property evaluated on the real objects); eq/hash pairs; Lagrange
point sets.
"""
import json
from fractions import Fraction as F
from functools import reduce
from collections import OrderedDict
import operator

import common
from common import enc, dec, err_kind
from props import c07_hist as H
from props import c07_zero as Z0
from props import c07_tr as TR

ID = "C07"
RULE = ("random expression trees (depth<=3 quick / <=4 thorough) over Laurent polynomials with support in [-4,6] and "
        "Fraction coefficients, law vectors on random triples (p,q,r,n,c,v), eq/hash pairs (permuted / rebuilt / "
        "perturbed), Lagrange point sets (0..6 points, mostly distinct abscissae); large parameters (powers / orders / "
        "supports around 63-65, 127-129, 4095-4097, 16/17(33) interpolation points); HISTORIES (entry hist, "
        "props/c07_hist.py) of 1..12 (long: 64..400) steps on a pool of Poly objects that are shared, assigned into "
        "(p[k] = c, also c = 0, float / bool keys; p.zero = 0), hashed and re-used: shapes memo (op; assignment into an "
        "operand or into the result; the same op again), twin (the same call with numerically equal int / bool / float / "
        "complex / Fraction arguments, every order), objtwin (numerically equal Polys of different coefficient types, the "
        "same op on each), lag (lagrange.func / lagrange.poly / resample on numerically equal abscissae or points of "
        "different types and in 8 container kinds), hashed, src (the caller's own list / dict / OrderedDict given to "
        "Poly(...) and changed afterwards), walk, long; non-trivial = the impl returned a non-empty polynomial, a law "
        "vector, a comparison, interpolated values, or a history with a value-returning step; distinct = distinct JSON case; "
        "ZERO / SPELLING histories (entries zhist, pynum; props/c07_zero.py): numbers tagged with their Python kind (bool / int / "
        "Fraction / dyadic float / complex), zeros default / 0 / 0.0 / Fraction(0) / False / 0j given by keyword, positionally, "
        "omitted or as None, the copy constructor, copy(zero=), the zero setter, scalar arithmetic on either side, + - * ** / "
        "of mixed-zero operands, Poly / bool / float / int exponents, composition, diff / integrate, item assignment with "
        "float / bool powers, hash, ==, != — shapes cross (one polynomial created in 4..8 ways), ring (both sides of ring "
        "identities on differently spelled operands), walk, malformed (unhashable zeros [] / {}), weird-zero (a zero equal to a "
        "coefficient), fixed (every spelling x every call shape); at the end every pair of variables is crossed with ==, != "
        "(both orders), hash, set / dict membership; pynum: +, -, *, /, **, ==, hash of two tagged numbers against CPython; "
        "TRANSLATOR (props/c07_tr.py): before the build the bodies of Poly.__init__ / zero / __len__ / __getitem__ / __setitem__ / "
        "copy / diff / integrate / __add__ / __sub__ / __mul__ / __eq__ / __ne__ / __truediv__ / __pow__ (number exponent) / __call__ (number value) and PolyMeta.__unary__ / __rbinary__ are "
        "re-read from lazy_poly.py with ast and written as Lean definitions (Gen/C07Src.lean) that Props.C07.src_*_is_model prove equal "
        "to the model functions; translator-selftest: 23 deliberate edits of the source text (swapped comparison, changed constants, "
        "dropped thub, reordered statements, lost / wrong zero, union for intersection, wrong power shift, and five of __pow__: exponent test, shortcut `v == 1`, `k + other`, repetition count, `self` for the last factor; five of __call__: Horner step test / formula, lost final power, shortcut on 1, ascending order) must each change the "
        "translation or be refused, layout must not, and the unchanged source must reproduce the committed file byte for byte")
TRUSTED = [
    "source translator harness/props/c07_tr.py (method bodies of Poly / PolyMeta -> lean/ALV/Gen/C07Src.lean, proved equal to the model "
    "functions by Props.C07.src_*_is_model) — trusted: (1) its reading of the Python subset: straight-line assignments, if / elif / "
    "else, return, raise, `x is None`, short-circuit and / or / not, conditional expressions, generator expressions and list "
    "comprehensions as filter / map (mapM when an element may raise: the exception leaves the method at the first failing item), "
    "nested defs inlined at their calls; (2) the typing under which `isinstance` is DECIDED: powers are ints, coefficients / zeros are "
    "numbers (never a Stream / Poly / list / dict), so the float-power clean-up and the Stream branches are dead and `thub` of a number "
    "is the number; (3) the vocabulary mapping: OrderedDict(pairs) = ofPairs, enumerate = enumFrom 0, it.chain = ++, `k in d` = has, "
    "`d[k]` under `k in d` = find?, `d[k] = v` = set, `del d[k]` = del, `if k in d: d[k] += v else: d[k] = v` = accum, "
    "`for _ in xrange(n): d = f(d)` = iter, `for k, v in list(iteritems(D)): if C: del D[k]` = filter (not C) (keys of a dict are "
    "distinct; the snapshot makes deleting while iterating legal), `[(key, f(A[key], B[key])) for key in set(A).intersection(B)]` = "
    "Py.interWith f A B (set order abstracted), `next(iteritems(d))` under `len(d) == 1` = head, operator.truediv and / = Py.truediv "
    "(ZeroDivisionError iff the divisor == 0), hasattr(self, '_hash') / getattr(self, '_hash', False) = the model's `hashed` flag, an int "
    "meeting a number = PyNum.int; for __pow__: the exponent is a number of integral value (Int) and kind `ek` (int / bool / float), `other == 0` / `k * other` / `other - 1` act on the value, `v ** other` = Py.pow (ZeroDivisionError iff 0 ** negative, else the model's powNum), `[x] * count` = Py.rep (TypeError for a float count, [] for a count <= 0), `reduce(operator.mul, L + [self])` = Py.reduceMul (the object self itself for an empty L, else the left-nested product), `x.copy()` = py_copy x none; for __call__: the flag `horner` is decided per kind ('auto' / True / False), `not d` = isEmpty, `self.is_polynomial()` = isPolynomial, `self.terms()` / `self.terms(sort=True, reverse=True)` = sortAsc / sortDesc of the items (integer powers: sort='auto' sorts, the `except TypeError` handler is dead), `number ** int` = PyNum.powInt and is accepted only after a dominating `if value == 0: return` (0 ** negative raises otherwise; `value = thub(value, n)` keeps the fact), `reduce(step, pairs)` = Py.reduce1 (accepted only for a sequence known to be non-empty), nested def = lambda, `sum(gen)` = foldl (+) from the int 0; the definitions of ALV/Model/C07Src.lean (InitData, Py.thub, Py.truediv, Py.interWith, Py.next, Py.pow, Py.rep, Py.reduceMul, Py.toPowRes, Py.reduce1) are "
    "that reading; (4) that PolyMeta wires __neg__ / __pos__ / the reflected dunders to __unary__ / __rbinary__ with operator.neg / pos / "
    "add / sub / mul (AbstractOperatorOverloaderMeta: property C01's translator T1).  The differential tie runs the SAME model "
    "functions against the real class, so a wrong reading shows there",
    "zero / spelling model ALV/Model/C07Zero.lean (hand-written, modelled not verified): Python's numeric tower as PyNum "
    "(result kinds of + - * / **, == as numerical equality, CPython's hash of int / Fraction / float / complex with modulus "
    "2^61-1) — tied to the real interpreter by entry pynum (kind, exact value and hash of every result); a float is a rational "
    "in the model, flagged inexact when IEEE double arithmetic would round (then values are compared within 1e-9 and the later "
    "steps on that object only by the kind of answer); that a correctly rounded IEEE operation returns the exact result when "
    "it is representable is trusted",
    "hash(Poly): the model gives (sorted (power, hash(coefficient)) pairs, hash(zero)); that CPython's hash of a tuple / "
    "frozenset is a function of the hashes of the members is trusted; the tie demands equal hashes whenever the model's keys are "
    "equal and, model free, whenever p == q",
    "hand-written Lean model ALV/Model/C07.lean of lazy_poly.Poly / lagrange (modelled, not verified: OrderedDict as "
    "association list, Python's Fraction arithmetic as a field, int*Fraction / Fraction**int as ofIntA / powInt)",
    "float / complex powers, Stream coefficients, __str__, roots (numpy) are outside the model",
    "hash: the model gives the canonical form of frozenset(items); CPython's hash() of it is trusted",
    "histories: hand-written Lean model ALV/Model/C07Hist.lean of object identity, in-place assignment and the `_hash` "
    "freeze (heap of objects, the caller's variables, the caller's containers; modelled, not verified); "
    "`__setitem__` tests `getattr(self, '_hash', False)`, so an instance whose hash VALUE is 0 still accepts item "
    "assignment: not modelled",
    "histories: lagrange.func / lagrange.poly / resample are pure functions in the model — that a call does not depend "
    "on the calls before it holds there by construction (no theorem); it is the tie that checks it on the real code: "
    "every step of a history is compared with the model of that step taken alone",
    "histories: `resample` — which samples are in the window and at which abscissa it is read is re-computed by the "
    "harness (c07_hist.resample_queries; that bookkeeping is property C19's); C07 checks that every output is the value "
    "of the interpolator through that window",
    "histories: numerically equal arguments of other numeric types — the Lean side computes on the rational value; "
    "float / complex answers are compared within 1e-9 (terms below 1e-12 pruned; once rounding residue makes a float "
    "operand's number of terms differ from the model's, the later steps on inexact operands are not compared); that a "
    "step with exact inputs (int / bool / Fraction and no Python int / int or int ** -n) answers in exact numbers is "
    "checked on the Python types",
    "histories: model-free oracles — the same step of the real code on pristine copies "
    "Poly(OrderedDict(p.terms(sort=False)), zero=p.zero) of the operands' current contents; the contents of every "
    "variable and of the caller's containers read again after every step; `is` between a result and every earlier object",
    "histories: the first 250 histories of a run, and every history once one has failed, run in a process forked from a "
    "zygote that has imported the library and run nothing (c07_hist.zygote_start); a case that fails only after the "
    "earlier cases of the run is reported as a broken correspondence, not as the failing input",
]
ASSUMPTIONS = [
    "zero / spelling histories: powers are ints (given as int, k.0 or bool); Stream coefficients, Stream / filter arguments of "
    "__call__, non-integer exponents, roots (numpy), __str__ are outside; zeros that are not numerically zero (zero=1) and the "
    "unhashable zeros [] / {} are inside the model (compaction is against the instance's own zero with ==)",
    "exact regime only: Fraction coefficients / evaluation points and zero=Fraction(0) (the default float zero 0. "
    "turns exact inputs into floats; lagrange.poly uses the module-level x whose zero is 0. but keeps Fraction coefficients)",
    "p**n for n<0 and a Poly with more than one term returns p itself in the code (list repetition by a negative "
    "count); the property quantifies over exponents 0..bounded, the spec leaves that case undefined, the model reproduces it",
    "evaluation at v=0 of a Poly with negative powers returns the constant coefficient (x=0 shortcut); the property "
    "states the shortcut for polynomials only",
    "`p ** n` on at least two terms with n <= 1, n != 0 returns the object p itself (reduce(mul, [] + [self])); the "
    "model reproduces it (Props.C07.hist_alias_only_pow_self) but the property does not ask for it: histories never "
    "assign into / hash such a result or its base afterwards, and a result that is a new object where the model returns "
    "p is accepted, so that a refactor returning a copy raises no alarm; every OTHER result has to be a new object "
    "(Poly instances are mutable until hashed, so a shared result would let a later assignment change another value)",
    "histories use zero=Fraction(0) objects; the `zero` setter is exercised with values equal to zero (0, False, "
    "Fraction(0)) only; lagrange.poly results (zero=0.) are observed and then changed by the harness (p[97] = 1), "
    "they do not enter the pool",
]
MANIFEST = {
    "technique": "source translator (harness/props/c07_tr.py: the bodies of 19 Poly / PolyMeta methods of lazy_poly.py are regenerated "
                 "into Lean definitions on every run and proved equal to the hand-written model functions, Props.C07.src_*_is_model, "
                 "23 theorems; __pow__ on instances satisfying the representation invariant) + Lean 4 proof (association-list model interpreted into Mathlib's Laurent polynomial ring K[T;T⁻¹]; heap "
                 "model of mutable instances with invariant / freshness / frame theorems over all histories) + "
                 "differential tie on expression trees in the exact Fraction regime and on histories of shared, mutated "
                 "and re-used objects with arguments of every numeric type; model of the zero attribute and of Python's numeric "
                 "kinds (==, hash, result kinds) with `p == q -> hash p = hash q` proved over all histories and spellings, tied "
                 "value-and-kind exact to the real class and to CPython's numbers",
}

Z = F(0)
COEFFS = [F(1), F(-1), F(2), F(-2), F(3), F(1, 2), F(-1, 2), F(1, 3), F(2, 3), F(-3, 2), F(5), F(-7, 4), F(1, 5)]
VALUES = [F(0), F(1), F(-1), F(2), F(1, 2), F(-1, 2), F(3), F(-2, 3), F(5, 3), F(-3)]

UN = ("neg", "pos")
BIN = ("add", "sub", "mul")
SCAL = ("adds", "radds", "subs", "rsubs", "muls", "rmuls", "divs")


# ----------------------------------------------------------------------------
# generators
# ----------------------------------------------------------------------------
def _coeff(rng, zero_p=0.08):
    if rng.random() < zero_p:
        return F(0)
    return rng.choice(COEFFS)


def _leaf(rng, poly_only=False, maxterms=4):
    r = rng.random()
    if r < 0.05:
        return ["empty"]
    if r < 0.12:
        return ["x"]
    if r < 0.2:
        return ["const", enc(_coeff(rng))]
    if r < 0.35:
        n = rng.randint(0, maxterms)
        return ["list", [enc(_coeff(rng, 0.2)) for _ in range(n)]]
    lo = 0 if poly_only else -4
    n = rng.randint(1, maxterms)
    ks = [rng.randint(lo, 6) for _ in range(n)]
    if rng.random() < 0.85:
        ks = list(OrderedDict.fromkeys(ks))
    return ["dict", [[k, enc(_coeff(rng))] for k in ks]]


def _mono(rng):
    return ["dict", [[rng.randint(-3, 3), enc(rng.choice(COEFFS))]]]


def _tree(rng, depth, poly_only=False, big=False):
    if depth <= 0 or rng.random() < 0.2:
        return _leaf(rng, poly_only)
    r = rng.random()
    if r < 0.42:
        return [rng.choice(BIN), _tree(rng, depth - 1, poly_only, big), _tree(rng, depth - 1, poly_only, big)]
    if r < 0.5:
        return [rng.choice(UN), _tree(rng, depth - 1, poly_only, big)]
    if r < 0.64:
        op = rng.choice(SCAL)
        c = enc(_coeff(rng, 0.1))
        sub = _tree(rng, depth - 1, poly_only, big)
        return [op, c, sub] if op.startswith("r") else [op, sub, c]
    if r < 0.74:
        n = rng.choice([0, 1, 2, 2, 3, 3, 4, -1, -2] + ([5, 6] if big else []))
        if poly_only and n < 0:
            n = -n
        base = _mono(rng) if (rng.random() < 0.3 and not poly_only) else _tree(rng, min(depth - 1, 1), poly_only)
        return ["pow", base, n]
    if r < 0.8:
        d = _mono(rng) if rng.random() < 0.8 else _tree(rng, 1)
        if poly_only:
            d = ["const", enc(rng.choice(COEFFS))]
        return ["div", _tree(rng, depth - 1, poly_only, big), d]
    if r < 0.88:
        inner = _mono(rng) if rng.random() < 0.35 else _tree(rng, min(depth - 1, 1), poly_only)
        outer = _tree(rng, min(depth - 1, 1), poly_only or rng.random() < 0.6)
        return ["comp", outer, inner]
    if r < 0.94:
        return ["diff", _tree(rng, depth - 1, poly_only, big), rng.choice([1, 1, 1, 2, 0, 3])]
    if r < 0.98:
        return ["integ", _tree(rng, depth - 1, poly_only, big)]
    return ["setitem", _tree(rng, depth - 1, poly_only, big), rng.randint(-3, 5), enc(_coeff(rng, 0.4))]


def _size_ok(t, limit=400):
    """crude bound on the number of terms so that no case explodes"""
    def sz(t):
        op = t[0]
        if op in ("empty",):
            return 0, 0
        if op == "x":
            return 1, 1
        if op == "const":
            return 1, 0
        if op == "list":
            return len(t[1]), max(len(t[1]) - 1, 0)
        if op == "dict":
            return len(t[1]), max([abs(k) for k, _ in t[1]] + [0])
        if op in BIN:
            (a, da), (b, db) = sz(t[1]), sz(t[2])
            return (a * b, da + db) if op == "mul" else (a + b, max(da, db))
        if op in UN or op in ("diff", "integ", "setitem"):
            a, d = sz(t[1])
            return a + 1, d + 1
        if op in SCAL:
            a, d = sz(t[2] if op.startswith("r") else t[1])
            return a + 1, d
        if op == "pow":
            a, d = sz(t[1])
            n = abs(t[2])
            return max(a, 1) ** max(n, 1), d * max(n, 1)
        if op == "div":
            (a, da), (b, db) = sz(t[1]), sz(t[2])
            return a, da + db
        if op == "comp":
            (a, da), (b, db) = sz(t[1]), sz(t[2])
            return a * max(b, 1) ** max(da, 1), da * max(db, 1)
        raise ValueError(op)
    n, d = sz(t)
    return n <= limit and d <= 60


def _gen_tree(rng, depth, poly_only=False, big=False):
    for _ in range(50):
        t = _tree(rng, depth, poly_only, big)
        if _size_ok(t):
            return t
    return _leaf(rng, poly_only)


def _vs(rng, n=3):
    vs = [rng.choice(VALUES) for _ in range(n)]
    if rng.random() < 0.3:
        vs.append(F(rng.randint(-9, 9), rng.randint(1, 7)))
    return [enc(v) for v in vs]


def _perturb(rng, pairs):
    pairs = [list(p) for p in pairs]
    if not pairs:
        return [[rng.randint(-2, 3), enc(rng.choice(COEFFS))]]
    i = rng.randrange(len(pairs))
    r = rng.random()
    if r < 0.35:
        pairs[i][1] = enc(dec(pairs[i][1]) + rng.choice([F(1), F(-1, 2)]))
    elif r < 0.6:
        pairs[i][0] = pairs[i][0] + rng.choice([1, -1, 7])
    elif r < 0.8:
        del pairs[i]
    else:
        pairs.append([max(k for k, _ in pairs) + 1, enc(rng.choice(COEFFS))])
    return pairs


def _gen_eq(rng):
    n = rng.randint(0, 5)
    ks = rng.sample(range(-4, 7), n)
    pairs = [[k, enc(rng.choice(COEFFS))] for k in ks]
    p = ["dict", pairs]
    r = rng.random()
    sh = list(pairs)
    rng.shuffle(sh)
    if r < 0.3:
        q = ["dict", sh]
    elif r < 0.4:
        q = ["dict", sh + [[9, 0]]]                    # a zero that must be compacted away
    elif r < 0.5:
        q = ["add", ["dict", sh[:len(sh) // 2]], ["dict", sh[len(sh) // 2:]]]
    elif r < 0.58:
        t = _leaf(rng)
        q = ["sub", ["add", ["dict", sh], t], t]
    elif r < 0.64:
        q = ["muls", ["dict", sh], 1]
    elif r < 0.7 and all(k >= 0 for k in ks):
        m = max(ks + [-1]) + 1
        d = dict((k, c) for k, c in pairs)
        q = ["list", [d.get(i, 0) for i in range(m)]]
    else:
        q = ["dict", _perturb(rng, sh)]
    return {"entry": "eq", "p": p, "q": q}


def _gen_lagrange(rng, maxn=5):
    r = rng.random()
    n = 1 if r < 0.06 else (0 if r < 0.08 else rng.randint(2, maxn))
    pool = [F(i) for i in range(-4, 6)] + [F(1, 2), F(-3, 2), F(7, 3), F(1, 3)]
    xs = rng.sample(pool, n)
    if n >= 2 and rng.random() < 0.08:
        xs[-1] = xs[0]                                  # repeated abscissa: outside the property, model only
    pts = [[enc(x), enc(_coeff(rng, 0.15) * rng.choice([1, 2, 3]))] for x in xs]
    ks = [enc(rng.choice(VALUES + [F(7, 2), F(-5, 3)])) for _ in range(2)]
    return {"entry": "lagrange", "pairs": pts, "ks": ks}


def generate(rng, tier, scale=1):
    quick = tier == "quick"
    n_expr = (4000 if quick else 100000) * scale
    n_laws = (1000 if quick else 20000) * scale
    n_eq = (800 if quick else 15000) * scale
    n_lag = (600 if quick else 12000) * scale
    depth = 3 if quick else 4
    cases = []
    if scale == 1:
        cases.extend(_fixed_cases())
    for i in range(n_expr):
        t = _gen_tree(rng, rng.choice([1, 2, 2, depth, depth]), poly_only=rng.random() < 0.25, big=not quick)
        cases.append({"entry": "expr", "expr": t, "vs": _vs(rng), "ks": [rng.randint(-5, 7) for _ in range(3)]})
    for i in range(n_laws):
        po = rng.random() < 0.35
        d = rng.choice([0, 0, 1, 1, 2])
        cases.append({"entry": "laws",
                      "p": _gen_tree(rng, d, po), "q": _gen_tree(rng, d, po), "r": _gen_tree(rng, min(d, 1), po),
                      "n": rng.choice([0, 1, 2, 2, 3, 3, 4]), "c": enc(_coeff(rng, 0.1)),
                      "v": enc(rng.choice(VALUES))})
    for i in range(n_eq):
        cases.append(_gen_eq(rng))
    for i in range(n_lag):
        cases.append(_gen_lagrange(rng, 5 if quick else 7))
    if scale == 1:
        cases.extend(_big_cases(rng, tier))
    # histories (shared, mutated and re-used objects; numerically equal arguments of different types) come first: the
    # first H.ISO_ALWAYS of them run in a fresh process each, before this process has touched the library
    return H.gen_hist(rng, tier, scale) + cases + Z0.generate(rng, tier, scale)


def _big_cases(rng, tier):
    """large parameters with cheap exact arithmetic: powers, orders and supports around 63/64/65, 127/128/129 and
    4095/4096/4097 (monomial powers, binomial powers, dense products, Horner on dense and on sparse supports with
    merged steps, n-th derivatives, composition, item assignment far out, interpolators on 16/17 (33) points)"""
    quick = tier == "quick"
    out = []
    small = [1, -1, 2, -2, 3, "1/2", "-1/2", "3/2"]

    def dense(n):
        return ["list", [rng.choice(small) for _ in range(n + 1)]]

    def ex(t, vs=(1, -1, 2, "1/2"), ks=(0, 64, 4096)):
        out.append({"entry": "expr", "expr": t, "vs": list(vs), "ks": list(ks), "big": True})
    sizes = [63, 64, 65] + ([] if quick else [127, 128, 129, 255, 256, 257])
    for n in [63, 64, 65, 127, 128, 129, 4095, 4096, 4097, -63, -64, -65, -4096]:
        ex(["pow", ["dict", [[rng.choice([1, -1, 2]), rng.choice(["1/2", -2, "3/2", 1])]]], n], vs=(1, -1, 2))
    for n in sizes:
        ex(["pow", ["list", [1, 1]], n])
        ex(["pow", ["dict", [[0, 1], [1, "-1/2"]]], n], vs=(1, 2, "1/2"))
        ex(["pow", ["dict", [[-1, 1], [1, 1]]], n], vs=(1, -1, 2))
    for a, b in [(63, 64), (64, 65)] + ([(33, 127)] if quick else [(127, 128), (128, 129)]):
        ex(["mul", dense(a), dense(b)], vs=(1, -1, "1/2"))
        ex(["sub", ["mul", dense(a), dense(b)], dense(a + b)], vs=(1, -1))
    for n in [63, 64, 65, 127, 128, 129, 255, 256, 257] + ([] if quick else [1023, 1024, 1025]):
        ex(dense(n), vs=(1, -1, 2, "1/2", "-3/2"), ks=(0, n, n + 1))
    sparse = [0, 1, 63, 64, 65, 127, 128, 129, 4095, 4096, 4097]
    for _ in range(3 if quick else 12):
        ks = sorted(rng.sample(sparse, rng.randint(4, 9)))
        p = ["dict", [[k, rng.choice(small)] for k in rng.sample(ks, len(ks))]]
        ex(p, vs=(1, -1, 2, "1/2"), ks=(0, 64, 4096, 4097))
        lp = ["dict", [[k * rng.choice([1, -1]), rng.choice(small)] for k in rng.sample(ks, len(ks)) if k]]
        ex(lp, vs=(1, -1, 2, "-1/2"))
        for d in (63, 64, 65):
            ex(["diff", p, d], vs=(1, -1))
        ex(["integ", p], vs=(1, -1))
        ex(["mul", p, lp], vs=(1, -1, 2))
        ex(["setitem", dense(64), rng.choice([4095, 4096, 4097, -4096]), rng.choice(small + [0])], vs=(1, 2))
    for n in (63, 64, 65):
        ex(["comp", ["dict", [[n, 1], [n - 1, -1], [0, 1]]], ["list", [1, 1]]], vs=(1, -1, "1/2"))
        ex(["comp", ["dict", [[n, 1], [1, 2]]], ["dict", [[-1, "1/2"]]]], vs=(1, 2))
        ex(["integ", dense(n)], vs=(1, -1))
        ex(["diff", dense(n), n - 1], vs=(1, 2))
    for n in ([16, 17] if quick else [16, 17, 32, 33]):
        xs = list(range(n))
        rng.shuffle(xs)
        out.append({"entry": "lagrange", "pairs": [[x, rng.choice(small)] for x in xs], "ks": ["1/2", -1, n], "big": True})
        out.append({"entry": "lagrange", "pairs": [[enc(F(x, 2)), rng.choice(small)] for x in xs], "ks": ["1/3"], "big": True})
    return out


def _fixed_cases():
    """small exhaustive universe: every binary operator on every pair of a fixed set of small polys"""
    base = [["empty"], ["x"], ["const", 2], ["dict", [[-1, "1/2"], [2, 3]]], ["dict", [[2, -3], [-1, "-1/2"]]],
            ["list", [1, 1]], ["list", [1, 0, -1]], ["dict", [[0, 1], [1, -1]]], ["dict", [[3, 2]]],
            ["dict", [[-2, "1/3"]]]]
    out = []
    vs = [0, 1, 2, "-1/2"]
    for a in base:
        for b in base:
            for op in BIN + ("div", "comp"):
                out.append({"entry": "expr", "expr": [op, a, b], "vs": vs, "ks": [0, 1, -1]})
        for n in (-2, -1, 0, 1, 2, 3):
            out.append({"entry": "expr", "expr": ["pow", a, n], "vs": vs, "ks": [0, 1, -1]})
        for op in ("neg", "pos", "integ"):
            out.append({"entry": "expr", "expr": [op, a], "vs": vs, "ks": [0, 1, -1]})
        for n in (0, 1, 2):
            out.append({"entry": "expr", "expr": ["diff", a, n], "vs": vs, "ks": [0, 1, -1]})
        for c in (0, 2, "-1/2"):
            for op in SCAL:
                out.append({"entry": "expr", "expr": [op, c, a] if op.startswith("r") else [op, a, c],
                            "vs": vs, "ks": [0, 1, -1]})
    out.append({"entry": "lagrange", "pairs": [[1, 5]], "ks": [3]})
    out.append({"entry": "lagrange", "pairs": [], "ks": [3]})
    out.append({"entry": "lagrange", "pairs": [[1, 5], [2, 7], [4, "1/3"]], "ks": [3, 0]})
    return out


# ----------------------------------------------------------------------------
# the real code
# ----------------------------------------------------------------------------
_BR = []          # branch labels of the modelled code reached while building the current case (histograms only)


def _keys(p):
    return [k for k, _ in p.terms(sort=False)]


def _branch(op, t, a, b=None):
    """which branch of the modelled code an operation takes (looked up on the operands, before the call)"""
    try:
        if op in ("add", "sub"):
            ov = set(_keys(a)) & set(_keys(b))
            _BR.append("add:intersection non-empty" if ov else "add:disjoint keys")
        elif op == "mul":
            sums = [i + j for i in _keys(a) for j in _keys(b)]
            _BR.append("mul:accumulate hit" if len(set(sums)) < len(sums) else "mul:all sums distinct")
        elif op == "pow":
            n = t[2]
            if n == 0:
                _BR.append("pow:n=0")
            elif len(a) == 0:
                _BR.append("pow:empty")
            elif len(a) == 1:
                _BR.append("pow:one term, v==1" if list(a.terms())[0][1] == 1 else
                           ("pow:one term, n<0" if n < 0 else "pow:one term, n>0"))
            else:
                _BR.append("pow:product, n>1" if n > 1 else ("pow:n=1 (self)" if n == 1 else "pow:n<0 on several terms (self)"))
        elif op == "div":
            _BR.append("div:by %s" % ("empty" if len(b) == 0 else ("one term" if len(b) == 1 else "several terms")) +
                       (", empty dividend" if len(a) == 0 else ""))
        elif op == "divs":
            _BR.append("divs:%s%s" % ("zero" if b == 0 else "non-zero", ", empty dividend" if len(a) == 0 else ""))
        elif op == "comp":
            neg = any(k < 0 for k in _keys(a))
            _BR.append("comp:%s outer, %s inner" % ("laurent" if neg else "polynomial",
                                                    "empty" if len(b) == 0 else ("one-term" if len(b) == 1 else "several-term")))
        elif op == "diff":
            _BR.append("diff:has constant term" if 0 in _keys(a) else "diff:no constant term")
        elif op == "integ":
            _BR.append("integ:has power -1" if -1 in _keys(a) else "integ:ok")
        elif op == "setitem":
            _BR.append("setitem:%s, key %s" % ("zero" if dec(t[3]) == 0 else "non-zero",
                                               "present" if t[2] in _keys(a) else "absent"))
    except Exception:
        pass


def _build(t):
    from audiolazy import Poly, x as X0
    op = t[0]
    if op == "dict":
        return Poly(OrderedDict((k, dec(c)) for k, c in t[1]), zero=Z)
    if op == "list":
        return Poly([dec(c) for c in t[1]], zero=Z)
    if op == "const":
        return Poly(dec(t[1]), zero=Z)
    if op == "empty":
        return Poly(zero=Z)
    if op == "x":
        # the monomial x with an int coefficient like the module-level `x`, but with the exact zero: the module's
        # own `x` carries zero=0. (float), so that an empty result evaluates to the float 0.0 and later sums
        # leave the exact regime (lagrange.poly uses the module-level `x`; that path is observed in entry "lagrange")
        return Poly({1: 1}, zero=Z)
    if op == "neg":
        return -_build(t[1])
    if op == "pos":
        return +_build(t[1])
    if op == "add":
        a, b = _build(t[1]), _build(t[2])
        _branch(op, t, a, b)
        return a + b
    if op == "sub":
        a, b = _build(t[1]), _build(t[2])
        _branch(op, t, a, b)
        return a - b
    if op == "mul":
        a, b = _build(t[1]), _build(t[2])
        _branch(op, t, a, b)
        return a * b
    if op == "adds":
        return _build(t[1]) + dec(t[2])
    if op == "radds":
        return dec(t[1]) + _build(t[2])
    if op == "subs":
        return _build(t[1]) - dec(t[2])
    if op == "rsubs":
        return dec(t[1]) - _build(t[2])
    if op == "muls":
        return _build(t[1]) * dec(t[2])
    if op == "rmuls":
        return dec(t[1]) * _build(t[2])
    if op == "divs":
        a = _build(t[1])
        _branch(op, t, a, dec(t[2]))
        return a / dec(t[2])
    if op == "div":
        a, b = _build(t[1]), _build(t[2])
        _branch(op, t, a, b)
        return a / b
    if op == "pow":
        a = _build(t[1])
        _branch(op, t, a)
        return a ** t[2]
    if op == "comp":
        a, b = _build(t[1]), _build(t[2])
        _branch(op, t, a, b)
        return a(b)
    if op == "diff":
        a = _build(t[1])
        _branch(op, t, a)
        return a.diff(t[2])
    if op == "integ":
        a = _build(t[1])
        _branch(op, t, a)
        return a.integrate()
    if op == "setitem":
        p = _build(t[1]).copy()
        _branch(op, t, p)
        p[t[2]] = dec(t[3])
        return p
    raise ValueError("bad tree op %r" % (op,))


def _pairs(it):
    return [[k, enc(v)] for k, v in it]


def _has_float(p):
    return any(isinstance(v, float) for _, v in p.terms(sort=False))


def _try(f):
    try:
        return f()
    except Exception as e:
        return {"err": err_kind(e)}


def _observe(p, vs, ks):
    vs = [dec(v) for v in vs]
    return {
        # int coefficients (Poly(1) of p**0, the "1 if v == 1" branch of __pow__, the module-level x) turn into
        # floats under Python's int/int division (integrate, / by a Poly): the impl left the exact regime by itself
        "float": _has_float(p),
        "items": _pairs(p.terms(sort=False)),
        "terms": _pairs(p.terms()),
        "len": len(p),
        "is_polynomial": p.is_polynomial(),
        "order": _try(lambda: p.order),
        "values": _try(lambda: [enc(c) for c in p.values()]),
        "getitem": [enc(p[k]) for k in ks],
        "call_auto": [enc(p(v)) for v in vs],
        "call_horner": [enc(p(v, horner=True)) for v in vs],
        "call_direct": [enc(p(v, horner=False)) for v in vs],
    }


def _laws(c):
    from audiolazy import Poly
    p, q, r = _build(c["p"]), _build(c["q"]), _build(c["r"])
    if _has_float(p) or _has_float(q) or _has_float(r):
        return None
    n, k, v = c["n"], dec(c["c"]), dec(c["v"])
    one = Poly(1, zero=Z)
    H = ("auto", True, False)

    def nz(s):
        return all(cv != 0 for _, cv in s.terms())

    L = OrderedDict()
    L["add_comm"] = lambda: (p + q) == (q + p)
    L["add_assoc"] = lambda: ((p + q) + r) == (p + (q + r))
    L["mul_comm"] = lambda: (p * q) == (q * p)
    L["mul_assoc"] = lambda: ((p * q) * r) == (p * (q * r))
    L["distrib_left"] = lambda: (p * (q + r)) == (p * q + p * r)
    L["distrib_right"] = lambda: ((p + q) * r) == (p * r + q * r)
    L["sub_self_empty"] = lambda: len(p - p) == 0
    L["add_neg"] = lambda: (p - q) == (p + (-q))
    L["add_zero"] = lambda: (p + Poly(zero=Z)) == p and (Poly(zero=Z) + p) == p
    L["mul_one"] = lambda: (p * one) == p and (one * p) == p
    L["pow_nfold"] = lambda: (p ** n) == reduce(operator.mul, [p] * n, one)
    L["pow_succ"] = lambda: (p ** (n + 1)) == (p ** n) * p
    L["no_zero_stored"] = lambda: all(nz(s) for s in (p + q, p - q, p * q, p ** n, -p, p.diff(), p(q)))
    L["eval_add"] = lambda: all((p + q)(v, horner=h) == p(v, horner=h) + q(v, horner=h) for h in H)
    L["eval_mul"] = lambda: all((p * q)(v, horner=h) == p(v, horner=h) * q(v, horner=h) for h in H)
    L["eval_scheme"] = lambda: p(v, horner=True) == p(v, horner=False) and p(v) == p(v, horner=False)
    L["comp_eval"] = lambda: p(q)(v) == p(q(v))
    L["diff_add"] = lambda: (p + q).diff() == p.diff() + q.diff()
    L["diff_scale"] = lambda: (k * p).diff() == k * p.diff()
    L["diff_mul"] = lambda: (p * q).diff() == p.diff() * q + p * q.diff()
    L["diff_integrate"] = lambda: p.integrate().diff() == p
    L["eq_hash"] = lambda: ((not (p + q) == (q + p)) or hash(p + q) == hash(q + p)) and \
                           ((not (p * q) == (q * p)) or hash(p * q) == hash(q * p))
    L["ne_not_eq"] = lambda: ((p != q) == (not (p == q))) and (((p + q) != (q + p)) == (not ((p + q) == (q + p))))
    out = OrderedDict()
    for name, f in L.items():
        try:
            out[name] = bool(f())
        except Exception as e:
            out[name] = "err:" + err_kind(e)
    return out


ZENTRIES = ("zhist", "pynum")


def impl(c):
    if c["entry"] == "hist":
        return H.impl(c)
    if c["entry"] in ZENTRIES:
        return Z0.impl(c)
    return _impl_plain(c)


def request(c):
    if c["entry"] in ZENTRIES:
        return Z0.request(c)
    return H.request(c) if c["entry"] == "hist" else c


def _impl_plain(c):
    e = c["entry"]
    if e == "expr":
        del _BR[:]
        try:
            p = _build(c["expr"])
        except Exception as ex:
            return {"err": err_kind(ex), "branches": list(_BR)}
        return dict(_observe(p, c.get("vs", []), c.get("ks", [])), branches=list(_BR))
    if e == "laws":
        try:
            L = _laws(c)
            return {"float": True} if L is None else {"laws": L}
        except Exception as ex:
            return {"err": err_kind(ex)}
    if e == "eq":
        try:
            p, q = _build(c["p"]), _build(c["q"])
            rebuilt = type(p)(OrderedDict(sorted(p.terms(sort=False), reverse=True)), zero=Z)
            return {"eq": bool(p == q), "ne": bool(p != q), "hash_equal": hash(p) == hash(q),
                    "hash_order_free": hash(p) == hash(rebuilt) and bool(p == rebuilt)}
        except Exception as ex:
            return {"err": err_kind(ex)}
    if e == "lagrange":
        from audiolazy import lagrange
        pts = [(dec(a), dec(b)) for a, b in c["pairs"]]
        at = [a for a, _ in pts] + [dec(k) for k in c.get("ks", [])]
        out = {}

        def func():
            f = lagrange.func(pts)
            return [enc(f(v)) for v in at]

        def poly():
            p = lagrange.poly(pts)
            return {"terms": _pairs(p.terms()), "items": _pairs(p.terms(sort=False)),
                    "at": [enc(p(v)) for v in at]}
        out["func"] = _try(func)
        out["poly"] = _try(poly)
        return out
    raise ValueError("unknown entry " + e)


# ----------------------------------------------------------------------------
# comparison
# ----------------------------------------------------------------------------
# the observables the property names; the creation order (`terms(sort=False)`, "items") is reported in the
# histograms only: the property is silent about it, so a refactor that changes it must not raise an alarm
MODEL_FIELDS = ("terms", "len", "is_polynomial", "order", "values", "getitem",
                "call_auto", "call_horner", "call_direct")


def _norm(j):
    """canonical JSON for comparison: numbers as Fractions -> strings"""
    if isinstance(j, bool) or j is None:
        return j
    if isinstance(j, (int, str)):
        try:
            return str(dec(j))
        except (ValueError, TypeError, ZeroDivisionError):
            return j
    if isinstance(j, list):
        return [_norm(x) for x in j]
    if isinstance(j, dict):
        return {k: _norm(v) for k, v in j.items()}
    return j


def _num_close(a, b, tol):
    try:
        return common.close(dec(a), dec(b), tol)
    except (TypeError, ValueError):
        return a == b


def _same(a, b, tol):
    """structural comparison of two JSON observations, numbers exact (tol=0) or within tol"""
    if tol == 0:
        return _norm(a) == _norm(b)
    if isinstance(a, list) and isinstance(b, list):
        return len(a) == len(b) and all(_same(x, y, tol) for x, y in zip(a, b))
    if isinstance(a, dict) and isinstance(b, dict):
        return a.keys() == b.keys() and all(_same(a[k], b[k], tol) for k in a)
    if isinstance(a, (list, dict)) or isinstance(b, (list, dict)) or a is None or b is None:
        return a == b
    return _num_close(a, b, tol)


def _prune(terms, tol):
    return terms if tol == 0 else [t for t in terms if abs(dec(t[1])) > 1e-12]


def compare(c, io, drv):
    if c["entry"] == "hist":
        return H.compare(c, io, drv)
    if c["entry"] in ZENTRIES:
        return Z0.compare(c, io, drv)
    out = _compare_plain(c, io, drv)
    if out and not io.get("isolated"):
        # a witness has to fail by itself: once more in a fresh process that has run nothing else
        io2 = H.isolated(c)
        if io2 is not None:
            out2 = _compare_plain(c, io2, drv)
            io.clear()
            io.update(io2)
            if not out2:
                io["only_after_earlier_cases"] = True
                # not a self-contained witness: reported as a broken correspondence, never as the failing input
                return [("model", "only after the earlier cases of this run (agrees when run alone in a fresh process: the "
                                  "library keeps state somewhere): " + d) for _, d in out]
            return out2
    return out


def _compare_plain(c, io, drv):
    out = []
    e = c["entry"]
    m, s = drv.get("model"), drv.get("spec")
    if e == "expr":
        if "err" in io:
            if not (isinstance(m, dict) and m.get("err") == io["err"]):
                out.append(("model", "impl raised %s, model gives %s" % (io["err"], json.dumps(m)[:200])))
            if s is not None:
                out.append(("spec", "impl raised %s where the ring value is %s" % (io["err"], json.dumps(s["terms"])[:200])))
            return out
        tol = 1e-9 if io["float"] else 0
        if "err" in m:
            out.append(("model", "model predicts %s, impl returned %s" % (m["err"], json.dumps(io["terms"])[:200])))
        else:
            fields = MODEL_FIELDS if tol == 0 else ("terms", "is_polynomial", "order", "getitem",
                                                    "call_auto", "call_horner", "call_direct")
            for f in fields:
                a, b = io[f], m[f]
                if f == "terms":
                    a, b = _prune(a, tol), _prune(b, tol)
                if not _same(a, b, tol):
                    out.append(("model", "%s: impl=%s model=%s" % (f, json.dumps(io[f])[:160], json.dumps(m[f])[:160])))
        if s is not None:
            if not _same(_prune(io["terms"], tol), _prune(s["terms"], tol), tol):
                out.append(("spec", "terms: impl=%s spec=%s" % (json.dumps(io["terms"])[:200], json.dumps(s["terms"])[:200])))
            elif (tol == 0 and io["len"] != s["len"]) or not _same(io["getitem"], s["getitem"], tol):
                out.append(("spec", "len/getitem differ from the spec"))
            for i, sv in enumerate(s["eval"]):
                if sv is None:
                    continue
                for f in ("call_auto", "call_horner", "call_direct"):
                    if not _same(io[f][i], sv, tol):
                        out.append(("spec", "%s at v=%s: impl=%s spec(sum c*v^k)=%s" % (f, c["vs"][i], io[f][i], sv)))
        return out
    if e == "laws":
        if "err" in io:
            if isinstance(m, dict) and m.get("err") == io["err"]:
                return []          # an operand of the law does not exist (both sides agree on the exception)
            return [("model", "impl raised %s, model: %s" % (io["err"], json.dumps(m)[:120]))]
        if io.get("float"):
            return []              # the impl left the exact regime (int/int division); laws are stated for exact numbers
        if "err" in m:
            return [("model", "model predicts %s" % m["err"])]
        for name, mv in m.items():
            iv = io["laws"].get(name)
            if mv is None:
                continue
            if iv != mv:
                out.append(("model", "law %s: impl=%r model=%r" % (name, iv, mv)))
            if iv is not True:
                out.append(("spec", "law %s fails on the impl: %r" % (name, iv)))
        return out
    if e == "eq":
        if "err" in io:
            return [("model", "impl raised " + io["err"]), ("spec", "impl raised " + io["err"])]
        if "err" in m:
            return [("model", "model predicts %s" % m["err"])]
        if io["eq"] != m["eq"] or io["ne"] != m["ne"]:
            out.append(("model", "eq/ne: impl=%r/%r model=%r/%r" % (io["eq"], io["ne"], m["eq"], m["ne"])))
        if m["hash_equal"] and not io["hash_equal"]:
            out.append(("model", "same set of items but different hashes"))
        if s is not None and io["eq"] != s["eq"]:
            out.append(("spec", "== is %r but the denoted Laurent polynomials are %s" % (io["eq"], "equal" if s["eq"] else "different")))
        if io["eq"] and not io["hash_equal"]:
            out.append(("spec", "p == q but hash(p) != hash(q)"))
        if io["ne"] == io["eq"]:
            out.append(("spec", "p != q is not the negation of p == q"))
        if not io["hash_order_free"]:
            out.append(("spec", "hash / == depend on the insertion order"))
        return out
    if e == "lagrange":
        # two code shapes are accepted: the code as it stands (prod = reduce(mul, args)) and the repair proposed
        # for D14 (reduce(mul, args, 1)); they are proved equal for >= 2 points (Props.C07.lagrange_fixed_eq)
        def same(iv, mv):
            if isinstance(iv, dict) and "err" in iv or isinstance(mv, dict) and "err" in mv:
                return iv == mv
            if isinstance(iv, dict):
                iv, mv = dict(iv, items=None), dict(mv, items=None)     # creation order: not compared
            return _norm(iv) == _norm(mv)
        mf = drv.get("model_fixed", m)
        for part in ("func", "poly"):
            if not (same(io[part], m[part]) or same(io[part], mf[part])):
                out.append(("model", "lagrange.%s: impl=%s model=%s" % (part, json.dumps(io[part])[:160], json.dumps(m[part])[:160])))
        if s is not None:
            n = len(c["pairs"])
            want = _norm(s["at_nodes"])
            f, p = io["func"], io["poly"]
            if isinstance(f, dict):
                out.append(("spec", "lagrange.func raised %s on %d point(s) with distinct abscissae" % (f["err"], n)))
            elif _norm(f[:n]) != want:
                out.append(("spec", "lagrange.func does not pass through its points: %s vs %s" % (f[:n], s["at_nodes"])))
            if "err" in p:
                out.append(("spec", "lagrange.poly raised %s on %d point(s) with distinct abscissae" % (p["err"], n)))
            else:
                if _norm(p["at"][:n]) != want:
                    out.append(("spec", "lagrange.poly does not pass through its points"))
                if p["terms"] and (p["terms"][0][0] < 0 or p["terms"][-1][0] > s["max_order"]):
                    out.append(("spec", "lagrange.poly has powers outside 0..n-1"))
                if not isinstance(f, dict) and _norm(p["at"]) != _norm(f):
                    out.append(("spec", "lagrange.poly and lagrange.func disagree"))
        return out
    return [("model", "unknown entry")]


def nontrivial(c, io):
    if c["entry"] == "hist":
        return H.nontrivial(c, io)
    if c["entry"] in ZENTRIES:
        return Z0.nontrivial(c, io)
    if "err" in io:
        return False
    e = c["entry"]
    if e == "expr":
        return io["len"] > 0
    if e == "lagrange":
        return not isinstance(io["func"], dict)
    return True


# ----------------------------------------------------------------------------
# histograms
# ----------------------------------------------------------------------------
def _ops(t, acc):
    acc.append(t[0])
    for s in _subtrees(t):
        _ops(s, acc)
    return acc


def _depth(t):
    return 1 + max([_depth(s) for s in _subtrees(t)] + [0])


def tally(eng, c, io):
    e = c["entry"]
    eng.count("entry", e)
    if c.get("big"):
        eng.count("big_case", (c["expr"][0] if e == "expr" else "lagrange, %d points" % len(c["pairs"])))
    if e == "hist":
        return H.tally(eng, c, io)
    if e in ZENTRIES:
        return Z0.tally(eng, c, io)
    eng.count("regime", "float (impl-injected, tol 1e-9)" if io.get("float") else "exact")
    if e == "expr":
        t = c["expr"]
        eng.count("top_op", t[0])
        for o in set(_ops(t, [])):
            eng.count("op_used", o)
        eng.count("depth", _depth(t))
        for b in io.get("branches", []):
            eng.count("code_branch", b)
        if "err" in io:
            eng.count("impl_error", t[0] + ":" + io["err"])
            return
        eng.count("result_terms", min(io["len"], 12))
        eng.count("result_kind", "empty" if io["len"] == 0 else ("polynomial" if io["is_polynomial"] else "laurent"))
        sorted_items = sorted(io["items"])
        eng.count("insertion_order", "sorted" if io["items"] == sorted_items else "unsorted")
        for v in c.get("vs", []):
            if io["len"] == 0:
                eng.count("call_branch", "empty")
            elif dec(v) == 0:
                eng.count("call_branch", "x=0 shortcut")
            else:
                eng.count("call_branch", "horner(auto)" if io["is_polynomial"] else "direct(auto)")
        ks = [k for k, _ in io["terms"]]
        if len(ks) >= 2:
            gaps = {b - a for a, b in zip(ks, ks[1:])}
            eng.count("horner_steps", "only unit steps" if gaps == {1} else "merged steps")
        if t[0] == "pow":
            eng.count("pow_branch", "n=0" if t[2] == 0 else ("n<0" if t[2] < 0 else "n>0"))
    elif e == "laws":
        if "laws" in io:
            for k, v in io["laws"].items():
                eng.count("law_" + k, v)
    elif e == "eq":
        if "eq" in io:
            eng.count("eq_outcome", "equal" if io["eq"] else "different")
            eng.count("eq_q_route", c["q"][0])
    elif e == "lagrange":
        eng.count("lagrange_points", len(c["pairs"]))
        f = io["func"]
        eng.count("lagrange_result", f["err"] if isinstance(f, dict) else "values")


# ----------------------------------------------------------------------------
# shrinking / neighbours / classification
# ----------------------------------------------------------------------------
def _subtrees(t):
    for s in t[1:]:
        if isinstance(s, list) and s and isinstance(s[0], str) and s[0] in _ALLOPS:
            yield s


_ALLOPS = set(("dict", "list", "const", "empty", "x", "div", "pow", "comp", "diff", "integ", "setitem") + UN + BIN + SCAL)


def _shrink_tree(t):
    """smaller variants of a tree"""
    op = t[0]
    for s in _subtrees(t):
        yield s
    if op == "dict":
        ps = t[1]
        for i in range(len(ps)):
            yield ["dict", ps[:i] + ps[i + 1:]]
        for i, (k, cf) in enumerate(ps):
            if cf != 1:
                yield ["dict", ps[:i] + [[k, 1]] + ps[i + 1:]]
            if abs(k) > 1:
                yield ["dict", ps[:i] + [[k - (1 if k > 0 else -1), cf]] + ps[i + 1:]]
    elif op == "list":
        if t[1]:
            yield ["list", t[1][:-1]]
            yield ["list", t[1][1:]]
    elif op == "pow" and abs(t[2]) > 1:
        yield ["pow", t[1], t[2] - (1 if t[2] > 0 else -1)]
    elif op == "diff" and t[2] > 1:
        yield ["diff", t[1], t[2] - 1]
    # recurse into children
    for i in range(1, len(t)):
        s = t[i]
        if isinstance(s, list) and s and isinstance(s[0], str) and s[0] in _ALLOPS:
            for s2 in _shrink_tree(s):
                yield t[:i] + [s2] + t[i + 1:]


def shrink(c):
    e = c["entry"]
    if e in ZENTRIES:
        for c2 in Z0.shrink(c):
            yield c2
        return
    if e == "hist":
        n = 0
        for c2 in H.shrink(c):
            if H.valid(c2):
                yield c2
                n += 1
                if n >= 200:
                    return
        return
    if e == "expr":
        n = 0
        for t in _shrink_tree(c["expr"]):
            yield dict(c, expr=t)
            n += 1
            if n > 150:
                break
        vs = c.get("vs", [])
        for i in range(len(vs)):
            yield dict(c, vs=vs[:i] + vs[i + 1:])
        if c.get("ks"):
            yield dict(c, ks=[])
    elif e in ("laws", "eq"):
        for name in ("p", "q", "r"):
            if name in c:
                n = 0
                for t in _shrink_tree(c[name]):
                    yield dict(c, **{name: t})
                    n += 1
                    if n > 50:
                        break
        if e == "laws":
            if c["n"] > 0:
                yield dict(c, n=c["n"] - 1)
            if c["c"] != 1:
                yield dict(c, c=1)
            if c["v"] not in (1, 2):
                yield dict(c, v=2)
    elif e == "lagrange":
        ps = c["pairs"]
        if len(ps) > 2:       # never shrink into the single-point case: that is a different (known) failure
            for i in range(len(ps)):
                yield dict(c, pairs=ps[:i] + ps[i + 1:])
        if c.get("ks"):
            yield dict(c, ks=c["ks"][:-1])
        for i, (a, b) in enumerate(ps):
            if b != 1:
                yield dict(c, pairs=ps[:i] + [[a, 1]] + ps[i + 1:])


def neighbours(c):
    e = c["entry"]
    if e == "expr":
        t = c["expr"]
        for v in ([0, 1, 2, "1/2", -1],):
            yield dict(c, vs=v)
        for s in _subtrees(t):
            yield dict(c, expr=s)
        for op in BIN + ("div", "comp"):
            subs = list(_subtrees(t))
            if len(subs) >= 2:
                yield dict(c, expr=[op, subs[0], subs[1]])
    elif e == "laws":
        for v in (0, 1, 2, "1/2", -1):
            yield dict(c, v=v)
        for n in range(0, 5):
            yield dict(c, n=n)
        yield dict(c, p=c["q"], q=c["p"])
    elif e == "lagrange":
        ps = c["pairs"]
        for i in range(len(ps)):
            yield dict(c, pairs=ps[:i] + ps[i + 1:])
        yield dict(c, pairs=ps + [[17, 1]])


def classify(c, io, drv):
    e = c["entry"]
    if e == "hist":
        return H.classify(c, io, drv)
    if e in ZENTRIES:
        return Z0.classify(c, io, drv)
    if io.get("only_after_earlier_cases"):
        return e + ":only-after-earlier-cases"
    if e == "lagrange":
        n = len(c["pairs"])
        f = io.get("func")
        kind = f["err"] if isinstance(f, dict) and "err" in f else "values"
        npt = "single-point" if n == 1 else ("no-point" if n == 0 else "points>=2")
        return "lagrange:%s:%s" % (npt, kind)
    if e == "expr":
        what = ("raises:" + io["err"]) if "err" in io else "value"
        return "expr:%s:%s" % (c["expr"][0], what)
    if e == "laws":
        bad = sorted(k for k, v in io.get("laws", {}).items() if v is not True and
                     (drv.get("model") or {}).get(k, True) is not None)
        return "laws:" + ",".join(bad[:3]) if bad else "laws:" + io.get("err", "model-only")
    if e == "eq":
        return "eq-hash"
    return "unclassified"


# ----------------------------------------------------------------------------
# translator: method bodies of lazy_poly.py -> lean/ALV/Gen/C07Src.lean (props/c07_tr.py)
# ----------------------------------------------------------------------------
def regenerate(eng=None):
    return TR.regenerate(eng)


def extra_checks(eng):
    ok, detail, report = TR.selftest()
    eng.extra["translated"] = {
        "translator": "harness/props/c07_tr.py -> lean/ALV/Gen/C07Src.lean (shallow: Lean definitions over ZPoly / PyNum / PyVal)",
        "under_translator": TR.TRANSLATED,
        "theorems": TR.THEOREMS,
        "not_translated": TR.NOT_TRANSLATED,
        "selftest": report,
    }
    return [("translator-selftest", ok, detail)]


H._IMPL_OTHER.update({"zhist": Z0.impl, "pynum": Z0.impl, "expr": _impl_plain, "laws": _impl_plain, "eq": _impl_plain, "lagrange": _impl_plain})
