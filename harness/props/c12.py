"""C12 — freq_response / cascade / parallel / dft / FIR time domain / histories of mutable banks / the CALL.

The call (entries "call", "dftcall"): `freq_response` is `@elementwise("freq", 1)` around a raw method.  A case is
a target (filter of any class, cascade / parallel bank, nested), a list of positional and a dict of keyword
arguments (call through the bound method or through the class, `self` possibly by keyword) holding frequency
objects of 33 python kinds (number spellings, None, str, list/tuple/deque and subclasses, set/frozenset, generator,
map, filter, range, enumerate, zip, zip_longest, Stream, Stream subclass, thub, chain, dict, bytes, bytearray,
list_iterator, tuple_iterator, dict_keys, dict_values, reversed), some elements not numbers.  The impl reports the
exception of the call, or the scalar, or the eager container (its type must be the type of the frequency object the
wrapper looked at), or — for a lazy result — what `reads` successive next() show (value / exception / StopIteration).
The Lean side runs the wrapper model (`freqCall`: dispatch, replaced argument, python's binding in every element
call) and the specification (`freqCallSpecFull`); Props.C12.freq_call_model_eq_spec proves them equal for all calls.
`dft` is called with every split of (blk, freqs, normalize) into positional / keyword arguments, `normalize`
omitted or spelled True/False/1/0/None/"yes"/""/2.5/0.0/[], blocks with and without len().

Tie (float regime): the impl computes with Python complex floats, the Lean model with exact
Gaussian rationals.  The comparison is driven from the exact side: points w = e^{-j omega} on the
unit circle with rational coordinates (w = ((1-t^2) - 2t i)/(1+t^2), t rational: all Pythagorean
points, plus 1, -1, -i, i), omega = atan2(-Im w, Re w) as a float, impl called at omega, result
compared with the exact value under 1e-9*(1+|H|); cases whose a-priori rounding bound exceeds
2e-10 (small denominator / large coefficients) are regenerated, and a case reaching compare() with
such a bound is not compared (counted as ill-conditioned).  The impulse responses and int-valued
FIR runs are compared exactly.

Histories (entry "hist"): CascadeFilter / ParallelFilter are python lists.  A case is a small heap of
objects (banks first, then filters; a bank's members are references, the same object may sit in
several banks or twice in one) and 2..8 (thorough ..12) steps: list operations on one of the banks
(setitem, append, insert, extend, +=, *=, pop, del, slice assignment / deletion, reverse, clear,
swap; a few with an index out of range) interleaved with at least two uses (freq_response through
a container at frequencies shared between the uses, numpoly/denpoly evaluated at such points,
is_lti(), calling the bank on a signal).  The impl runs the steps on the real objects and reports,
per step, the identity of the members of the changed list resp. the values of the use; the Lean
side runs the list semantics on the heap and answers every use for the snapshot of the bank at
that moment (model = Bank.resp / the FIR loop, spec = Bank.spec / convolution).  EVERY step is
compared.
"""
import json
import math
from collections import deque
from fractions import Fraction as F
from itertools import product
import types

import common
from common import enc, dec, err_kind
from props import c12_tr

ID = "C12"
RULE = ("[translator: before the build the bodies / decorators / signatures of the four anchored functions are re-read from "
        "the source under test and lean/ALV/Gen/C12Src.lean is rewritten; the entries freq / bank / dft also return the value "
        "of the regenerated definitions] filters ZFilter/LinearFilter(b, a) and z-expressions with small int / dyadic / Fraction / Gaussian-int "
        "coefficients (orders 0..6 quick, ..10 thorough, incl. zero, leading-zero and gap coefficients), filters given "
        "as {delay: coeff} dicts (sparse, unordered, non-causal), probed at rational points of the unit circle "
        "(omega = atan2 float, optionally wrapped to [0, 2pi)) incl. 0, pi, +-pi/2, through every frequency container "
        "kind; flat cascade/parallel banks of 0..4 filters and nested bank trees (depth <= 2 quick, 3 thorough, raw "
        "list members, both constructor forms); dft of int/Fraction/complex blocks; FIR runs of impulses, int signals "
        "and complex exponentials; an exhaustive grid of all b, a in {-1,0,1,2}^(<=2); histories of 2..8 (thorough ..12) "
        "steps over a heap of 1..3 (nested, shared) banks and 2..5 filters: in-place list operations (13 kinds, on the "
        "root or through an inner reference) interleaved with >= 2 uses (freq_response / numpoly,denpoly / is_lti / "
        "call), at least one list operation between the first and the last use, frequencies shared between the uses, "
        "every step compared; CALLS: 14 call shapes of freq_response (frequency by position / by keyword, through the "
        "method or the class, self by keyword, keyword order, stray keyword, frequency twice, extra positional, "
        "nothing, wrong keyword, self missing) x 33 kinds of frequency object (sizes 0..4, non-numbers among the "
        "elements) x filter classes / cascade / parallel / nested targets, lazy results read len+2 times; dft with every "
        "positional/keyword split, 11 spellings of normalize incl. omitted, 9 block kinds (5 with len(), 4 read-once), "
        "10 kinds of frequency object, unbindable calls; POLES: ZFilter(b, (1 - r z^-1) q), r = +-1, small int "
        "coefficients, q bounded away from zero, probed at 17 float frequencies whose exact point is the pole or next "
        "to it (0, -0.0, int 0, +-pi, 2pi .. 7pi, 1e-13, -2^-45, 1e-20, 1e-100, +-pi/2): nan (the float nan, not a complex "
        "nan) exactly at omega = 0, a large finite value everywhere else, compared with the exact value at the exact "
        "binary64 point cexp(-1j*omega); dft(c*x + y) against c*dft(x) + dft(y) for all frequencies / both modes; every "
        "FIR / exponential run also against the C04 specification (fspec).  Non-trivial = the impl returned "
        "at least one finite non-zero value, a predicted nan or a predicted exception; distinct = distinct JSON case")
TRUSTED = [
    "source translator harness/props/c12_tr.py (ast -> lean/ALV/Gen/C12Src.lean, rewritten before every build; "
    "Props.C12.src_*_is_model prove each regenerated definition equal to the hand-written model function).  It trusts: "
    "the semantics it assumes for its Python subset (straight-line `name = expr`, `if / else`, `return`; generator "
    "expressions and list comprehensions as maps in iteration order; `sum` as the left fold from 0 over enumerate; "
    "`reduce(operator.mul | add, G)` as ALV.C12.reduceResp, i.e. the hand model of * / + on responses with nan absorbing "
    "and exceptions propagating; `[v / d for v in data]` raising ZeroDivisionError at the first element iff d = 0) and its "
    "vocabulary mapping (`complex_exp` / `cexp` of a product of one imaginary literal, at most one index and one frequency "
    "-> X.cis s n f; `self.numpoly(e)` / `self.denpoly(e)` -> the hand model evalPoly of Poly.__call__; `not isinstance(den, "
    "Stream)` taken as true = number regime; `return nan` -> none; `filt.freq_response(freq)` -> the member's own response; "
    "`self.callables` -> the member list; `@elementwise(name, pos)` -> the hand model ALV.C12.wrapper applied to python's "
    "binding of the parameter list read from the source); module-level bindings of that vocabulary (cmath.exp, "
    "functools.reduce, operator, lazy_math.cexp = elementwise(\"x\", 0)(cmath.exp), lazy_math.nan = float(\"nan\")) are "
    "checked in the source, names re-bound inside a translated function are a TranslationError.  Cross-checked on every "
    "run: the driver also RUNS the regenerated definitions (payload `gen` of the entries freq / bank / dft) and the "
    "harness compares them with the impl like the model; the translator self test (10 edited copies of the source text "
    "must change the translation or fail to translate, 2 layout-only edits must not, the unchanged text must reproduce "
    "the committed file byte for byte)",
    "the call: hand-written Lean model ALV/Model/C12Call.lean of lazy_misc.elementwise's wrapper (decorator default, "
    "positional test, kwargs[name], Iterable / STR_TYPES / SOME_GEN_TYPES / Stream tests, replaced argument, "
    "type(arg)(data)), of python's binding of (self, freq) resp. (blk, freqs, normalize=True), of generator "
    "expressions (a generator that raised is finished) — the classification python kind -> model Kind "
    "(harness PYKINDS) and `truthiness of the normalize object` are computed by the harness",
    "histories: hand-written Lean model of python's list operations on a heap of banks (pyIndex / pyClamp / slice "
    "bounds; `bank *= k` binds a NEW bank because FilterList defines __mul__) — validated step by step against the "
    "identity of the members of the real lists; uses are answered on the snapshot (Bank.resp / FIR loop)",
    "hand-written Lean model ALV/Model/C12.lean of LinearFilter.__init__/freq_response, Poly.__call__ (number argument), "
    "Cascade/ParallelFilter.freq_response, dft and the FIR instance of the generated filter loop (modelled, not verified)",
    "mapping omega <-> w = exp(-j omega) of the probe points is computed by the harness (math.atan2, float); "
    "Props.C12.unit_point_is_exp proves that every unit-modulus point is exp(-i omega) for omega = -arg w",
    "float regime: impl values are compared with the exact Gaussian-rational value under 1e-9*(1+|expected|); "
    "cmath.exp / complex arithmetic rounding is bounded a priori per case, not modelled",
    "poles: the point handed to the driver is the exact rational value of the binary64 number cmath.exp(-1j*omega), "
    "computed by the harness with the same expression as lazy_filters.py:303; for small int coefficients the float "
    "evaluation next to a pole is exact up to relative rounding (measured <= 2.3e-12 relative over 18 000 random "
    "filters), so the model's exact value at that point is what the code must return",
]
ASSUMPTIONS = [
    "histories: numpoly/denpoly are compared (as the ratio at the probe points) only where the pair is defined and "
    "consistent: cascades, and parallel banks of plain filters of which at most one has a denominator other than 1 "
    "(ParallelFilter.numpoly/denpoly of equal denominators is the inconsistent pair recorded under C05); calling a "
    "bank is compared where every leaf is FIR with int/dyadic coefficients (exact); heaps are acyclic",
    "denominator bounded away from zero at the probed frequency (a-priori rounding bound <= 2e-10), except the exact "
    "nan case: denominator exactly zero at omega = 0 (w = 1 is the only point of the circle that floats hit exactly) "
    "and the entry `pole` (first-order factor 1 -+ z^-1 times a well-conditioned q, int coefficients): at fl(pi), "
    "fl(2 pi), ... and tiny omega the code evaluates NEXT to the pole and returns a value ~1e13..1e100, never nan; "
    "omega below ~1e-300 overflows to inf (float range, not modelled)",
    "frequency containers: scalar, list, tuple, deque, set, frozenset, Stream (finite and endless), generator, map, range; "
    "list_iterator / dict_keys / reversed (TypeError always), dict / bytes (TypeError unless empty) and str (not "
    "iterated) are modelled as what elementwise does today",
    "the call: a container handed to a BANK as one element (nested containers) and the filter object itself as a "
    "frequency are outside the model (`unmodelled`, never generated); numpy arrays are not available here.  Observed "
    "on /repo (round 4, not modelled): bank.freq_response([[w1, w2]]) hands the inner list to every member, then "
    "reduces the members' LISTS with * / +: cascade of >= 2 members -> TypeError (list * list), parallel -> the "
    "CONCATENATION of the members' response lists (tuple / deque alike; Stream members add / multiply element by "
    "element; generators and sets -> TypeError); a single-member bank returns the member's list.  A filter object as "
    "the frequency is Iterable (LinearFilter.__iter__), so the wrapper builds type(arg)(data) = a new ZFilter.  A filter "
    "with Stream coefficients does not raise: freq_response returns the Stream of the instantaneous transfer "
    "functions (the nan test is skipped for a Stream denominator); a bank member that is a plain callable raises "
    "AttributeError (no freq_response) at the first element computation (an EMPTY eager container still comes back "
    "empty); a source iterator that raises mid-iteration behaves like an element computation that raises: lazy "
    "results show the items, that exception once, then StopIteration; eager containers and dft let it through",
]

MANIFEST = {
    "technique": ("Lean 4 proof about an executable model + SOURCE TRANSLATOR for the anchored function bodies "
                  "(harness/props/c12_tr.py regenerates lean/ALV/Gen/C12Src.lean from lazy_filters.py / lazy_analysis.py "
                  "with ast on every run; src_*_is_model theorems re-prove regenerated definition = model) + differential "
                  "correspondence in the float regime for everything, incl. the regenerated definitions"),
    "text": ("Lean 4 theorems (70, no sorry/axiom).  The bodies of LinearFilter.freq_response, CascadeFilter.freq_response, "
             "ParallelFilter.freq_response and dft, the @elementwise(\"freq\", 1) decorators with the parameter lists, and "
             "dft's signature / default are REGENERATED from the source on every run (translator c12_tr.py -> "
             "Gen/C12Src.lean) and proved equal to the model functions (src_linear_freq_response_is_model, "
             "src_cascade_/src_parallel_freq_response_is_model, src_dft_is_model, src_freq_response_call_is_model, "
             "src_dft_signature_is_model; src_complex restates clause 1 and the dft sum for the regenerated bodies over C); "
             "Poly.__call__, LinearFilter.__init__, the elementwise wrapper itself and the list semantics of banks stay "
             "hand-written.  The theorems are about a hand-written executable model of freq_response "
             "(LinearFilter.__init__ normalisation, Poly.__call__ paths, nan test), Cascade/Parallel banks to any "
             "nesting depth, dft and the FIR instance of the generated filter loop: transfer function in every field "
             "and over C at w = exp(-j omega), cascade = product, parallel = sum — for the bank as it is NOW after any "
             "history of in-place list operations and uses on a heap of nested / shared banks (uses are pure and "
             "depend only on the snapshot) —, FIR loop = convolution, "
             "DFT(impulse response) = freq_response, steady state / transient of complex exponentials, dft sum / "
             "linearity / DC mean, and the cast Q[i] -> C of the executable evaluator; the CALL: the elementwise wrapper "
             "with python's argument binding equals, for every list of positional and dict of keyword arguments, the "
             "per-element broadcast over the object bound to freq (scalar -> scalar, list/tuple/deque/set -> same "
             "kind, generator/Stream/chain -> lazy, read semantics with exceptions mid-stream; unbindable calls -> "
             "TypeError per element, KeyError without frequency object), dft's default / truthiness / read-once "
             "blocks / binding; nan IFF the denominator vanishes (never another exception), the poles at omega = 0 / pi "
             "exactly and next to them, the dict form of the specification = the dense one, the FIR run = C04's "
             "specification of the filter call (steady state and DFT of the impulse response stated on C04's run, over "
             "Q[i] at Pythagorean points read in C), dft as coded linear for all blocks; tied to /repo by a differential "
             "correspondence in the float regime (exact Gaussian-rational value vs impl float, a-priori rounding bound)"),
    "note": ("Trusted: Lean kernel, axioms propext/Classical.choice/Quot.sound, the Python correspondence harness "
             "(incl. the omega <-> w mapping by atan2 and the tolerance rule 1e-9*(1+|expected|) with a per-case "
             "a-priori rounding bound <= 2e-10); IEEE-754 / cmath rounding is not modelled; the four anchored function "
             "bodies are translated from the source on every run (trusting the translator's Python-subset semantics and "
             "vocabulary mapping, see TRUSTED), the rest of the model (Poly.__call__, the constructor, the elementwise "
             "wrapper, list operations) is hand written and validated against the code differentially."),
}

TOL = 1e-9
BOUND = 2e-10
N_HIST_QUICK = 2000
N_HIST_THOROUGH = 16000


# ----------------------------------------------------------------------------
# exact Gaussian rationals on the harness side (generation-time conditioning only)
# ----------------------------------------------------------------------------
def gmul(x, y):
    return (x[0] * y[0] - x[1] * y[1], x[0] * y[1] + x[1] * y[0])


def gadd(x, y):
    return (x[0] + y[0], x[1] + y[1])


def gpoly(c, w):
    acc, p = (F(0), F(0)), (F(1), F(0))
    for ck in c:
        acc = gadd(acc, gmul(ck, p))
        p = gmul(p, w)
    return acc


def gabs(x):
    return math.hypot(float(x[0]), float(x[1]))


def gterms(ts, w):
    """sum of c * w^k over (k, c) terms, k in Z, |w| = 1 (so w^-1 = conj w)"""
    wc = (w[0], -w[1])
    acc = (F(0), F(0))
    for k, c in ts:
        p = (F(1), F(0))
        base = w if k >= 0 else wc
        for _ in range(abs(k)):
            p = gmul(p, base)
        acc = gadd(acc, gmul(c, p))
    return acc


def filt_terms(f):
    """(num terms, den terms) of a filter description (dense lists b/a or dict entries bt/at)"""
    if "bt" in f:
        return ([(k, gdec(c)) for k, c in f["bt"]], [(k, gdec(c)) for k, c in f["at"]])
    return (list(enumerate(gdec(c) for c in f["b"])), list(enumerate(gdec(c) for c in f["a"])))


def gdec(j):
    """JSON coefficient -> Gaussian rational pair"""
    if isinstance(j, list):
        return (dec(j[0]), dec(j[1]))
    return (dec(j), F(0))


def genc(x):
    return [enc(x[0]), enc(x[1])]


def gdiv(x, y):
    n = y[0] * y[0] + y[1] * y[1]
    return gmul(x, (y[0] / n, -y[1] / n))


def abs_bound(b, a, w):
    """(H exact, a-priori bound of the float error of num(w)/den(w)); None = exact pole.
    b, a are (power, coefficient) term lists.  Each polynomial value carries at most
    1e-15*n*sum|c_k| (Horner / power sums in complex floats plus the rounding of exp and of
    atan2), the quotient (E_b + |H| E_a)/|D|."""
    pows = [k for k, _ in b] + [k for k, _ in a] + [0]
    n = max(pows) - min(pows) + 2
    D = gterms(a, w)
    if D == (0, 0):
        return None
    N = gterms(b, w)
    Dm = gabs(D)
    Sb = sum(gabs(c) for _, c in b)
    Sa = sum(gabs(c) for _, c in a)
    H = gdiv(N, D)
    Hm = gabs(H)
    return H, 1e-15 * n * (Sb + Hm * Sa) / Dm + 1e-15 * Hm


# ----------------------------------------------------------------------------
# points
# ----------------------------------------------------------------------------
SPECIAL = {"0": (F(1), F(0)), "pi": (F(-1), F(0)), "pi/2": (F(0), F(-1)), "-pi/2": (F(0), F(1))}


def point_from_t(m, n):
    t = F(m, n)
    d = 1 + t * t
    return ((1 - t * t) / d, -2 * t / d)


def rand_point(rng, big=False):
    r = rng.random()
    if r < 0.12:
        return SPECIAL[rng.choice(list(SPECIAL))]
    q = rng.randint(1, 40 if big else 9)
    p = rng.randint(-4 * q, 4 * q)
    return point_from_t(p, q)


def omega_of(w, wrap):
    """float frequency with exp(-1j*omega) ~ w"""
    om = math.atan2(-float(w[1]), float(w[0]))
    if om == 0:
        om = 0.0
    if wrap and om < 0:
        om += 2 * math.pi
    return om


# ----------------------------------------------------------------------------
# coefficients
# ----------------------------------------------------------------------------
def rand_coeff(rng, ctype):
    if rng.random() < 0.18:
        return 0
    if ctype == "int":
        return rng.choice([1, -1, 1, -1, 2, -2, 3, -3, 4, 5, -5])
    if ctype == "dyadic":
        return enc(F(rng.randint(-20, 20), rng.choice([1, 2, 4, 8])))
    if ctype == "frac":
        return enc(F(rng.randint(-9, 9), rng.randint(1, 7)))
    if ctype == "gauss":
        return [rng.randint(-3, 3), rng.randint(-3, 3)]
    raise ValueError(ctype)


def rand_coeffs(rng, ctype, maxlen, minlen=0):
    n = rng.randint(minlen, maxlen)
    return [rand_coeff(rng, ctype) for _ in range(n)]


def rand_den(rng, ctype, maxlen):
    r = rng.random()
    if r < 0.35:
        return [1]
    a = rand_coeffs(rng, ctype, maxlen, 1)
    if r < 0.75 and a[0] in (0, [0, 0]):
        a[0] = rng.choice([1, 1, -1, 2])
    return a


def py_coeff(j, ctype):
    """JSON coefficient -> the Python number handed to ZFilter"""
    if isinstance(j, list):
        return complex(j[0], j[1])
    v = dec(j)
    if ctype == "int":
        return int(v)
    if ctype == "dyadic":
        return float(v) if v.denominator != 1 else int(v)
    return v if v.denominator != 1 else int(v)


KINDS = ["scalar", "list", "tuple", "deque", "set", "frozenset", "stream", "stream_cycle", "gen", "map", "range"]
RESULT_KIND = {"scalar": "scalar", "list": "list", "tuple": "tuple", "deque": "deque", "set": "set",
               "frozenset": "frozenset", "stream": "Stream", "stream_cycle": "Stream", "gen": "generator",
               "map": "generator", "range": "generator"}


def well_conditioned(filters, pts, bkind="cascade"):
    """every member filter is either an exact pole at w = 1 (nan) or the a-priori rounding bound
    of the whole (product / sum) response is below BOUND*(1+|response|)"""
    fs = []
    for f in filters:
        b, a = filt_terms(f)
        if all(c == (0, 0) for _, c in a):
            return True                 # ValueError case: nothing numeric is compared
        fs.append((b, a, f.get("ctype", "int") in ("int", "dyadic", "gauss")))
    for w in pts:
        hs = []
        nan = False
        for b, a, exact in fs:
            r = abs_bound(b, a, w)
            if r is None:
                # an exact pole is hit by the floats only at w = 1 with exactly summable coefficients
                if w != (F(1), F(0)) or not exact:
                    return False
                nan = True
            else:
                hs.append(r)
        if nan or not hs:
            continue
        if bkind == "cascade":
            tot = (F(1), F(0))
            for h, _ in hs:
                tot = gmul(tot, h)
            err = 0.0
            for i, (h, e) in enumerate(hs):
                t = e
                for j, (h2, e2) in enumerate(hs):
                    if j != i:
                        t *= gabs(h2) + e2
                err += t
        else:
            tot = (F(0), F(0))
            for h, _ in hs:
                tot = gadd(tot, h)
            err = sum(e for _, e in hs) + 1e-15 * sum(gabs(h) for h, _ in hs)
        if err > BOUND * (1 + gabs(tot)):
            return False
    return True


def tree_eval(node, w):
    """exact response and a-priori float error bound of a nested bank at w:
    ("val", H, err) | ("nan",) | ("bad",) | ("none",)  (none: exception, nothing numeric)"""
    key = "cascade" if "cascade" in node else ("parallel" if "parallel" in node else None)
    if key is None:
        b, a = filt_terms(node)
        if all(c == (0, 0) for _, c in a):
            return ("none",)
        r = abs_bound(b, a, w)
        if r is None:
            exact = node.get("ctype", "int") in ("int", "dyadic", "gauss")
            return ("nan",) if (w == (F(1), F(0)) and exact) else ("bad",)
        return ("val", r[0], r[1])
    rs = [tree_eval(m, w) for m in node[key]]
    if not rs or any(r[0] == "none" for r in rs):
        return ("none",)
    if any(r[0] == "bad" for r in rs):
        return ("bad",)
    if any(r[0] == "nan" for r in rs):
        return ("nan",)
    if key == "cascade":
        tot = (F(1), F(0))
        for r in rs:
            tot = gmul(tot, r[1])
        err = 0.0
        for i, r in enumerate(rs):
            t = r[2]
            for j, r2 in enumerate(rs):
                if j != i:
                    t *= gabs(r2[1]) + r2[2]
            err += t
        err += 1e-15 * len(rs) * gabs(tot)
    else:
        tot = (F(0), F(0))
        for r in rs:
            tot = gadd(tot, r[1])
        err = sum(r[2] for r in rs) + 1e-15 * sum(gabs(r[1]) for r in rs)
    return ("val", tot, err)


def tree_ok(tree, pts):
    for w in pts:
        r = tree_eval(tree, w)
        if r[0] == "bad":
            return False
        if r[0] == "val" and r[2] > BOUND * (1 + gabs(r[1])):
            return False
    return True


def gen_tree_node(rng, maxlen, depth):
    if depth == 0 or rng.random() < 0.35:
        f = gen_filter(rng, min(maxlen, 5))
        if f["a"] == [1] and rng.random() < 0.3:
            f["raw"] = True
        return f
    key = rng.choice(["cascade", "parallel"])
    n = rng.choice([0, 1, 2, 2, 3]) if depth == 1 and rng.random() < 0.1 else rng.choice([1, 2, 2, 3])
    node = {key: [gen_tree_node(rng, maxlen, depth - 1) for _ in range(n)],
            "form": rng.choice(["star", "list"])}
    ms = node[key]
    if node["form"] == "star" and len(ms) == 1 and ms[0].get("raw"):
        node["form"] = "list"       # Cascade([1, 2]) would mean the two gains 1 and 2
    return node


def gen_tree(rng, maxlen, big):
    for _ in range(200):
        key = rng.choice(["cascade", "parallel"])
        n = rng.choice([1, 2, 2, 3])
        tree = {key: [gen_tree_node(rng, maxlen, 2 if big else 1) for _ in range(n)],
                "form": rng.choice(["star", "list"])}
        ms = tree[key]
        if tree["form"] == "star" and len(ms) == 1 and ms[0].get("raw"):
            tree["form"] = "list"
        kind = rng.choice(["scalar", "list", "tuple", "gen", "stream"])
        pts = pick_points(rng, kind, big)
        if not tree_ok(tree, pts):
            continue
        return {"entry": "tree", "tree": tree, "kind": kind, "pts": [genc(w) for w in pts],
                "wrap": rng.random() < 0.5, "by": rng.choice(["pos", "pos", "kw"])}
    return None


def build_tree(node):
    from audiolazy import CascadeFilter, ParallelFilter
    key = "cascade" if "cascade" in node else ("parallel" if "parallel" in node else None)
    if key is None:
        if node.get("raw"):
            return [py_coeff(x, node.get("ctype", "int")) for x in node["b"]]
        return mk_filter(node)
    members = [build_tree(m) for m in node[key]]
    cls = CascadeFilter if key == "cascade" else ParallelFilter
    return cls(members) if node.get("form") == "list" else cls(*members)


def tree_depth(node):
    key = "cascade" if "cascade" in node else ("parallel" if "parallel" in node else None)
    if key is None:
        return 0
    return 1 + max([tree_depth(m) for m in node[key]] + [0])


def pick_points(rng, kind, big):
    if kind == "scalar":
        return [rand_point(rng, big)]
    if kind == "range":
        return [SPECIAL["0"]]          # range(1) = [0]
    n = rng.randint(0, 5) if rng.random() < 0.9 else rng.randint(6, 12)
    if kind == "stream_cycle":
        n = max(n, 1)
    pts = [rand_point(rng, big) for _ in range(n)]
    if kind in ("set", "frozenset"):
        pts = sorted(set(pts))
    return pts


def gen_filter(rng, maxlen, ctype=None, pole0=False):
    ctype = ctype or rng.choice(["int", "int", "dyadic", "frac", "gauss"])
    b = rand_coeffs(rng, ctype, maxlen)
    a = rand_den(rng, ctype, maxlen)
    if pole0 and ctype in ("int", "dyadic") and len(a) >= 2:
        # make the denominator vanish exactly at w = 1 (omega = 0): sum of coefficients = 0
        s = sum(dec(c) for c in a[1:])
        a[0] = enc(-s)
    return {"b": b, "a": a, "ctype": ctype}


def gen_freq(rng, maxlen, big):
    for _ in range(200):
        kind = rng.choice(KINDS)
        pole0 = rng.random() < 0.12
        f = gen_filter(rng, maxlen, pole0=pole0)
        pts = pick_points(rng, kind, big)
        if pole0 and kind not in ("range", "set", "frozenset") and rng.random() < 0.7:
            if kind == "scalar":
                pts = [SPECIAL["0"]]
            else:
                pts.insert(rng.randint(0, len(pts)), SPECIAL["0"])
        if not well_conditioned([f], pts):
            continue
        cls = rng.choice(["ZFilter", "ZFilter", "LinearFilter", "zexpr"])
        if cls == "zexpr" and (not f["b"] or all(gdec(x) == (0, 0) for x in f["a"])):
            cls = "ZFilter"
        return {"entry": "freq", "b": f["b"], "a": f["a"], "ctype": f["ctype"], "kind": kind,
                "pts": [genc(w) for w in pts], "wrap": rng.random() < 0.5, "cls": cls,
                "by": rng.choice(["pos", "pos", "kw"])}
    return None


def gen_freqd(rng, maxlen, big):
    """filters given as {delay: coeff} dicts: sparse, unordered, delays in -3..maxlen"""
    for _ in range(200):
        kind = rng.choice(KINDS)
        ctype = rng.choice(["int", "int", "dyadic", "frac", "gauss"])
        def terms(minn):
            ks = rng.sample(range(-3, maxlen), rng.randint(minn, min(5, maxlen)))
            return [[k, rand_coeff(rng, ctype)] for k in ks]
        bt = terms(0)
        at = terms(1) if rng.random() < 0.7 else [[rng.choice([0, 0, 1, -1, 2]), rng.choice([1, 2, -1])]]
        pts = pick_points(rng, kind, big)
        f = {"bt": bt, "at": at, "ctype": ctype}
        if not well_conditioned([f], pts):
            continue
        return {"entry": "freqd", "bt": bt, "at": at, "ctype": ctype, "kind": kind,
                "pts": [genc(w) for w in pts], "wrap": rng.random() < 0.5, "by": rng.choice(["pos", "pos", "kw"])}
    return None


def gen_bank(rng, maxlen, big):
    for _ in range(200):
        kind = rng.choice(["scalar", "list", "tuple", "gen", "stream", "deque"])
        nb = rng.choice([1, 2, 2, 3, 4])
        bkind = rng.choice(["cascade", "parallel"])
        pole0 = rng.random() < 0.1
        bank = [gen_filter(rng, maxlen, pole0=(pole0 and i == 0)) for i in range(nb)]
        pts = pick_points(rng, kind, big)
        if pole0 and rng.random() < 0.7:
            pts = [SPECIAL["0"]] if kind == "scalar" else pts + [SPECIAL["0"]]
        if not well_conditioned(bank, pts, bkind):
            continue
        return {"entry": "bank", "bkind": bkind, "bank": bank, "kind": kind,
                "pts": [genc(w) for w in pts], "wrap": rng.random() < 0.5, "by": rng.choice(["pos", "pos", "kw"])}
    return None


def gen_dft(rng, maxlen, big):
    btype = rng.choice(["int", "int", "frac", "dyadic", "gauss"])
    n = rng.randint(0, maxlen) if rng.random() < 0.9 else 0
    blk = []
    for _ in range(n):
        c = rand_coeff(rng, btype)
        blk.append(c)
    npts = rng.randint(0, 4)
    pts = [rand_point(rng, big) for _ in range(npts)]
    if rng.random() < 0.4:
        pts.append(SPECIAL["0"])
    return {"entry": "dft", "blk": blk, "btype": btype, "pts": [genc(w) for w in pts],
            "normalize": rng.random() < 0.6, "wrap": rng.random() < 0.5,
            "cont": rng.choice(["list", "tuple"])}


def gen_fir(rng, maxlen, big):
    ctype = rng.choice(["int", "int", "dyadic"])
    b = rand_coeffs(rng, ctype, maxlen)
    mode = rng.choice(["impulse", "impulse", "ints"])
    if mode == "impulse":
        L = len(b) + rng.randint(0, 4)
        xs = [1] + [0] * (L - 1) if L > 0 else []
    else:
        xs = [rng.randint(-9, 9) for _ in range(rng.randint(0, 14))]
    pts = [rand_point(rng, big) for _ in range(rng.randint(1, 3))]
    return {"entry": "fir", "b": b, "ctype": ctype, "xs": xs, "mode": mode,
            "pts": [genc(w) for w in pts], "wrap": rng.random() < 0.5}


def gen_expo(rng, maxlen, big):
    ctype = rng.choice(["int", "dyadic", "gauss"])
    b = rand_coeffs(rng, ctype, maxlen, 1)
    w = rand_point(rng, False)
    u = (w[0], -w[1])                 # u = conj w = 1/w = e^{+j omega}
    return {"entry": "expo", "b": b, "ctype": ctype, "u": genc(u), "len": len(b) + rng.randint(0, 8)}



# ----------------------------------------------------------------------------
# poles on the unit circle: the frequencies whose exact point is a root of the denominator
# ----------------------------------------------------------------------------
# name -> the python float handed to freq_response.  exp(-1j*omega) is exactly 1 only for omega = 0 (and -0.0);
# at the binary64 multiples of pi the point the code evaluates at is NEXT to -1 / 1 (sin(fl(pi)) = 1.22e-16), at a
# tiny omega it is 1 - j*omega: the transfer function there is large and finite, the code must return that
# value, not nan and not an exception (Props.C12.pole_exactly_and_nearby, nan_at_dc_and_nyquist).
POLE_OMEGAS = {
    "0": 0.0, "-0.0": -0.0, "int0": 0,
    "pi": math.pi, "-pi": -math.pi, "3pi": 3 * math.pi, "5pi": 5 * math.pi, "7pi": 7 * math.pi,
    "2pi": 2 * math.pi, "-2pi": -2 * math.pi, "4pi": 4 * math.pi,
    "1e-13": 1e-13, "-2^-45": -2.0 ** -45, "1e-20": 1e-20, "1e-100": 1e-100,
    "pi/2": math.pi / 2, "-pi/2": -math.pi / 2,
}
POLE_SIDE = {"0": 1, "-0.0": 1, "int0": 1, "2pi": 1, "-2pi": 1, "4pi": 1, "1e-13": 1, "-2^-45": 1, "1e-20": 1,
             "1e-100": 1, "pi": -1, "-pi": -1, "3pi": -1, "5pi": -1, "7pi": -1, "pi/2": 0, "-pi/2": 0}


def code_point(om):
    """the exact value (pair of Fractions) of the binary64 complex number `cmath.exp(-1j * om)` the code evaluates at"""
    import cmath
    z = cmath.exp(-1j * om)
    return (F(z.real), F(z.imag))


def pconv(p, q):
    r = [0] * (len(p) + len(q) - 1)
    for i, x in enumerate(p):
        for j, y in enumerate(q):
            r[i + j] += x * y
    return r


def gen_pole(rng, maxlen, big):
    """ZFilter(b, (1 - r z^-1) q(z^-1)): small int coefficients (every float operation of the evaluation is exact
    or relatively rounded, no cancellation below the imaginary part of the point), q bounded away from zero at the
    probed point; r = +1 / -1: the pole at omega = 0 / pi; 15 %: the factor on the other side (an ordinary point)"""
    for _ in range(100):
        name = rng.choice(list(POLE_OMEGAS))
        side = POLE_SIDE[name]
        r = side if side and rng.random() < 0.85 else rng.choice([1, -1])
        q = [rng.choice([1, -1, 2, 3, -2])] + [rng.randint(-4, 4) for _ in range(rng.randint(0, min(4, maxlen - 2)))]
        b = [rng.randint(-5, 5) for _ in range(rng.randint(0, maxlen - 1))]
        w = code_point(POLE_OMEGAS[name])
        if gabs(gpoly([(F(x), F(0)) for x in q], w)) < 0.25:
            continue
        return {"entry": "pole", "b": b, "q": q, "r": r, "om": name, "kind": rng.choice(["scalar", "scalar", "list", "tuple"]),
                "by": rng.choice(["pos", "pos", "kw"])}
    return None


def gen_dftlin(rng, maxlen, big):
    """dft(c*x + y, freqs, normalize) against c*dft(x) + dft(y): int / dyadic data (the combination block is exact)"""
    n = rng.randint(0, maxlen) if rng.random() < 0.9 else 0
    xs = [rng.randint(-9, 9) for _ in range(n)]
    ys = [rng.randint(-9, 9) for _ in range(n)]
    c = rng.choice([1, -1, 2, 3, -4, enc(F(1, 2)), enc(F(-3, 4)), 0])
    pts = [rand_point(rng, big) for _ in range(rng.randint(0, 4))]
    if rng.random() < 0.4:
        pts.append(SPECIAL["0"])
    return {"entry": "dftlin", "xs": xs, "ys": ys, "c": c, "pts": [genc(w) for w in pts],
            "normalize": rng.random() < 0.6, "wrap": rng.random() < 0.5}


# ----------------------------------------------------------------------------
# bank histories: banks are mutable python lists
# ----------------------------------------------------------------------------
MUT_OPS = ("setitem", "append", "insert", "extend", "iadd", "imul", "pop", "delitem", "setslice", "delslice",
           "reverse", "clear", "swap")
USE_OPS = ("freq", "polys", "is_lti", "call")


def is_bank(o):
    return "cascade" in o or "parallel" in o


def bank_key(o):
    return "cascade" if "cascade" in o else "parallel"


def op_refs(o):
    """heap references an operation puts into a list"""
    if o["op"] in ("setitem", "append", "insert"):
        return [o["x"]]
    if o["op"] in ("extend", "iadd", "setslice"):
        return list(o["xs"])
    return []


def list_apply(l, o):
    """the operation on a plain python list of references (python's own list is the oracle of the
    generator; the expected values of the check come from the Lean model)"""
    k = o["op"]
    if k == "setitem":
        l[o["i"]] = o["x"]
    elif k == "append":
        l.append(o["x"])
    elif k == "insert":
        l.insert(o["i"], o["x"])
    elif k == "extend":
        l.extend(o["xs"])
    elif k == "iadd":
        l += list(o["xs"])
    elif k == "imul":
        pass            # `bank *= k` binds a NEW bank (FilterList defines __mul__): the list object is unchanged
    elif k == "pop":
        if o.get("i") is None:
            l.pop()
        else:
            l.pop(o["i"])
    elif k == "delitem":
        del l[o["i"]]
    elif k == "setslice":
        l[o.get("i"):o.get("j")] = list(o["xs"])
    elif k == "delslice":
        del l[o.get("i"):o.get("j")]
    elif k == "reverse":
        l.reverse()
    elif k == "clear":
        del l[:]
    elif k == "swap":
        l[o["i"]], l[o["j"]] = l[o["j"]], l[o["i"]]
    else:
        raise ValueError(k)


def hist_valid(c):
    """references exist, banks only hold leaves and banks of higher index (acyclic), leaves are filters"""
    objs = c["objs"]
    n = len(objs)
    if n == 0 or not is_bank(objs[0]):
        return False
    for t, o in enumerate(objs):
        if is_bank(o):
            for r in o[bank_key(o)]:
                if not (0 <= r < n) or (is_bank(objs[r]) and r <= t):
                    return False
        elif not o["a"] or all(gdec(x) == (0, 0) for x in o["a"]):
            return False
    for o in c["ops"]:
        t = o["t"]
        if not (0 <= t < n) or not is_bank(objs[t]):
            return False
        for r in op_refs(o):
            if not (0 <= r < n) or (is_bank(objs[r]) and r <= t):
                return False
    return True


def heap_snapshot(objs, members, t, depth=0):
    """the tree reachable from object t (tree-case format of `tree_eval` / `build_tree`)"""
    o = objs[t]
    if not is_bank(o):
        return o
    if depth > len(objs):
        return None
    ms = [heap_snapshot(objs, members, r, depth + 1) for r in members[t]]
    if any(m is None for m in ms):
        return None
    return {bank_key(o): ms}


_SIM = {}


def hist_sim(c):
    """per step: the snapshot tree of the target (use steps) or None (list operations)"""
    k = json.dumps(c, sort_keys=True)
    r = _SIM.get(k)
    if r is None:
        if len(_SIM) > 4000:
            _SIM.clear()
        r = _SIM[k] = _hist_sim(c)
    return r


def _hist_sim(c):
    objs = c["objs"]
    members = dict((t, list(o[bank_key(o)])) for t, o in enumerate(objs) if is_bank(o))
    out = []
    for o in c["ops"]:
        if o["op"] in USE_OPS:
            out.append(heap_snapshot(objs, members, o["t"]))
        else:
            try:
                list_apply(members[o["t"]], o)
            except IndexError:
                pass
            out.append(None)
    return out


def tree_all(tree, pred):
    if is_bank(tree):
        return all(tree_all(m, pred) for m in tree[bank_key(tree)])
    return pred(tree)


def call_bits(tree):
    """(bits an output sample may need per input bit, some leaf works in floats) of an all-FIR bank"""
    if not is_bank(tree):
        fl = tree.get("ctype", "int") == "dyadic"
        n1 = sum(abs(dec(x)) for x in tree["b"])
        return (math.log2(max(1.0, float(n1))) + (3 if fl else 0), fl)
    rs = [call_bits(m) for m in tree[bank_key(tree)]]
    fl = any(r[1] for r in rs)
    if "cascade" in tree:
        return (sum(r[0] for r in rs), fl)
    return (max([r[0] for r in rs] + [0]) + math.log2(max(1, len(rs))), fl)


def fir_exact(tree):
    """every leaf is FIR with exactly represented coefficients and the run stays exact (python ints,
    or floats that never need more than 53 bits): calling the bank is modelled, exactly"""
    if not tree_all(tree, lambda f: f["a"] == [1] and f.get("ctype", "int") in ("int", "dyadic")):
        return False
    bits, fl = call_bits(tree)
    return (not fl) or bits + 5 <= 52


def poly_safe(tree):
    """numpoly / denpoly of the bank are defined and consistent: cascades of anything safe; a parallel
    bank only over plain filters of which at most one has a denominator other than 1 (the sum of two
    filters with EQUAL denominators takes a shortcut that makes ParallelFilter.numpoly / .denpoly an
    inconsistent pair — recorded under C05, not a C12 matter)"""
    if not is_bank(tree):
        return True
    ms = tree[bank_key(tree)]
    if "cascade" in tree:
        return all(poly_safe(m) for m in ms)
    return (all(not is_bank(m) and not m.get("raw") for m in ms) and
            sum(1 for m in ms if m["a"] != [1]) <= 1)


def poly_cond(tree, w):
    """exact values and 1-norm bounds of the EXPANDED numerator / denominator polynomials of a
    poly_safe bank at w (|w| = 1): (N(w), D(w), bound on sum|num coeffs|, bound on sum|den coeffs|, leaves).
    numpoly / denpoly are products / sums of products computed by the impl in floats: every
    coefficient carries a rounding error relative to the 1-norm bound, not to the value."""
    if not is_bank(tree):
        b, a = filt_terms(tree)
        return (gterms(b, w), gterms(a, w), sum(gabs(c) for _, c in b), sum(gabs(c) for _, c in a), 1)
    rs = [poly_cond(m, w) for m in tree[bank_key(tree)]]
    N, D, Nn, Dn, m = (F(1), F(0)), (F(1), F(0)), 1.0, 1.0, 0
    if "cascade" in tree:
        for r in rs:
            N, D, Nn, Dn, m = gmul(N, r[0]), gmul(D, r[1]), Nn * r[2], Dn * r[3], m + r[4]
        return (N, D, Nn, Dn, m)
    N, Nn = (F(0), F(0)), 0.0
    for i, r in enumerate(rs):
        t, tn = r[0], r[2]
        for j, r2 in enumerate(rs):
            if j != i:
                t, tn = gmul(t, r2[1]), tn * r2[3]
        N, Nn = gadd(N, t), Nn + tn
        D, Dn, m = gmul(D, r[1]), Dn * r[3], m + r[4]
    return (N, D, Nn, Dn, m)


def polys_ok(tree, pts):
    """numpoly(w)/denpoly(w) is compared at these points: defined pair, a value (no pole, no exception)
    at every point and the float error of the expanded coefficients a-priori below BOUND*(1+|H|)"""
    if not poly_safe(tree):
        return False
    for w in pts:
        r = tree_eval(tree, w)
        if r[0] == "none":
            continue                      # TypeError of an empty bank: nothing numeric
        if r[0] != "val":
            return False
        N, D, Nn, Dn, m = poly_cond(tree, w)
        Dm = gabs(D)
        if Dm == 0:
            return False
        g = 1e-15 * 8 * (m + 1)
        H = gabs(r[1])
        if g * Dn >= 0.01 * Dm or (g * Nn + H * g * Dn) / Dm > BOUND * (1 + H):
            return False
    return True


def hist_step_ok(o, snap):
    """is the step compared numerically?  (well conditioned snapshot at the probed points)"""
    if snap is None:
        return False
    if o["op"] == "freq":
        return tree_ok(snap, [gdec_pt(p) for p in o["pts"]])
    if o["op"] == "polys":
        pts = [gdec_pt(p) for p in o["pts"]]
        return bool(pts) and tree_ok(snap, pts) and polys_ok(snap, pts)
    return True


def hist_leaf(rng, maxlen, fir):
    if fir:
        f = {"b": rand_coeffs(rng, "int", maxlen, 1), "a": [1], "ctype": "int"}
        if rng.random() < 0.3:
            f["ctype"] = "dyadic"
            f["b"] = rand_coeffs(rng, "dyadic", maxlen, 1)
    else:
        f = gen_filter(rng, maxlen, pole0=rng.random() < 0.04)
        if all(gdec(x) == (0, 0) for x in f["a"]):
            f["a"][0] = 1
    if f["a"] == [1] and rng.random() < 0.2:
        f["raw"] = True
    return f


def hist_pattern(rng, L):
    while True:
        pat = ["q" if rng.random() < (0.6 if i == 0 else 0.35) else "m" for i in range(L - 1)] + ["q"]
        qs = [i for i, x in enumerate(pat) if x == "q"]
        if len(qs) < 2:
            continue
        if L >= 3 and "m" not in pat[qs[0]:qs[-1]]:
            continue
        return pat


def hist_mut_op(rng, t, cur, allowed):
    """one list operation on bank t whose list is `cur` now"""
    n = len(cur)
    kind = rng.choice(["setitem"] * 30 + ["swap"] * 5 + ["reverse"] * 5 + ["setslice"] * 10 + ["delslice"] * 4 +
                      ["append"] * 8 + ["insert"] * 8 + ["extend"] * 5 + ["iadd"] * 6 + ["imul"] * 4 + ["pop"] * 8 +
                      ["delitem"] * 6 + ["clear"] * 2)
    if n == 0 and kind in ("setitem", "swap", "pop", "delitem", "reverse", "imul", "delslice", "clear") \
            and rng.random() < 0.85:
        kind = rng.choice(["append", "extend", "iadd", "insert", "setslice"])
    if n >= 5 and kind in ("append", "insert", "extend", "iadd", "imul"):
        kind = rng.choice(["setitem", "pop", "delitem", "delslice", "swap"])

    def idx():
        if n and rng.random() < 0.93:
            return rng.randrange(-n, n)
        return rng.choice([n, -n - 1, n + 2])

    def ref(avoid=None):
        xs = [r for r in allowed if r != avoid] or allowed
        return rng.choice(xs)
    o = {"op": kind, "t": t}
    if kind == "setitem":
        o["i"] = idx()
        old = cur[o["i"]] if -n <= o["i"] < n else None
        o["x"] = ref(old if rng.random() < 0.9 else None)
    elif kind == "swap":
        o["i"], o["j"] = idx(), idx()
    elif kind == "append":
        o["x"] = ref()
    elif kind == "insert":
        o["i"] = rng.randint(-n - 2, n + 2)
        o["x"] = ref()
    elif kind in ("extend", "iadd"):
        o["xs"] = [ref() for _ in range(rng.choice([0, 1, 1, 2]))]
    elif kind == "imul":
        k = rng.choice([0, 1, 2, 2, -1, 3])
        o["k"] = k if n * k <= 6 else 1
    elif kind == "pop":
        o["i"] = None if rng.random() < 0.5 else idx()
    elif kind == "delitem":
        o["i"] = idx()
    elif kind in ("setslice", "delslice"):
        if n and rng.random() < 0.55:
            lo = rng.randrange(0, n)
            hi = rng.randint(lo + 1, min(n, lo + 2))
            i, j = lo, hi
            if rng.random() < 0.3:
                i -= n
            if rng.random() < 0.3:
                j = j - n if j < n else None
            if kind == "setslice":
                o["xs"] = [ref(cur[lo + d]) for d in range(hi - lo)]         # same size: replaced in place
        else:
            i = rng.choice([None, rng.randint(-n - 1, n + 1)])
            j = rng.choice([None, rng.randint(-n - 1, n + 1)])
            if kind == "setslice":
                o["xs"] = [ref() for _ in range(rng.choice([0, 1, 2, 3]))]
        o["i"], o["j"] = i, j
    return o


HIST_KINDS = ["scalar", "scalar", "list", "tuple", "gen", "stream", "deque"]


def hist_use_op(rng, t, snap, pool, big, earlier=()):
    kind = rng.choice(["freq"] * 60 + ["polys"] * 15 + ["is_lti"] * 8 + ["call"] * 17)
    if earlier and rng.random() < 0.4:
        kind = rng.choice(earlier)          # the same kind of use before and after a change
    if kind == "call" and not (snap is not None and fir_exact(snap)):
        kind = "freq"
    o = {"op": kind, "t": t}
    if kind == "freq":
        o["kind"] = rng.choice(HIST_KINDS)
        if rng.random() < 0.35:
            o["by"] = "kw"
    if kind in ("freq", "polys"):
        if o.get("kind") == "scalar":
            pts = [rng.choice(pool)]
        else:
            pts = [p for p in pool if rng.random() < 0.7] or [rng.choice(pool)]
            if rng.random() < 0.1:
                pts = pts + [rand_point(rng, big)]
        if kind == "polys" and not (snap is not None and polys_ok(snap, pts)):
            o["op"] = kind = "freq"
            o["kind"] = "list"
        o["pts"] = [genc(w) for w in pts]
    if kind == "call":
        if rng.random() < 0.5:
            o["xs"] = [1] + [0] * rng.randint(2, 7)
        else:
            o["xs"] = [rng.randint(-5, 5) for _ in range(rng.randint(0, 8))]
    return o


def gen_hist_once(rng, maxlen, big):
    fir = rng.random() < 0.35
    nb = rng.choice([1, 1, 2, 2, 3])
    nl = rng.randint(2, 5)
    n = nb + nl
    leaves = list(range(nb, n))
    objs = []
    for t in range(nb):
        allowed = leaves + list(range(t + 1, nb))
        k = rng.choice([1, 2, 2, 3, 3]) if rng.random() < 0.94 else 0
        objs.append({rng.choice(["cascade", "parallel"]): [rng.choice(allowed) for _ in range(k)]})
    for j in range(1, nb):
        if rng.random() < 0.85 and not any(j in objs[t][bank_key(objs[t])] for t in range(j)):
            t = rng.randrange(0, j)
            ms = objs[t][bank_key(objs[t])]
            ms.insert(rng.randint(0, len(ms)), j)
    objs += [hist_leaf(rng, min(maxlen, 4), fir) for _ in range(nl)]
    L = rng.randint(2, 12 if big else 8)
    pat = hist_pattern(rng, L)
    pool = [rand_point(rng, big) for _ in range(rng.choice([1, 2, 2, 3]))]
    members = dict((t, list(objs[t][bank_key(objs[t])])) for t in range(nb))
    ops = []
    for x in pat:
        if x == "m":
            t = 0 if (nb == 1 or rng.random() < 0.65) else rng.randrange(1, nb)
            o = hist_mut_op(rng, t, members[t], leaves + list(range(t + 1, nb)))
            try:
                list_apply(members[t], o)
            except IndexError:
                pass
        else:
            t = 0 if rng.random() < 0.85 else rng.randrange(0, nb)
            o = hist_use_op(rng, t, heap_snapshot(objs, members, t), pool, big,
                            [u["op"] for u in ops if u["op"] in USE_OPS and u["op"] != "is_lti"])
        ops.append(o)
    return {"entry": "hist", "objs": objs, "ops": ops, "wrap": rng.random() < 0.5}


def gen_hist(rng, maxlen, big):
    for _ in range(60):
        c = gen_hist_once(rng, maxlen, big)
        snaps = _hist_sim(c)
        if all(hist_step_ok(o, s) for o, s in zip(c["ops"], snaps) if o["op"] in USE_OPS):
            return c
    return None


# ----------------------------------------------------------------------------
# the CALL: every call shape x every kind of frequency object (entry "call"), dft as called ("dftcall")
# ----------------------------------------------------------------------------
# python kind -> model Kind (how `elementwise` treats the object / what type(arg)(data) does)
PYKINDS = {
    "float": "scalar", "int0": "scalar", "frac0": "scalar", "false": "scalar", "complex0": "scalar",
    "negzero": "scalar", "none": "scalar", "str": "str",
    "list": "seq", "tuple": "seq", "deque": "seq", "sublist": "seq", "subtuple": "seq",
    "set": "hash", "frozenset": "hash",
    "gen": "someGen", "map": "someGen", "filter": "someGen", "range": "someGen", "enumerate": "someGen",
    "zip": "someGen", "zip_longest": "someGen",
    "stream": "stream", "substream": "stream", "thub": "stream",
    "chain": "chain",
    "dict": "emptyOnly", "bytes": "emptyOnly", "bytearray": "emptyOnly",
    "list_iterator": "noCtor", "tuple_iterator": "noCtor", "dict_keys": "noCtor", "dict_values": "noCtor",
    "reversed": "noCtor",
}
ZERO_SPELLINGS = ("int0", "frac0", "false", "complex0", "negzero")
TUPLE_ELEMS = ("enumerate", "zip", "zip_longest")        # their items are tuples: "nested" for the raw method
EXTRA_NAMES = ("name", "foo", "w", "frequency", "freqs", "pos")


class SubList(list):
    pass


class SubTuple(tuple):
    pass


def desc_pts(d):
    """the number points of a descriptor"""
    if d == "self":
        return []
    out = []
    for x in d.get("items", []) + ([d["self"]] if "self" in d else []):
        if isinstance(x, list):
            out.append(gdec_pt(x))
    return out


def gen_desc(rng, big, leaf, scalar_bias=0.25):
    """a frequency object: {"k": python kind, "self": elem (scalar kinds), "items": [elem ...]}"""
    r = rng.random()
    if r < scalar_bias:
        k = rng.choice(["float"] * 6 + list(ZERO_SPELLINGS) + ["none", "str"])
        if k == "float":
            return {"k": k, "self": genc(rand_point(rng, big))}
        if k in ZERO_SPELLINGS:
            return {"k": k, "self": genc(SPECIAL["0"])}
        return {"k": k, "self": "bad"}
    k = rng.choice(["list", "tuple", "deque", "set", "frozenset", "gen", "stream"] * 3 +
                   [x for x in PYKINDS if PYKINDS[x] not in ("scalar", "str")])
    if k in TUPLE_ELEMS and not leaf:
        k = "gen"
    n = rng.choice([0, 0, 1, 1, 2, 2, 3, 4])
    if k == "range":
        return {"k": k, "items": [genc(SPECIAL["0"])] * rng.choice([0, 1, 1])}
    if k in ("bytes", "bytearray"):
        return {"k": k, "items": [genc(SPECIAL["0"])] * rng.choice([0, 0, 1, 2])}
    if k in TUPLE_ELEMS:
        return {"k": k, "items": ["nested"] * n}
    pts = [rand_point(rng, big) for _ in range(n)]
    if k in ("set", "frozenset", "dict", "dict_keys"):
        pts = sorted(set(pts))
    items = [genc(w) for w in pts]
    if items and rng.random() < 0.15:
        bad = "bad" if (not leaf or rng.random() < 0.6) else "nested"
        if k in ("set", "frozenset", "dict", "dict_keys"):
            bad = "bad"
            if "bad" in items:
                bad = None
        if bad:
            items.insert(rng.randint(0, len(items)), bad)
    return {"k": k, "items": items}


def gen_call(rng, maxlen, big):
    for _ in range(200):
        if rng.random() < 0.5:
            f = gen_filter(rng, min(maxlen, 5))
            if all(gdec(x) == (0, 0) for x in f["a"]):
                continue
            tree = dict(f, cls=rng.choice(["ZFilter", "LinearFilter", "zexpr"]) if f["b"] else "ZFilter")
            leaf = True
        else:
            key = rng.choice(["cascade", "parallel"])
            nm = rng.choice([0, 1, 2, 2, 3]) if rng.random() < 0.08 else rng.choice([1, 2, 2, 3])
            tree = {key: [gen_tree_node(rng, maxlen, 1) for _ in range(nm)], "form": rng.choice(["star", "list"])}
            ms = tree[key]
            if tree["form"] == "star" and len(ms) == 1 and (ms[0].get("raw") or is_bank(ms[0])):
                tree["form"] = "list"
            leaf = False
        x = gen_desc(rng, big, leaf)
        y = gen_desc(rng, big, leaf, 0.6)
        name = rng.choice(EXTRA_NAMES)
        shape = rng.choice(["pos"] * 6 + ["kw"] * 8 + ["class_pos"] * 2 + ["class_kw"] * 3 + ["self_kw"] * 2 +
                           ["self_kw_rev"] * 2 + ["pos+extra_kw"] * 2 + ["kw+extra_kw", "extra_kw+kw", "both",
                                                                      "extra_pos", "missing", "wrong_kw",
                                                                      "class_missing_self"])
        via, args, kwargs = "method", [], []
        if shape == "pos":
            args = [x]
        elif shape == "kw":
            kwargs = [["freq", x]]
        elif shape == "class_pos":
            via, args = "class", ["self", x]
        elif shape == "class_kw":
            via, args, kwargs = "class", ["self"], [["freq", x]]
        elif shape == "self_kw":
            via, kwargs = "class", [["self", "self"], ["freq", x]]
        elif shape == "self_kw_rev":
            via, kwargs = "class", [["freq", x], ["self", "self"]]
        elif shape == "pos+extra_kw":
            args, kwargs = [x], [[name, y]]
        elif shape == "kw+extra_kw":
            kwargs = [["freq", x], [name, y]]
        elif shape == "extra_kw+kw":
            kwargs = [[name, y], ["freq", x]]
        elif shape == "both":
            args, kwargs = [x], [["freq", y]]
        elif shape == "extra_pos":
            args = [x, y]
        elif shape == "missing":
            pass
        elif shape == "wrong_kw":
            kwargs = [[name, x]]
        elif shape == "class_missing_self":
            via, kwargs = "class", [["freq", x]]
        pts = []
        for d in args + [v for _, v in kwargs]:
            pts += desc_pts(d)
        if not tree_ok(tree, pts) or not tree_all(tree, lambda f: any(gdec(v) != (0, 0) for v in f["a"])):
            continue
        return {"entry": "call", "tree": tree, "shape": shape, "via": via, "args": args, "kwargs": kwargs,
                "reads": max([len(d.get("items", [])) for d in [x, y]]) + 2, "wrap": rng.random() < 0.5}
    return None


DFT_BLK_KINDS = {"list": "sized", "tuple": "sized", "deque": "sized", "range": "sized", "dict": "sized",
                 "gen": "once", "list_iterator": "once", "map": "once", "stream": "once"}
DFT_FREQ_KINDS = ("list", "tuple", "deque", "gen", "stream", "set", "dict", "map", "float", "none")
DFT_NORM = ("omitted", "True", "False", "1", "0", "None", "yes", "empty-str", "2.5", "0.0", "empty-list")
DFT_TRUTH = {"True": True, "False": False, "1": True, "0": False, "None": False, "yes": True, "empty-str": False,
             "2.5": True, "0.0": False, "empty-list": False}


def gen_dftcall(rng, maxlen, big):
    btype = rng.choice(["int", "int", "frac", "dyadic", "gauss"])
    bkind = rng.choice(list(DFT_BLK_KINDS))
    n = rng.randint(0, maxlen) if rng.random() < 0.85 else 0
    if bkind == "range":
        blk, btype = list(range(n)), "int"
    else:
        blk = [rand_coeff(rng, btype) for _ in range(n)]
        if bkind == "dict":
            blk, btype = sorted(set(rng.randint(-9, 9) for _ in range(n))), "int"
    fkind = rng.choice(DFT_FREQ_KINDS[:-2] * 3 + DFT_FREQ_KINDS[-2:])
    pts = [rand_point(rng, big) for _ in range(rng.randint(0, 4))]
    if rng.random() < 0.4:
        pts.append(SPECIAL["0"])
    if fkind in ("set", "dict"):
        pts = sorted(set(pts))[:1 if fkind == "set" else None]
    if fkind in ("float", "none"):
        pts = pts[:1] or [SPECIAL["pi"]]
    norm = rng.choice(DFT_NORM)
    names = ["blk", "freqs"] + ([] if norm == "omitted" else ["normalize"])
    npos = rng.randint(0, len(names))
    kw = names[npos:]
    rng.shuffle(kw)
    args = names[:npos]
    r = rng.random()
    if r < 0.04:
        kw = [k for k in kw if k != "freqs"] if "freqs" in kw else kw + ["freqs"]       # missing / given twice
    elif r < 0.07:
        kw = kw + [rng.choice(["norm", "freq", "normalise", "block"])]
    elif r < 0.09 and npos == len(names):
        args = args + ["extra"]
    return {"entry": "dftcall", "blk": blk, "btype": btype, "bkind": bkind, "fkind": fkind,
            "pts": [genc(w) for w in pts], "norm": norm, "args": args, "kw": kw, "wrap": rng.random() < 0.5}



def malformed(rng):
    out = []
    for a in ([0], [0, 0], []):
        out.append({"entry": "freq", "b": [1, 2], "a": a, "ctype": "int", "kind": "list",
                    "pts": [genc(SPECIAL["0"]), genc(point_from_t(1, 2))], "wrap": False, "cls": "ZFilter"})
    out.append({"entry": "bank", "bkind": "cascade", "bank": [], "kind": "scalar",
                "pts": [genc(point_from_t(1, 3))], "wrap": False})
    out.append({"entry": "bank", "bkind": "parallel", "bank": [], "kind": "list",
                "pts": [genc(point_from_t(1, 3))], "wrap": False})
    out.append({"entry": "dft", "blk": [], "btype": "int", "pts": [genc(SPECIAL["0"])], "normalize": True,
                "wrap": False, "cont": "list"})
    out.append({"entry": "dft", "blk": [], "btype": "int", "pts": [], "normalize": True,
                "wrap": False, "cont": "list"})
    out.append({"entry": "dft", "blk": [], "btype": "int", "pts": [genc(SPECIAL["pi"])], "normalize": False,
                "wrap": False, "cont": "list"})
    return out


def grid(maxc=2):
    """exhaustive small universe: all b, a in {-1,0,1,2}^{<=2} x special + two Pythagorean points, list kind"""
    vals = [-1, 0, 1, 2]
    pts = [SPECIAL["0"], SPECIAL["pi"], SPECIAL["pi/2"], SPECIAL["-pi/2"], point_from_t(1, 2), point_from_t(-2, 3)]
    out = []
    lists = [list(t) for n in range(0, maxc + 1) for t in product(vals, repeat=n)]
    for b in lists:
        for a in lists:
            if not a:
                continue
            f = {"b": b, "a": a, "ctype": "int"}
            good = [w for w in pts if well_conditioned([f], [w])]
            if not good:
                continue
            out.append({"entry": "freq", "b": b, "a": a, "ctype": "int", "kind": "list",
                        "pts": [genc(w) for w in good], "wrap": False, "cls": "ZFilter"})
    return out


def generate(rng, tier, scale=1):
    quick = tier == "quick"
    maxlen = 7 if quick else 11
    big = not quick
    n = (6000 if quick else 100000) * scale
    cases = []
    if scale == 1:
        cases += malformed(rng)
        cases += grid(2 if quick else 3)
    gens = [(gen_freq, 26), (gen_freqd, 9), (gen_bank, 10), (gen_tree, 9), (gen_dft, 9), (gen_fir, 9),
            (gen_expo, 10), (gen_call, 24), (gen_dftcall, 10), (gen_pole, 7), (gen_dftlin, 4)]
    total = sum(wt for _, wt in gens)
    for g, wt in gens:
        for _ in range(n * wt // total):
            c = g(rng, (maxlen if g not in (gen_dft, gen_dftcall, gen_dftlin) else (16 if quick else 48)), big)
            if c is not None:
                cases.append(c)
    for _ in range((N_HIST_QUICK if quick else N_HIST_THOROUGH) * scale):
        c = gen_hist(rng, maxlen, big)
        if c is not None:
            cases.append(c)
    return cases


# ----------------------------------------------------------------------------
# impl
# ----------------------------------------------------------------------------
def cnum(v):
    """canonical observation of an impl number"""
    if isinstance(v, complex):
        if v.real != v.real or v.imag != v.imag:
            return "nan"
        return [enc(v.real), enc(v.imag)]
    if isinstance(v, float) and v != v:
        return "nan"
    return [enc(v), 0]


def container(kind, oms):
    from audiolazy import Stream
    if kind == "scalar":
        return oms[0]
    if kind == "list":
        return list(oms)
    if kind == "tuple":
        return tuple(oms)
    if kind == "deque":
        return deque(oms)
    if kind == "set":
        return set(oms)
    if kind == "frozenset":
        return frozenset(oms)
    if kind == "stream":
        return Stream(list(oms))
    if kind == "stream_cycle":
        return Stream(*oms)
    if kind == "gen":
        return (x for x in oms)
    if kind == "map":
        return map(lambda x: x, oms)
    if kind == "range":
        return range(1)
    raise ValueError(kind)


def observe(kind, res, npts):
    from audiolazy import Stream
    if kind == "scalar":
        return {"kind": "scalar", "vals": [cnum(res)]}
    if isinstance(res, Stream):
        k = "Stream"
        vals = res.take(2 * npts) if kind == "stream_cycle" else list(res)
    elif isinstance(res, types.GeneratorType):
        k, vals = "generator", list(res)
    else:
        k, vals = type(res).__name__, list(res)
    return {"kind": k, "vals": [cnum(v) for v in vals]}


def fr(obj, c, x):
    """obj.freq_response(x), the frequency object by position or by keyword (Props.C12.freq_call_shapes: the same)"""
    if c.get("by") == "kw":
        return obj.freq_response(freq=x)
    return obj.freq_response(x)


def omegas(c):
    oms = [omega_of(gdec_pt(p), c.get("wrap", False)) for p in c["pts"]]
    if c.get("kind") == "scalar" and oms and oms[0] == 0.0 and len(c.get("b", [])) % 2 == 0:
        oms[0] = 0                      # the int 0 as a frequency
    return oms


def gdec_pt(p):
    return (dec(p[0]), dec(p[1]))


def mk_filter(f, cls="ZFilter"):
    import audiolazy
    b = [py_coeff(x, f.get("ctype", "int")) for x in f["b"]]
    a = [py_coeff(x, f.get("ctype", "int")) for x in f["a"]]
    if cls == "zexpr":
        # the way users write filters: sum of b_k z^-k over sum of a_k z^-k, built with the `z` object
        z = audiolazy.z
        num = sum(c * z ** -k for k, c in enumerate(b))
        den = sum(c * z ** -k for k, c in enumerate(a))
        return num / den
    return getattr(audiolazy, cls)(b, a)



def poly_at(poly, w):
    """exact value of an impl Poly at the Gaussian rational point w (|w| = 1); coefficients are
    int / float (a float is a dyadic rational) / Fraction / complex"""
    ts = []
    for k, v in poly.terms():
        v = complex(v) if isinstance(v, complex) else v
        if isinstance(v, complex):
            cv = (F(v.real), F(v.imag))
        else:
            cv = (F(v), F(0))
        ts.append((int(k), cv))
    return gterms(ts, w), sum(gabs(cv) for _, cv in ts)


def impl_hist(c):
    from audiolazy import CascadeFilter, ParallelFilter
    if not hist_valid(c):
        return {"invalid": True}
    objs = [None] * len(c["objs"])
    try:
        for t in range(len(objs) - 1, -1, -1):
            o = c["objs"][t]
            if is_bank(o):
                cls = CascadeFilter if "cascade" in o else ParallelFilter
                objs[t] = cls([objs[r] for r in o[bank_key(o)]])
            elif o.get("raw"):
                objs[t] = [py_coeff(x, o.get("ctype", "int")) for x in o["b"]]
            else:
                objs[t] = mk_filter(o)
    except Exception as ex:
        return {"invalid": True, "err": err_kind(ex)}
    ids = dict((id(x), t) for t, x in enumerate(objs))
    wrap = c.get("wrap", False)

    def members(bank):
        return [ids.get(id(m), -1) for m in bank]
    steps = []
    for o in c["ops"]:
        bank = objs[o["t"]]
        k = o["op"]
        try:
            if k == "setitem":
                bank[o["i"]] = objs[o["x"]]
            elif k == "append":
                bank.append(objs[o["x"]])
            elif k == "insert":
                bank.insert(o["i"], objs[o["x"]])
            elif k == "extend":
                bank.extend([objs[r] for r in o["xs"]])
            elif k == "iadd":
                b2 = bank
                b2 += [objs[r] for r in o["xs"]]
                if b2 is not bank:
                    steps.append({"err": "NotInPlace"})
                    continue
            elif k == "imul":
                b2 = bank
                b2 *= o["k"]
                steps.append({"fresh": members(b2), "members": members(bank)})
                continue
            elif k == "pop":
                x = bank.pop() if o.get("i") is None else bank.pop(o["i"])
                steps.append({"popped": ids.get(id(x), -1), "members": members(bank)})
                continue
            elif k == "delitem":
                del bank[o["i"]]
            elif k == "setslice":
                bank[o.get("i"):o.get("j")] = [objs[r] for r in o["xs"]]
            elif k == "delslice":
                del bank[o.get("i"):o.get("j")]
            elif k == "reverse":
                bank.reverse()
            elif k == "clear":
                del bank[:]
            elif k == "swap":
                bank[o["i"]], bank[o["j"]] = bank[o["j"]], bank[o["i"]]
            elif k == "freq":
                oms = [omega_of(gdec_pt(p), wrap) for p in o["pts"]]
                steps.append(observe(o["kind"], fr(bank, o, container(o["kind"], oms)), len(oms)))
                continue
            elif k == "polys":
                num, den = bank.numpoly, bank.denpoly
                vals = []
                for p in o["pts"]:
                    w = gdec_pt(p)
                    nv, _ = poly_at(num, w)
                    dv, _ = poly_at(den, w)
                    if dv == (0, 0):
                        vals.append("nan")
                    else:
                        vals.append(genc(gdiv(nv, dv)))
                steps.append({"kind": "list", "vals": vals})
                continue
            elif k == "is_lti":
                steps.append({"bool": bool(bank.is_lti())})
                continue
            elif k == "call":
                steps.append({"out": [cnum(v) for v in bank(list(o["xs"]), zero=0)]})
                continue
            else:
                raise ValueError("unknown op")
            steps.append({"members": members(bank)})
        except Exception as ex:
            steps.append({"err": err_kind(ex)})
    return {"steps": steps}


# ----------------------------------------------------------------------------
# impl of the call entries
# ----------------------------------------------------------------------------
def build_obj(d, wrap):
    """the python object of a descriptor"""
    import itertools
    from audiolazy import Stream, thub
    k = d["k"]

    def num(e):
        if e == "bad":
            return None
        if e == "nested":
            return [0.0]
        return omega_of(gdec_pt(e), wrap)
    if PYKINDS[k] in ("scalar", "str"):
        if k == "float":
            return num(d["self"])
        return {"int0": 0, "frac0": F(0), "false": False, "complex0": 0j, "negzero": -0.0, "none": None,
                "str": "abc"}[k]
    oms = [num(e) for e in d["items"]]
    if k == "list":
        return list(oms)
    if k == "tuple":
        return tuple(oms)
    if k == "deque":
        return deque(oms)
    if k == "sublist":
        return SubList(oms)
    if k == "subtuple":
        return SubTuple(oms)
    if k == "set":
        return set(oms)
    if k == "frozenset":
        return frozenset(oms)
    if k == "gen":
        return (x for x in oms)
    if k == "map":
        return map(lambda x: x, oms)
    if k == "filter":
        return filter(lambda x: True, oms)
    if k == "range":
        return range(len(oms))
    if k == "enumerate":
        return enumerate(oms)
    if k == "zip":
        return zip(oms)
    if k == "zip_longest":
        return itertools.zip_longest(oms)
    if k == "stream":
        return Stream(list(oms))
    if k == "substream":
        return type("SubStream", (Stream,), {})(list(oms))
    if k == "thub":
        return thub(list(oms), 1)
    if k == "chain":
        return itertools.chain(oms[:1], oms[1:])
    if k == "dict":
        return dict((x, i) for i, x in enumerate(oms))
    if k == "bytes":
        return bytes(len(oms))
    if k == "bytearray":
        return bytearray(len(oms))
    if k == "list_iterator":
        return iter(list(oms))
    if k == "tuple_iterator":
        return iter(tuple(oms))
    if k == "dict_keys":
        return dict((x, i) for i, x in enumerate(oms)).keys()
    if k == "dict_values":
        return dict(enumerate(oms)).values()
    if k == "reversed":
        return reversed(list(reversed(oms)))
    raise ValueError(k)


def build_target(tree):
    if is_bank(tree):
        return build_tree(tree)
    return mk_filter(tree, tree.get("cls", "ZFilter"))


def impl_call(c):
    import warnings
    with warnings.catch_warnings():
        warnings.simplefilter("ignore")         # thub: MemoryLeakWarning of an unused copy
        return _impl_call(c)


def _impl_call(c):
    import itertools
    from audiolazy import Stream
    filt = build_target(c["tree"])
    wrap = c.get("wrap", False)
    objs = {}

    def obj(i, d):
        if d == "self":
            return filt
        objs[i] = build_obj(d, wrap)
        return objs[i]
    args = [obj(("a", i), d) for i, d in enumerate(c["args"])]
    kwargs = dict((k, obj(("k", k), d)) for k, d in c["kwargs"])
    func = filt.freq_response if c["via"] == "method" else type(filt).freq_response
    try:
        res = func(*args, **kwargs)
    except Exception as ex:
        return {"err": err_kind(ex)}
    # which object did the wrapper look at?  (reported by type identity only)
    npos = len(args) + (1 if c["via"] == "method" else 0)
    if npos > 1:
        located = args[1 - (1 if c["via"] == "method" else 0)]
    else:
        located = kwargs.get("freq")
    if isinstance(res, (types.GeneratorType, Stream, itertools.chain)):
        kind = ("someGen" if isinstance(res, types.GeneratorType) else
                "stream" if type(res) is Stream else
                "chain" if type(res) is itertools.chain else "OTHER:" + type(res).__name__)
        itr = iter(res)
        reads = []
        for _ in range(c["reads"]):
            try:
                reads.append({"item": cnum(next(itr))})
            except StopIteration:
                reads.append("stop")
            except Exception as ex:
                reads.append({"exc": err_kind(ex)})
        return {"lazy": kind, "reads": reads}
    if isinstance(res, (complex, float, int)):
        return {"value": cnum(res)}
    try:
        vals = [cnum(v) for v in res]
    except Exception as ex:
        return {"other": type(res).__name__, "err_iter": err_kind(ex)}
    return {"cast": type(res).__name__, "same_type": type(res) is type(located), "vals": vals}


def impl_dftcall(c):
    from audiolazy import dft, Stream
    wrap = c.get("wrap", False)
    data = [py_coeff(x, c["btype"]) for x in c["blk"]]
    bk = c["bkind"]
    blk = {"list": list, "tuple": tuple, "deque": deque, "range": lambda d: range(len(d)),
           "dict": lambda d: dict((x, None) for x in d), "gen": lambda d: (x for x in d),
           "list_iterator": lambda d: iter(list(d)), "map": lambda d: map(lambda x: x, d),
           "stream": lambda d: Stream(list(d))}[bk](data)
    oms = [omega_of(gdec_pt(p), wrap) for p in c["pts"]]
    fk = c["fkind"]
    freqs = {"list": list, "tuple": tuple, "deque": deque, "gen": lambda d: (x for x in d),
             "stream": lambda d: Stream(list(d)), "set": set, "dict": lambda d: dict((x, 1) for x in d),
             "map": lambda d: map(lambda x: x, d), "float": lambda d: d[0], "none": lambda d: None}[fk](oms)
    norm = {"True": True, "False": False, "1": 1, "0": 0, "None": None, "yes": "yes", "empty-str": "", "2.5": 2.5,
            "0.0": 0.0, "empty-list": [], "omitted": None}[c["norm"]]
    val = {"blk": blk, "freqs": freqs, "normalize": norm, "extra": 3}
    args = [val[a] for a in c["args"]]
    kwargs = dict((k, val.get(k, 7)) for k in c["kw"])
    if len(kwargs) != len(c["kw"]):
        return {"skip": True}
    try:
        res = dft(*args, **kwargs)
    except Exception as ex:
        return {"err": err_kind(ex)}
    if type(res) is not list:
        return {"other": type(res).__name__}
    return {"vals": [cnum(v) for v in res]}


class ImplTimeout(BaseException):
    pass


_TIMEOUTS = [0]


def impl(c):
    """the observation of the real code, under a watchdog: a call that should be lazy but reads an endless
    Stream to its end must show as a disagreement (`OTHER:ImplTimeout`), not hang the check"""
    import signal

    def on_alarm(signum, frame):
        raise ImplTimeout()
    try:
        old = signal.signal(signal.SIGALRM, on_alarm)
    except ValueError:                          # not in the main thread: no watchdog
        return _impl(c)
    # generous at first; once the code under test has hung twice every further case gets a short leash, so
    # that a tree that hangs on a whole class of inputs is still reported within the time budget
    signal.setitimer(signal.ITIMER_REAL, 2.0 if _TIMEOUTS[0] < 2 else 0.15)
    try:
        return _impl(c)
    except ImplTimeout:
        _TIMEOUTS[0] += 1
        return {"err": "OTHER:ImplTimeout"}
    finally:
        signal.setitimer(signal.ITIMER_REAL, 0)
        signal.signal(signal.SIGALRM, old)


def _impl(c):
    import audiolazy
    from audiolazy import ZFilter, CascadeFilter, ParallelFilter, dft
    try:
        e = c["entry"]
        if e == "hist":
            return impl_hist(c)
        if e == "call":
            return impl_call(c)
        if e == "dftcall":
            return impl_dftcall(c)
        if e == "freq":
            filt = mk_filter(c, c.get("cls", "ZFilter"))
            oms = omegas(c)
            return observe(c["kind"], fr(filt, c, container(c["kind"], oms)), len(oms))
        if e == "freqd":
            ct = c["ctype"]
            filt = ZFilter(dict((k, py_coeff(x, ct)) for k, x in c["bt"]),
                           dict((k, py_coeff(x, ct)) for k, x in c["at"]))
            oms = omegas(c)
            return observe(c["kind"], fr(filt, c, container(c["kind"], oms)), len(oms))
        if e == "tree":
            bank = build_tree(c["tree"])
            oms = omegas(c)
            return observe(c["kind"], fr(bank, c, container(c["kind"], oms)), len(oms))
        if e == "bank":
            members = [mk_filter(f) for f in c["bank"]]
            bank = (CascadeFilter if c["bkind"] == "cascade" else ParallelFilter)(*members)
            oms = omegas(c)
            return observe(c["kind"], fr(bank, c, container(c["kind"], oms)), len(oms))
        if e == "dft":
            blk = [py_coeff(x, c["btype"]) for x in c["blk"]]
            blk = tuple(blk) if c.get("cont") == "tuple" else blk
            oms = omegas(c)
            return {"vals": [cnum(v) for v in dft(blk, oms, normalize=c["normalize"])]}
        if e == "fir":
            filt = ZFilter([py_coeff(x, c["ctype"]) for x in c["b"]])
            out = list(filt(list(c["xs"]), zero=0))
            oms = omegas(c)
            return {"out": [cnum(v) for v in out],
                    "dft": [cnum(v) for v in dft(out, oms, normalize=False)],
                    "H": [cnum(filt.freq_response(om)) for om in oms]}
        if e == "pole":
            a = pconv([1, -c["r"]], c["q"])
            filt = ZFilter(list(c["b"]), a)
            om = POLE_OMEGAS[c["om"]]
            res = fr(filt, c, container(c["kind"], [om]))
            vals = [res] if c["kind"] == "scalar" else list(res)
            # the nan of the property is the float nan of lazy_math; a complex nan is a different object
            return {"kind": "scalar" if c["kind"] == "scalar" else type(res).__name__,
                    "vals": [("cnan" if isinstance(v, complex) and (v.real != v.real or v.imag != v.imag) else cnum(v))
                             for v in vals]}
        if e == "dftlin":
            cc = dec(c["c"])
            cc = int(cc) if cc.denominator == 1 else float(cc)
            comb = [cc * x + y for x, y in zip(c["xs"], c["ys"])]
            oms = omegas(c)
            obs = {"block": [cnum(v) for v in comb]}
            for key, blk in (("lhs", comb), ("x", c["xs"]), ("y", c["ys"])):
                try:
                    obs[key] = [cnum(v) for v in dft(list(blk), oms, normalize=c["normalize"])]
                except Exception as ex:
                    obs[key] = {"err": err_kind(ex)}
            if isinstance(obs["x"], list) and isinstance(obs["y"], list):
                obs["rhs"] = [cnum(cc * complex(float(dec(p[0])), float(dec(p[1]))) +
                                   complex(float(dec(r[0])), float(dec(r[1])))) for p, r in zip(obs["x"], obs["y"])]
            return obs
        if e == "expo":
            filt = ZFilter([py_coeff(x, c["ctype"]) for x in c["b"]])
            u = gdec_pt(c["u"])
            xs, p = [], (F(1), F(0))
            for _ in range(c["len"]):
                xs.append(complex(float(p[0]), float(p[1])))
                p = gmul(p, u)
            om = math.atan2(float(u[1]), float(u[0]))
            return {"out": [cnum(v) for v in filt(xs, zero=0)], "H": cnum(filt.freq_response(om))}
        raise ValueError("unknown entry")
    except Exception as ex:
        return {"err": err_kind(ex)}


def desc_req(d):
    if d == "self":
        return "self"
    r = {"kind": PYKINDS[d["k"]]}
    if "self" in d:
        r["self"] = d["self"]
    r["items"] = d.get("items", [])
    return r


def tree_req(tree):
    if is_bank(tree):
        k = bank_key(tree)
        return {k: [tree_req(m) for m in tree[k]]}
    return {"b": tree["b"], "a": tree["a"]}


def dft_req(c):
    truth = DFT_TRUTH.get(c["norm"])

    def tag(name):
        if name == "normalize":
            return truth
        return name if name in ("blk", "freqs") else "other"
    kw = c["kw"]
    if len(set(kw)) != len(kw):
        kw = list(dict.fromkeys(kw))
    # a surplus positional object in third place IS the normalize argument (the int 3: truthy)
    args = [(True if (a == "extra" and i == 2) else tag(a)) for i, a in enumerate(c["args"])]
    # a keyword that repeats a positional parameter: python raises TypeError (multiple values); the
    # binding model sees the same: the name is not among the parameters still to be filled
    return {"entry": "dftcall", "blk": c["blk"], "bk": DFT_BLK_KINDS[c["bkind"]],
            "ws": None if c["fkind"] in ("float", "none") else c["pts"],
            "args": args, "kwargs": [[k, tag(k)] for k in kw]}


def request(c):
    e = c["entry"]
    if e == "call":
        return {"entry": "call", "tree": tree_req(c["tree"]), "reads": c["reads"],
                "args": (["self"] if c["via"] == "method" else []) + [desc_req(d) for d in c["args"]],
                "kwargs": [[k, desc_req(d)] for k, d in c["kwargs"]]}
    if e == "dftcall":
        return dft_req(c)
    if e == "freq":
        return {"entry": "freq", "b": c["b"], "a": c["a"], "ws": c["pts"]}
    if e == "freqd":
        return {"entry": "freqd", "bt": c["bt"], "at": c["at"], "ws": c["pts"]}
    if e == "bank":
        return {"entry": "bank", "kind": c["bkind"], "ws": c["pts"],
                "bank": [{"b": f["b"], "a": f["a"]} for f in c["bank"]]}
    if e == "tree":
        return {"entry": "tree", "tree": c["tree"], "ws": c["pts"]}
    if e == "dft":
        return {"entry": "dft", "blk": c["blk"], "ws": c["pts"], "normalize": c["normalize"]}
    if e == "fir":
        return {"entry": "fir", "b": c["b"], "xs": c["xs"], "ws": c["pts"]}
    if e == "expo":
        return {"entry": "expo", "b": c["b"], "u": c["u"], "len": c["len"]}
    if e == "pole":
        return {"entry": "pole", "b": c["b"], "q": c["q"], "r": c["r"], "ws": [genc(code_point(POLE_OMEGAS[c["om"]]))]}
    if e == "dftlin":
        return {"entry": "dftlin", "xs": c["xs"], "ys": c["ys"], "c": c["c"], "ws": c["pts"], "normalize": c["normalize"]}
    if e == "hist":
        objs = [({bank_key(o): o[bank_key(o)]} if is_bank(o) else {"b": o["b"], "a": o["a"]}) for o in c["objs"]]
        ops = []
        for o in c["ops"]:
            r = dict((k, v) for k, v in o.items() if k not in ("kind", "pts", "by"))
            if "pts" in o:
                r["ws"] = o["pts"]
            ops.append(r)
        return {"entry": "hist", "objs": objs, "ops": ops}
    return c


# ----------------------------------------------------------------------------
# compare
# ----------------------------------------------------------------------------
def gclose(iv, ev, tol):
    """impl value (canonical) vs expected (driver json)"""
    if iv in ("nan", "cnan") or ev == "nan":
        return iv == ev
    if isinstance(ev, dict):
        return False
    a = (dec(iv[0]), dec(iv[1]))
    b = (dec(ev[0]), dec(ev[1]))
    if isinstance(a[0], float) or isinstance(a[1], float):      # inf
        return False
    if tol == 0:
        return a == b
    d = math.hypot(float(a[0] - b[0]), float(a[1] - b[1]))
    return d <= tol * (1 + gabs(b))


def lclose(ivs, evs, tol):
    return len(ivs) == len(evs) and all(gclose(i, e, tol) for i, e in zip(ivs, evs))


def set_close(ivs, evs, tol):
    return (all(any(gclose(i, e, tol) for e in evs) for i in ivs) and
            all(any(gclose(i, e, tol) for i in ivs) for e in evs) and len(ivs) <= len(evs))


def first_err(exp):
    for e in exp:
        if isinstance(e, dict) and "err" in e:
            return e["err"]
    return None


_ILL = {}


def ill_conditioned(c):
    k = json.dumps(c, sort_keys=True)
    r = _ILL.get(k)
    if r is None:
        if len(_ILL) > 20000:
            _ILL.clear()
        r = _ILL[k] = _ill_conditioned(c)
    return r


def _ill_conditioned(c):
    e = c["entry"]
    if e in ("freq", "freqd"):
        return not well_conditioned([c], [gdec_pt(p) for p in c["pts"]])
    if e == "bank":
        return not well_conditioned(c["bank"], [gdec_pt(p) for p in c["pts"]], c["bkind"])
    if e == "tree":
        return not tree_ok(c["tree"], [gdec_pt(p) for p in c["pts"]])
    return False


def cmp_resp(c, io, exp, label, kind_tag, out, ctor):
    """freq / bank: container kind and per-element values"""
    err = "ValueError" if ctor else first_err(exp)
    if "err" in io:
        if err != io["err"]:
            out.append((kind_tag, "%s: impl raised %s, %s predicts %s" % (c["entry"], io["err"], label, err or exp)))
        return
    if err is not None:
        out.append((kind_tag, "%s: %s predicts %s, impl returned %r" % (c["entry"], label, err, io)))
        return
    kind = c["kind"]
    if io["kind"] != RESULT_KIND[kind]:
        out.append((kind_tag, "result container is %s, expected %s" % (io["kind"], RESULT_KIND[kind])))
        return
    if kind in ("set", "frozenset"):
        ok = set_close(io["vals"], exp, TOL)
    elif kind == "stream_cycle":
        ok = lclose(io["vals"], list(exp) + list(exp), TOL)
    else:
        ok = lclose(io["vals"], exp, TOL)
    if not ok:
        out.append((kind_tag, "%s values differ from %s: impl=%r %s=%r" % (c["entry"], label, io["vals"], label, exp)))



def hist_problems(c, io, drv):
    """(kind, detail, step index) for every step of the history on which impl and Lean differ"""
    out = []
    if io.get("invalid") or not hist_valid(c):
        return out
    if "steps" not in io:
        return [("model", "hist: impl gave %r" % (io,), -1), ("spec", "hist: impl gave %r" % (io,), -1)]
    snaps = hist_sim(c)
    for i, (o, si, sd, snap) in enumerate(zip(c["ops"], io["steps"], drv["steps"], snaps)):
        k = o["op"]
        where = "step %d (%s on object %d)" % (i, k, o["t"])
        if sd.get("stuck"):
            continue
        if k in MUT_OPS:
            if "err" in si or "err" in sd:
                if si.get("err") != sd.get("err"):
                    out.append(("model", "%s: impl %r, list model %r" % (where, si, sd), i))
            elif any(si.get(x) != sd.get(x) for x in ("members", "popped", "fresh")):
                out.append(("model", "%s: impl list %r, list model %r" % (where, si, sd), i))
            continue
        if not hist_step_ok(o, snap):
            continue
        if k in ("freq", "polys"):
            pc = {"entry": where, "kind": o.get("kind", "list")}
            for tag in ("model", "spec"):
                sub = []
                cmp_resp(pc, si, sd[tag], tag, tag, sub, False)
                out.extend((a, b, i) for a, b in sub)
        elif k == "is_lti":
            for tag in ("model", "spec"):
                if si.get("bool") != sd[tag]:
                    out.append((tag, "%s: impl %r, %s %r" % (where, si, tag, sd[tag]), i))
        elif k == "call":
            if sd["model"] is None or not fir_exact(snap):
                continue
            for tag in ("model", "spec"):
                if "out" not in si or not lclose(si["out"], sd[tag], 0):
                    out.append((tag, "%s: bank(xs) = %r, %s of the current bank %r" % (where, si, tag, sd[tag]), i))
    return out


def cmp_out(io, d, tag, out, what):
    """impl observation of a call vs one side (model / spec) of the driver's answer"""
    if d.get("unmodelled"):
        return
    def bad(msg):
        out.append((tag, "%s: %s; impl=%r %s=%r" % (what, msg, io, tag, d)))
    if "err" in d:
        if io.get("err") != d["err"]:
            bad("%s predicts %s" % (tag, d["err"]))
        return
    if "err" in io:
        return bad("impl raised %s" % io["err"])
    if "value" in d:
        if "value" not in io or not gclose(io["value"], d["value"], TOL):
            bad("scalar result differs")
        return
    if "cast" in d:
        if "cast" not in io:
            return bad("expected an eager container")
        if not io["same_type"]:
            return bad("result container is a %s, not the type of the frequency object" % io["cast"])
        ok = set_close(io["vals"], d["vals"], TOL) if d["cast"] == "hash" else lclose(io["vals"], d["vals"], TOL)
        if not ok:
            bad("values differ")
        return
    if "lazy" in d:
        if io.get("lazy") != d["lazy"]:
            return bad("expected a lazy %s" % d["lazy"])
        if len(io["reads"]) != len(d["reads"]):
            return bad("number of reads")
        for ri, rd in zip(io["reads"], d["reads"]):
            if rd == "stop" or ri == "stop":
                if ri != rd:
                    return bad("reads differ (StopIteration)")
            elif "exc" in rd or "exc" in ri:
                if ri.get("exc") != rd.get("exc"):
                    return bad("reads differ (exception)")
            elif not gclose(ri["item"], rd["item"], TOL):
                return bad("reads differ (value)")
        return
    bad("unexpected driver answer")


def call_pts(c):
    pts = []
    for d in c["args"] + [v for _, v in c["kwargs"]]:
        pts += desc_pts(d)
    return pts


def compare(c, io, drv):
    out = []
    e = c["entry"]
    if e == "call":
        if not tree_ok(c["tree"], call_pts(c)):
            return []
        for tag in ("model", "spec"):
            cmp_out(io, drv[tag], tag, out, "call %s" % c["shape"])
        return out
    if e == "dftcall":
        if io.get("skip"):
            return []
        for tag in ("model", "spec"):
            d = drv[tag]
            if isinstance(d, dict):
                if io.get("err") != d.get("err"):
                    out.append((tag, "dft call: %s predicts %r, impl %r" % (tag, d, io)))
            elif "vals" not in io or not lclose(io["vals"], d, TOL):
                out.append((tag, "dft call differs from %s: impl=%r %s=%r" % (tag, io, tag, d)))
        return out
    if e == "hist":
        return [(a, b) for a, b, _ in hist_problems(c, io, drv)]
    if e in ("freq", "freqd", "bank", "tree"):
        if ill_conditioned(c):
            return []
        cmp_resp(c, io, drv["model"], "model", "model", out, drv["ctor_model"])
        if "gen" in drv:
            # the definitions regenerated from the source under test (Gen/C12Src.lean), run by the driver: cross-check of
            # the translator (it follows the source, so under an edited source it agrees with the impl, not with the model)
            cmp_resp(c, io, drv["gen"], "regenerated definition", "model", out, drv["ctor_model"])
        cmp_resp(c, io, drv["spec"], "spec", "spec", out, drv["ctor_spec"])
        if "spec_terms" in drv and drv["spec_terms"] != drv["spec"] and not drv["ctor_spec"]:
            out.append(("spec", "the dict form of the specification differs from the dense one: %r vs %r"
                        % (drv["spec_terms"], drv["spec"])))
        return out
    if e == "pole":
        a = pconv([1, -c["r"]], c["q"])
        if [gdec(x) for x in drv["a"]] != [(F(x), F(0)) for x in a]:
            out.append(("model", "pole: denominator (1 - r z^-1) q differs: harness %r, Lean %r" % (a, drv["a"])))
        if "err" not in io and io["kind"] != c["kind"]:
            out.append(("spec", "pole: result container is %s, expected %s" % (io["kind"], c["kind"])))
        for tag in ("model", "spec"):
            if "err" in io:
                out.append((tag, "pole at omega=%s: impl raised %s, %s gives %r" % (c["om"], io["err"], tag, drv[tag])))
            elif not lclose(io["vals"], drv[tag], TOL):
                out.append((tag, "pole at omega=%s: impl=%r %s=%r" % (c["om"], io["vals"], tag, drv[tag])))
        return out
    if e == "dftlin":
        if "err" in io:
            return [("model", "dftlin: impl raised %s" % io["err"])]
        if not lclose(io["block"], drv["block"], 0):
            out.append(("model", "dftlin: the combined block differs: impl=%r Lean=%r" % (io["block"], drv["block"])))
        for tag in ("model", "spec"):
            d = drv[tag]
            for side in ("lhs", "rhs") if tag == "spec" else ("lhs",):
                got = io.get(side, io["x"] if isinstance(io["x"], dict) else io["y"])
                if isinstance(d, dict) or isinstance(got, dict):
                    if not (isinstance(d, dict) and isinstance(got, dict) and d.get("err") == got.get("err")):
                        out.append((tag, "dftlin %s: impl %r, %s %r" % (side, got, tag, d)))
                elif not lclose(got, d, TOL):
                    out.append((tag, "dft is not linear (%s): impl=%r %s=%r" % (side, got, tag, d)))
        return out
    if "err" in io:
        for tag in ("model", "spec") + (("gen",) if e == "dft" and "gen" in drv else ()):
            d = drv.get(tag, drv.get("steady") if tag == "spec" else None)     # entry expo: the spec side is `steady`
            if not (isinstance(d, dict) and d.get("err") == io["err"]):
                out.append((tag if tag != "gen" else "model", "%s: impl raised %s, %s gives %r" % (e, io["err"], tag, d)))
        return out
    if e == "dft":
        for tag in ("model", "spec") + (("gen",) if "gen" in drv else ()):     # gen: the regenerated body, see "freq"
            d = drv[tag]
            if isinstance(d, dict) or not lclose(io["vals"], d, TOL):
                out.append((tag if tag != "gen" else "model", "dft differs from %s: impl=%r %s=%r" % (tag, io["vals"], tag, d)))
        return out
    if e == "fir":
        exact = c["ctype"] in ("int", "dyadic")
        tol = 0 if exact else TOL
        if not lclose(io["out"], drv["model"], tol):
            out.append(("model", "FIR output differs from the loop model: impl=%r model=%r" % (io["out"], drv["model"])))
        if not lclose(io["out"], drv["spec"], tol):
            out.append(("spec", "FIR output is not the convolution: impl=%r spec=%r" % (io["out"], drv["spec"])))
        if "c04" in drv and drv["c04"] != drv["model"]:
            out.append(("spec", "the C04 run of the FIR filter differs from the loop model: %r vs %r" % (drv["c04"], drv["model"])))
        if "c04" in drv and not lclose(io["out"], drv["c04"], tol):
            out.append(("spec", "FIR output differs from the C04 run: impl=%r c04=%r" % (io["out"], drv["c04"])))
        if "dft_of_c04" in drv and not lclose(io["dft"], drv["dft_of_c04"], TOL):
            out.append(("spec", "dft of the output differs from dft of the C04 run: impl=%r c04=%r" % (io["dft"], drv["dft_of_c04"])))
        if not lclose(io["dft"], drv["dft_of_model"], TOL):
            out.append(("model", "dft of the output differs: impl=%r model=%r" % (io["dft"], drv["dft_of_model"])))
        if not lclose(io["H"], drv["H"], TOL):
            out.append(("spec", "freq_response differs from H: impl=%r spec=%r" % (io["H"], drv["H"])))
        if c["mode"] == "impulse" and len(c["xs"]) >= max(1, len(c["b"])):
            # the property: unnormalised DFT of the impulse response = freq_response
            if not lclose(io["dft"], drv["H"], TOL):
                out.append(("spec", "dft(impulse response) != H: impl=%r spec=%r" % (io["dft"], drv["H"])))
            if not lclose(io["dft"], io["H"], 2 * TOL):
                out.append(("spec", "dft(impulse response) != freq_response on the impl itself: %r vs %r" % (io["dft"], io["H"])))
        return out
    if e == "expo":
        if not lclose(io["out"], drv["model"], TOL):
            out.append(("model", "exponential through FIR differs from the loop model: impl=%r model=%r" % (io["out"], drv["model"])))
        if "c04" in drv and not lclose(io["out"], drv["c04"], TOL):
            out.append(("spec", "exponential through FIR differs from the C04 run: impl=%r c04=%r" % (io["out"], drv["c04"])))
        if "resp" in drv and not gclose(io["H"], drv["resp"], TOL):
            out.append(("model", "freq_response of the FIR filter differs from the model: impl=%r model=%r" % (io["H"], drv["resp"])))
        k = drv["order"]
        if "c04" in drv and drv["c04"][k:] != drv["steady"][k:]:
            out.append(("spec", "steady state of the C04 run is not H*x[n] exactly: %r vs %r" % (drv["c04"][k:], drv["steady"][k:])))
        if not lclose(io["out"][k:], drv["steady"][k:], TOL):
            out.append(("spec", "steady state is not H*x[n]: impl=%r spec=%r" % (io["out"][k:], drv["steady"][k:])))
        if not gclose(io["H"], drv["H"], TOL):
            out.append(("spec", "freq_response differs from H: impl=%r spec=%r" % (io["H"], drv["H"])))
        return out
    return [("model", "unknown entry")]


def nontrivial(c, io):
    if c["entry"] == "hist":
        return any(v == "nan" or v[0] != 0 or v[1] != 0
                   for st in io.get("steps", []) for v in (st.get("vals") or st.get("out") or []))
    if "err" in io:
        return True
    if c["entry"] == "call":
        vals = ([io["value"]] if "value" in io else []) + io.get("vals", []) + \
               [r["item"] for r in io.get("reads", []) if isinstance(r, dict) and "item" in r]
        return any(v == "nan" or v[0] != 0 or v[1] != 0 for v in vals) or \
            any(isinstance(r, dict) and "exc" in r for r in io.get("reads", []))
    vals = io.get("vals") or io.get("out") or []
    if c["entry"] == "dftlin":
        vals = io["lhs"] if isinstance(io.get("lhs"), list) else ["nan"]
    return any(v in ("nan", "cnan") or v[0] != 0 or v[1] != 0 for v in vals)


def tally_hist(eng, c, io):
    ops = c["ops"]
    eng.count("hist_len", len(ops))
    eng.count("hist_uses", sum(1 for o in ops if o["op"] in USE_OPS))
    eng.count("hist_objects", "banks=%d" % sum(1 for o in c["objs"] if is_bank(o)))
    eng.count("hist_root", bank_key(c["objs"][0]))
    snaps = hist_sim(c)
    steps = io.get("steps", [])
    last = {}
    since = {}          # bank -> targets of the list operations since its last use
    for i, o in enumerate(ops):
        st = steps[i] if i < len(steps) else {}
        k = o["op"]
        tgt = "root" if o["t"] == 0 else "inner"
        eng.count("hist_op", k + (":" + st["err"] if "err" in st else ""))
        eng.count("hist_target", ("use:" if k in USE_OPS else "list-op:") + tgt)
        if k in USE_OPS:
            snap = snaps[i]
            if not hist_step_ok(o, snap):
                eng.count("hist_use_not_compared", k)
            if k == "freq":
                eng.count("hist_container", o["kind"])
                eng.count("hist_frequency_passed_by", o.get("by", "pos"))
            if snap is not None:
                eng.count("hist_depth_at_use", tree_depth(snap))
                if is_bank(snap):
                    eng.count("hist_bank_size_at_use", min(len(snap[bank_key(snap)]), 7))
            # what happened to this bank since it was last used
            if o["t"] in last:
                prev = last[o["t"]]
                if prev == snap:
                    br = "unchanged"
                elif snap is not None and prev is not None and is_bank(snap) and \
                        len(prev[bank_key(prev)]) == len(snap[bank_key(snap)]):
                    br = "changed:same-length"
                else:
                    br = "changed:other-length"
                if br != "unchanged" and o["t"] not in since.get(o["t"], []):
                    br += ":through-inner-reference"
                eng.count("hist_since_last_use", br)
                pts = set(json.dumps(p) for p in o.get("pts", []))
                if br != "unchanged" and pts & last.get(("pts", o["t"]), set()):
                    eng.count("hist_same_frequency_requeried_after_change", k)
            last[o["t"]] = snap
            last[("pts", o["t"])] = set(json.dumps(p) for p in o.get("pts", []))
            since[o["t"]] = []
        else:
            for t in since:
                since[t].append(o["t"])
    eng.count("regime", "float(tol 1e-9)")


def tally(eng, c, io):
    e = c["entry"]
    eng.count("entry", e)
    if e == "hist":
        return tally_hist(eng, c, io)
    if "err" in io:
        eng.count("impl_error", e + ":" + io["err"])
    if e == "call":
        eng.count("call_shape", c["shape"])
        eng.count("call_target", ("filter:" + c["tree"].get("cls", "ZFilter")) if not is_bank(c["tree"]) else
                  "%s:depth%d" % (bank_key(c["tree"]), tree_depth(c["tree"])))
        for d in c["args"] + [v for _, v in c["kwargs"]]:
            if d != "self":
                eng.count("call_object", d["k"])
                eng.count("call_object_size", "scalar" if "self" in d else min(len(d["items"]), 5))
                if any(x in ("bad", "nested") for x in d.get("items", [])):
                    eng.count("call_object_has_non_number", d["k"])
        res = ("raises:" + io["err"]) if "err" in io else ("lazy:" + io["lazy"]) if "lazy" in io else \
            ("cast:" + io["cast"]) if "cast" in io else "value" if "value" in io else "other"
        eng.count("call_result", res)
        if "lazy" in io:
            eng.count("call_lazy_reads", "exception-mid-stream" if any(isinstance(r, dict) and "exc" in r
                                                                        for r in io["reads"]) else "clean")
        eng.count("regime", "float(tol 1e-9)")
    elif e == "dftcall":
        eng.count("dft_blk_kind", c["bkind"])
        eng.count("dft_freqs_kind", c["fkind"])
        eng.count("dft_normalize_spelling", c["norm"] + (":positional" if "normalize" in c["args"] else
                                                          ":keyword" if "normalize" in c["kw"] else ""))
        eng.count("dft_call_shape", "%d-positional+%s" % (len(c["args"]), ",".join(c["kw"]) or "-"))
        eng.count("dft_call_result", ("raises:" + io["err"]) if "err" in io else "list")
        eng.count("regime", "float(tol 1e-9)")
    if e in ("freq", "freqd", "bank", "tree"):
        eng.count("frequency_passed_by", c.get("by", "pos"))
        eng.count("container", c["kind"])
        eng.count("n_points", min(len(c["pts"]), 8))
        for p in c["pts"]:
            w = gdec_pt(p)
            name = next((k for k, v in SPECIAL.items() if v == w), "pythagorean")
            eng.count("point", name)
        vals = io.get("vals", [])
        eng.count("nan_results", sum(1 for v in vals if v == "nan"))
        eng.count("regime", "float(tol 1e-9)")
        if ill_conditioned(c):
            eng.count("ill_conditioned_skipped", e)
    if e == "freq":
        eng.count("ctype", c["ctype"])
        eng.count("len_b", len(c["b"]))
        eng.count("len_a", len(c["a"]))
        a = [gdec(x) for x in c["a"]]
        lead = next((i for i, x in enumerate(a) if x != (0, 0)), None)
        b_nz = [i for i, x in enumerate(c["b"]) if gdec(x) != (0, 0)]
        if lead is None:
            br = "no-denominator-term(ValueError)"
        elif lead > 0:
            br = "shifted:general-sum" if (b_nz and b_nz[0] < lead) else "shifted:horner"
        else:
            br = "horner"
        eng.count("eval_branch", br)
        if not b_nz:
            eng.count("eval_branch", "empty-numerator")
        gaps = any(j - i > 1 for i, j in zip(b_nz, b_nz[1:]))
        eng.count("horner_merged_gap", gaps)
        eng.count("class", c.get("cls"))
    elif e == "freqd":
        ks_a = [k for k, x in c["at"] if gdec(x) != (0, 0)]
        ks_b = [k for k, x in c["bt"] if gdec(x) != (0, 0)]
        if not ks_a:
            br = "dict:no-denominator-term(ValueError)"
        else:
            lo = min(ks_a)
            br = ("dict:shift%+d" % (-lo if abs(lo) < 3 else (3 if lo < 0 else -3))) + \
                 (":general-sum" if any(k < lo for k in ks_b) else ":horner")
        eng.count("eval_branch", br)
        eng.count("dict_unsorted", ks_b != sorted(ks_b) or ks_a != sorted(ks_a))
    elif e == "tree":
        eng.count("tree_depth", tree_depth(c["tree"]))
        eng.count("tree_root", "cascade" if "cascade" in c["tree"] else "parallel")
    elif e == "bank":
        eng.count("bank", "%s:%d" % (c["bkind"], len(c["bank"])))
    elif e == "dft":
        eng.count("dft_normalize", c["normalize"])
        eng.count("dft_len", min(len(c["blk"]) // 4 * 4, 48))
        eng.count("dft_btype", c["btype"])
        eng.count("regime", "float(tol 1e-9)")
    elif e == "fir":
        eng.count("fir_mode", c["mode"])
        eng.count("regime", "exact" if c["ctype"] in ("int", "dyadic") else "float(tol 1e-9)")
    elif e == "expo":
        eng.count("expo_len_minus_order", c["len"] - len(c["b"]) + 1)
        eng.count("regime", "float(tol 1e-9)")
    elif e == "pole":
        eng.count("pole_omega", c["om"])
        eng.count("pole_factor", "1%+dz^-1 at %s" % (-c["r"], {1: "w~1", -1: "w~-1", 0: "w~+-i"}[POLE_SIDE[c["om"]]]))
        vals = io.get("vals", [])
        eng.count("pole_result", "nan" if "nan" in vals else "cnan" if "cnan" in vals else "raises" if "err" in io else
                  "huge(>1e9)" if vals and gabs((float(dec(vals[0][0])), float(dec(vals[0][1])))) > 1e9 else "ordinary")
        eng.count("regime", "float(tol 1e-9)")
    elif e == "dftlin":
        eng.count("dftlin_normalize", c["normalize"])
        eng.count("dftlin_len", min(len(c["xs"]) // 4 * 4, 48))
        eng.count("dftlin_result", "raises" if isinstance(io.get("lhs"), dict) else "list")
        eng.count("regime", "float(tol 1e-9)")


# ----------------------------------------------------------------------------
# shrink / neighbours / classify
# ----------------------------------------------------------------------------
def _shrink_list(xs):
    for i in range(len(xs)):
        yield xs[:i] + xs[i + 1:]
    for i, x in enumerate(xs):
        if x not in (0, 1):
            yield xs[:i] + [1] + xs[i + 1:]
            yield xs[:i] + [0] + xs[i + 1:]


def _shrink_tree(node):
    """smaller variants of a bank tree (a node replaced by a member, a member dropped, a leaf shrunk)"""
    key = "cascade" if "cascade" in node else ("parallel" if "parallel" in node else None)
    if key is None:
        for b in _shrink_list(node["b"]):
            yield dict(node, b=b)
        if not node.get("raw"):
            for a in _shrink_list(node["a"]):
                if a:
                    yield dict(node, a=a)
        else:
            yield dict((k, v) for k, v in node.items() if k != "raw")
        return
    ms = node[key]
    for i, m in enumerate(ms):
        yield m                                           # the member instead of the node
        rest = ms[:i] + ms[i + 1:]
        if not (node.get("form") == "star" and len(rest) == 1 and rest[0].get("raw")):
            yield dict(node, **{key: rest})
        for m2 in _shrink_tree(m):
            new = ms[:i] + [m2] + ms[i + 1:]
            if not (node.get("form") == "star" and len(new) == 1 and new[0].get("raw")):
                yield dict(node, **{key: new})
    if node.get("form") == "list":
        if not (len(ms) == 1 and ms[0].get("raw")):
            yield dict(node, form="star")



def _renumber(c, k):
    """drop object k (nobody refers to it): references above k move down"""
    def f(r):
        return r - 1 if r > k else r
    objs = []
    for t, o in enumerate(c["objs"]):
        if t == k:
            continue
        objs.append({bank_key(o): [f(r) for r in o[bank_key(o)]]} if is_bank(o) else o)
    ops = []
    for o in c["ops"]:
        o = dict(o, t=f(o["t"]))
        if "x" in o:
            o["x"] = f(o["x"])
        if "xs" in o and o["op"] != "call":
            o["xs"] = [f(r) for r in o["xs"]]
        ops.append(o)
    return dict(c, objs=objs, ops=ops)


def shrink_hist(c):
    ops, objs = c["ops"], c["objs"]
    uses = sum(1 for o in ops if o["op"] in USE_OPS)
    # 1. drop a step
    for i, o in enumerate(ops):
        if o["op"] not in USE_OPS or uses > 1:
            yield dict(c, ops=ops[:i] + ops[i + 1:])
    # 2. drop an object nobody refers to
    used = set([0])
    for o in objs:
        if is_bank(o):
            used.update(o[bank_key(o)])
    for o in ops:
        used.add(o["t"])
        used.update(op_refs(o))
    for k in range(len(objs) - 1, 0, -1):
        if k not in used:
            yield _renumber(c, k)
    # 3. fewer initial members
    for t, o in enumerate(objs):
        if is_bank(o):
            ms = o[bank_key(o)]
            for i in range(len(ms)):
                yield dict(c, objs=objs[:t] + [{bank_key(o): ms[:i] + ms[i + 1:]}] + objs[t + 1:])
    # 4. simpler steps
    for i, o in enumerate(ops):
        def put(o2):
            return dict(c, ops=ops[:i] + [o2] + ops[i + 1:])
        if "pts" in o:
            for j in range(len(o["pts"])):
                if len(o["pts"]) > 1:
                    yield put(dict(o, pts=o["pts"][:j] + o["pts"][j + 1:]))
        if o["op"] == "freq" and o["kind"] not in ("list", "scalar"):
            yield put(dict(o, kind="list"))
        if o["op"] == "freq" and o.get("by") == "kw":
            yield put(dict((k, v) for k, v in o.items() if k != "by"))
        if o["op"] == "call":
            for xs in _shrink_list(o["xs"]):
                yield put(dict(o, xs=xs))
        if o["op"] in ("extend", "iadd", "setslice"):
            for j in range(len(o["xs"])):
                yield put(dict(o, xs=o["xs"][:j] + o["xs"][j + 1:]))
        if o["op"] in ("setslice", "delslice"):
            for key in ("i", "j"):
                if o.get(key) is not None:
                    yield put(dict(o, **{key: None}))
        if o["op"] in ("setitem", "insert", "delitem", "pop", "swap"):
            for key in ("i", "j"):
                if o.get(key) not in (None, 0):
                    yield put(dict(o, **{key: 0}))
        if o["t"] != 0 and o["op"] in USE_OPS:
            yield put(dict(o, t=0))
    if c.get("wrap"):
        yield dict(c, wrap=False)
    # 5. simpler filters
    for t, o in enumerate(objs):
        if is_bank(o):
            continue
        def putf(f):
            return dict(c, objs=objs[:t] + [f] + objs[t + 1:])
        for b in _shrink_list(o["b"]):
            yield putf(dict(o, b=b))
        if o.get("raw"):
            yield putf(dict((k, v) for k, v in o.items() if k != "raw"))
        else:
            for a in _shrink_list(o["a"]):
                if a and any(gdec(x) != (0, 0) for x in a):
                    yield putf(dict(o, a=a))
        if o.get("ctype") != "int" and all(isinstance(x, int) for x in o["b"] + o["a"]):
            yield putf(dict(o, ctype="int"))


def shrink(c):
    e = c["entry"]
    if e == "hist":
        for x in shrink_hist(c):
            if hist_valid(x):
                yield x
        return
    if e == "call":
        def subst(i, kw, d2):
            if kw:
                return dict(c, kwargs=c["kwargs"][:i] + [[c["kwargs"][i][0], d2]] + c["kwargs"][i + 1:])
            return dict(c, args=c["args"][:i] + [d2] + c["args"][i + 1:])
        for kw, seq in ((False, c["args"]), (True, [v for _, v in c["kwargs"]])):
            for i, d in enumerate(seq):
                if d == "self" or "items" not in d:
                    continue
                for j in range(len(d["items"])):
                    yield subst(i, kw, dict(d, items=d["items"][:j] + d["items"][j + 1:]))
                if d["k"] not in ("list", "gen") and PYKINDS[d["k"]] in ("seq", "someGen", "stream", "hash"):
                    yield subst(i, kw, dict(d, k="gen" if PYKINDS[d["k"]] in ("someGen", "stream") else "list"))
        if is_bank(c["tree"]):
            for t in _shrink_tree(c["tree"]):
                if not is_bank(t):
                    t = dict(t, cls="ZFilter")
                yield dict(c, tree=t)
        else:
            for b in _shrink_list(c["tree"]["b"]):
                yield dict(c, tree=dict(c["tree"], b=b, cls="ZFilter"))
            for a in _shrink_list(c["tree"]["a"]):
                if a and any(gdec(x) != (0, 0) for x in a):
                    yield dict(c, tree=dict(c["tree"], a=a, cls="ZFilter"))
        if c.get("wrap"):
            yield dict(c, wrap=False)
        return
    if e == "dftcall":
        for blk in _shrink_list(c["blk"]):
            if c["bkind"] not in ("range", "dict"):
                yield dict(c, blk=blk)
        for i in range(len(c["pts"])):
            if len(c["pts"]) > 1 or c["fkind"] not in ("float", "none"):
                yield dict(c, pts=c["pts"][:i] + c["pts"][i + 1:])
        if c["bkind"] not in ("list", "gen", "range", "dict"):
            yield dict(c, bkind="list" if DFT_BLK_KINDS[c["bkind"]] == "sized" else "gen")
        if c["fkind"] not in ("list", "float", "none"):
            yield dict(c, fkind="list")
        if c.get("wrap"):
            yield dict(c, wrap=False)
        return
    if e in ("freq", "freqd", "bank", "tree", "dft", "fir"):
        pts = c["pts"]
        for i in range(len(pts)):
            if c.get("kind") != "scalar" or len(pts) > 1:
                yield dict(c, pts=pts[:i] + pts[i + 1:])
        if c.get("wrap"):
            yield dict(c, wrap=False)
    if e in ("freq", "freqd", "bank", "tree") and c["kind"] not in ("list", "scalar"):
        yield dict(c, kind="list")
    if e in ("freq", "freqd", "bank", "tree") and c.get("by") == "kw":
        yield dict(c, by="pos")
    if e == "tree":
        for t in _shrink_tree(c["tree"]):
            if "cascade" in t or "parallel" in t:
                yield dict(c, tree=t)
    if e == "freqd":
        for key in ("bt", "at"):
            ts = c[key]
            for i in range(len(ts)):
                if key == "bt" or len(ts) > 1:
                    yield dict(c, **{key: ts[:i] + ts[i + 1:]})
                if ts[i][1] != 1:
                    yield dict(c, **{key: ts[:i] + [[ts[i][0], 1]] + ts[i + 1:]})
                if ts[i][0] != 0 and all(t[0] != ts[i][0] - (1 if ts[i][0] > 0 else -1) for t in ts):
                    yield dict(c, **{key: ts[:i] + [[ts[i][0] - (1 if ts[i][0] > 0 else -1), ts[i][1]]] + ts[i + 1:]})
            if ts != sorted(ts, key=lambda t: t[0]):
                yield dict(c, **{key: sorted(ts, key=lambda t: t[0])})
    if e == "freq":
        for b in _shrink_list(c["b"]):
            yield dict(c, b=b)
        for a in _shrink_list(c["a"]):
            if a:
                yield dict(c, a=a)
        if c.get("cls") != "ZFilter":
            yield dict(c, cls="ZFilter")
    elif e == "bank":
        bank = c["bank"]
        for i in range(len(bank)):
            if len(bank) > 1:
                yield dict(c, bank=bank[:i] + bank[i + 1:])
            for b in _shrink_list(bank[i]["b"]):
                yield dict(c, bank=bank[:i] + [dict(bank[i], b=b)] + bank[i + 1:])
            for a in _shrink_list(bank[i]["a"]):
                if a:
                    yield dict(c, bank=bank[:i] + [dict(bank[i], a=a)] + bank[i + 1:])
    elif e == "dft":
        for blk in _shrink_list(c["blk"]):
            yield dict(c, blk=blk)
    elif e == "fir":
        for b in _shrink_list(c["b"]):
            yield dict(c, b=b, mode="ints" if c["mode"] == "impulse" and len(c["xs"]) < len(b) else c["mode"])
        if c["mode"] == "ints":
            for xs in _shrink_list(c["xs"]):
                yield dict(c, xs=xs)
        elif len(c["xs"]) > max(1, len(c["b"])):
            yield dict(c, xs=c["xs"][:-1])
    elif e == "expo":
        for b in _shrink_list(c["b"]):
            if b:
                yield dict(c, b=b, len=max(c["len"] - 1, len(b)))
        if c["len"] > len(c["b"]):
            yield dict(c, len=c["len"] - 1)
    elif e == "pole":
        for b in _shrink_list(c["b"]):
            yield dict(c, b=b)
        for q in _shrink_list(c["q"]):
            if q and q[0] != 0 and gabs(gpoly([(F(x), F(0)) for x in q], code_point(POLE_OMEGAS[c["om"]]))) >= 0.25:
                yield dict(c, q=q)
        if c["kind"] != "scalar":
            yield dict(c, kind="scalar")
        if c.get("by") == "kw":
            yield dict(c, by="pos")
    elif e == "dftlin":
        for i in range(len(c["xs"])):
            yield dict(c, xs=c["xs"][:i] + c["xs"][i + 1:], ys=c["ys"][:i] + c["ys"][i + 1:])
        for i in range(len(c["pts"])):
            yield dict(c, pts=c["pts"][:i] + c["pts"][i + 1:])
        if c["c"] != 1:
            yield dict(c, c=1)


def neighbours(c):
    e = c["entry"]
    others = [genc(point_from_t(1, 2)), genc(point_from_t(-1, 3)), genc(SPECIAL["pi/2"]), genc(SPECIAL["0"])]
    if e == "hist":
        # the same history probed by freq_response (list of two points) wherever it is used
        for p in others[:2]:
            yield dict(c, ops=[(dict(o, op="freq", kind="list", pts=[p, others[2]]) if o["op"] in USE_OPS else o)
                               for o in c["ops"]])
        # ... and used once more at the end, at the frequencies of the earlier uses
        for o in c["ops"]:
            if o["op"] == "freq":
                yield dict(c, ops=c["ops"] + [dict(o, t=0)])
        return
    if e in ("call", "dftcall"):
        return
    if e == "freq":
        for key in ("b", "a"):
            xs = c[key]
            for i, x in enumerate(xs):
                if not isinstance(x, list) and isinstance(x, int):
                    for d in (-1, 1):
                        yield dict(c, **{key: xs[:i] + [x + d] + xs[i + 1:]})
        for p in others:
            yield dict(c, pts=[p], kind="list")
    elif e in ("freqd", "tree"):
        for p in others:
            yield dict(c, pts=[p], kind="list")
    elif e == "bank":
        for p in others:
            yield dict(c, pts=[p], kind="list")
        for k in ("cascade", "parallel"):
            yield dict(c, bkind=k)
    elif e in ("dft", "fir"):
        for p in others:
            yield dict(c, pts=[p])
        if e == "dft":
            yield dict(c, normalize=not c["normalize"])
    elif e == "expo":
        for p in others:
            yield dict(c, u=[p[0], enc(-dec(p[1]))])
    elif e == "pole":
        for name in ("0", "pi", "1e-13", "2pi"):
            if name != c["om"]:
                yield dict(c, om=name, r=POLE_SIDE[name])
    elif e == "dftlin":
        yield dict(c, normalize=not c["normalize"])


def classify(c, io, drv):
    e = c["entry"]
    if e == "hist":
        ps = hist_problems(c, io, drv)
        ps = [p for p in ps if p[0] == "spec"] or ps
        if not ps or ps[0][2] < 0:
            return "hist:raises" if ps else "hist:value"
        i = ps[0][2]
        o = c["ops"][i]
        st = io["steps"][i]
        changed = any(x["op"] in MUT_OPS for x in c["ops"][:i])
        tag = "hist-%s:%s%s" % (bank_key(c["objs"][o["t"]]), o["op"], "-after-list-op" if changed else "")
        return "%s:%s" % (tag, ("raises-" + st["err"]) if "err" in st else "value")
    if e == "call":
        d = drv.get("spec", {})
        exp = ("raises-" + d["err"]) if "err" in d else ("lazy-" + d["lazy"]) if "lazy" in d else \
            ("cast-" + d["cast"]) if "cast" in d else "value"
        got = ("raises-" + io["err"]) if "err" in io else ("lazy-" + io["lazy"]) if "lazy" in io else \
            ("cast-" + io["cast"]) if "cast" in io else "value"
        return "call:%s:expected-%s:got-%s" % (c["shape"], exp, got)
    if e == "dftcall":
        return "dftcall:%s:%s" % (c["bkind"], ("raises-" + io["err"]) if "err" in io else "value")
    tag = e if e != "bank" else c["bkind"]
    if e == "pole":
        vals = io.get("vals", [])
        return "pole:%s:%s" % ("at-the-pole" if POLE_SIDE[c["om"]] == c["r"] and c["om"] in ("0", "-0.0", "int0") else
                               "next-to-the-pole" if POLE_SIDE[c["om"]] == c["r"] else "ordinary-point",
                               ("raises-" + io["err"]) if "err" in io else "nan" if "nan" in vals else
                               "complex-nan" if "cnan" in vals else "value")
    if e == "tree":
        tag = "tree-" + ("cascade" if "cascade" in c["tree"] else "parallel")
    if "err" in io:
        return "%s:raises-%s" % (tag, io["err"])
    exp = drv.get("spec")
    if e in ("freq", "freqd", "bank", "tree"):
        if drv.get("ctor_spec") or first_err(exp):
            return "%s:expected-%s" % (tag, "ValueError" if drv.get("ctor_spec") else first_err(exp))
        if io.get("kind") != RESULT_KIND[c["kind"]]:
            return "%s:container-kind" % tag
        if any(x == "nan" for x in exp) or any(x == "nan" for x in io.get("vals", [])):
            return "%s:nan-mismatch-or-value" % tag
    return "%s:value" % tag


# =============================================================================================
# source translator (harness/props/c12_tr.py -> lean/ALV/Gen/C12Src.lean)
# =============================================================================================
def regenerate(eng=None):
    return c12_tr.regenerate(eng)


def extra_checks(eng):
    """translator self test + the list of what is / is not under the translator (evidence)"""
    import os
    import subprocess
    eng.extra["translated"] = {
        "translator": "harness/props/c12_tr.py -> lean/ALV/Gen/C12Src.lean (rewritten before every build)",
        "under_the_translator": c12_tr.TRANSLATED,
        "hand_written_only": c12_tr.NOT_TRANSLATED,
    }
    committed = None
    try:
        r = subprocess.run(["git", "-C", common.VERIF, "show", "HEAD:lean/" + c12_tr.GEN_REL.replace(os.sep, "/")],
                           capture_output=True, text=True, timeout=30)
        if r.returncode == 0:
            committed = r.stdout
    except Exception:
        committed = None
    if committed is None:
        with open(os.path.join(common.LEAN, c12_tr.GEN_REL)) as f:
            committed = f.read()
    try:
        texts = c12_tr.read_sources()
        c12_tr.translate(texts)
    except Exception as e:            # already reported by regenerate() as a broken obligation
        yield ("translator-selftest", False, "the source under test does not translate (%s: %s)" % (type(e).__name__, e))
        return
    # the self test runs on the source under test when that is the committed state, else the edits may not apply
    for name, ok, detail in c12_tr.selftest(texts, committed):
        yield (name, ok, detail)
