"""C05 — translator T5: regenerates the Lean definitions of the filter ALGEBRA from the source text of the repo under test.

Reads `audiolazy/lazy_filters.py` with `ast` (nothing is imported from the repo) and writes `lean/ALV/Gen/C05Src.lean`
(namespace `ALV.Gen.C05`): one Lean definition per (method, kind of the argument) IN THE VOCABULARY OF THE HAND-WRITTEN
MODEL `ALV/Model/C05.lean` (`ZF`, `C07.add / mul / pow / eq / mk / ofList`, `C04.minKey`, `Except PyErr`).  The theorems
`ALV.Props.C05.src_<f>_is_model` then state `ALV.Gen.C05.<f> = ALV.C05.<f>`: every theorem about the model is a theorem
about the regenerated definition, and an edit of the source that changes the meaning of a translated body breaks the proof.

The translation is SHALLOW and TYPE DIRECTED (a partial evaluation of the method body for one kind of `other`):

  kinds of an argument   zf (a ZFilter), foreign (a LinearFilter that is not a ZFilter), num (a number), int (an exponent),
                         poly (a Poly)
  isinstance(x, T)       decided statically from the kind; a branch that cannot be taken is dropped, statements after a
                         taken `return` / `raise` are dropped
  x.numpoly / x.denpoly  x.num / x.den                  P.copy()          P   (value semantics)
  P + Q, P * Q, P ** n   C07.add / C07.mul / C07.pow    P * c             C07.mul P (C07.ofScalar c)
  P == Q / P != Q        C07.eq / C07.ne                len(P)            P.length
  Poly([a, b]) / Poly({k: v}) / Poly(P)   C07.ofList [a, b] / C07.mk [(k, v)] / C07.mk P ; a list / dict literal anywhere
                         else is read as that Poly value
  ZFilter(A, B), cls(A, B)   ofPolys A B  (the translated `LinearFilter.__init__`);  ZFilter([c])  ofPolys (C07.ofList [c]) defaultDen
  min(key for key, value in P.terms())    C04.minKey P, `none` = ValueError
  F op G on filters / numbers   the translated dunder of that operator for those kinds (`__rbinary__` for number op filter,
                         `__unary__` for -F); a dunder that calls its own operator again is emitted with FUEL
                         (`powFuel`), the theorem is for every fuel >= 2
  operator.truediv(a, c)    numTruediv a c  (ZeroDivisionError for c = 0: `ALV/Model/C05Vocab.lean`)
  P.terms()              C07.sortAsc P       OrderedDict(terms) = the same pairs       tuple(odict) = C07.keys
  hash(t)                t  (what is hashed; CPython's hash of a tuple of ints is trusted)
  sum(E for k, v in P.terms())   sumTerms (fun k v => E) P  (fold of `+` from `ZFilter([0])`: `ALV/Model/C05Vocab.lean`)
  raise ValueError(..)   .error .value       a and b / a or b / not a       && / || / !  on Bool, ∧ / ∨ / ¬ on comparisons

The FILTER LIST classes are translated by shape (a fixed statement skeleton per function; conditions, comparison operators,
constants, indices, `operator.<op>`, the generator's item, the raised exception class are read from the source):

  FilterList.__init__    `if <test>: filters = filters[i]` + `self.extend(filters)`  ->  if <test> then extendItem filters i else
                         extendTuple filters; <test> over `len(filters) <cmp> n`, `callable(filters[i])`, `isinstance(filters[i], Iterable)`
  FilterList.__eq__/__ne__   `type(x) ==/!= type(y)` -> decide (k = k') / (k ≠ k'); `list.__eq__/__ne__(x, y)` -> FLs.eq / FLs.listNe
  reduce(operator.<op>, (<item> for filt in self.callables))   reduceGen <op> (parts.map …), `parts` = the lazily computed
                         `(filt.numpoly, filt.denpoly)` of the parts; <item> is filt.numpoly / filt.denpoly / ZFilter(<poly>, <poly>)
  try: … except AttributeError: raise AttributeError(..)      reraiseAttribute (…)
  self.is_linear()       the input `linear`            self._sum_filter().numpoly   bind of the translated `_sum_filter`
  (vocabulary: `ALV/Model/C05ListVocab.lean`)

Anything else inside a translated function is a `TranslationError` (= broken obligation, the last committed file stays).
Local variable names are normalised (x1, x2, …), comments / docstrings / messages of exceptions do not reach the output."""
import ast
import os

import common

SRC_REL = os.path.join("audiolazy", "lazy_filters.py")
GEN_REL = os.path.join("ALV", "Gen", "C05Src.lean")


class TranslationError(Exception):
    pass


def read_source(repo=None):
    with open(os.path.join(repo or common.REPO, SRC_REL)) as f:
        return f.read()


# ---------------------------------------------------------------------------------------------------------------
# small helpers
# ---------------------------------------------------------------------------------------------------------------
def par(t):
    t = t.strip()
    if " " not in t and "\n" not in t:
        return t
    if t[0] in "([⟨" and _closes(t):
        return t
    return "(" + t + ")"


def _closes(t):
    """the opening bracket at position 0 closes at the very end"""
    pairs = {"(": ")", "[": "]", "⟨": "⟩"}
    depth = 0
    for i, ch in enumerate(t):
        if ch in pairs:
            depth += 1
        elif ch in pairs.values():
            depth -= 1
            if depth == 0:
                return i == len(t) - 1
    return False


def ind(text, n):
    pad = " " * n
    return "\n".join(pad + l if l else l for l in text.split("\n"))


def short(node):
    return ast.dump(node)[:100]


OPSYM = {ast.Add: "+", ast.Sub: "-", ast.Mult: "*", ast.Div: "/", ast.Pow: "**"}
UOPSYM = {ast.USub: "-", ast.UAdd: "+"}
ERR = {"ValueError": ".value", "TypeError": ".type", "AttributeError": ".attribute", "ZeroDivisionError": ".zeroDivision",
       "NotImplementedError": ".notImplemented"}
LTYPE = {"zf": "ALV.C05.ZF α", "num": "α", "int": "Int", "poly": "MPoly α", "B": "Bool", "intlist": "List Int"}


class Val:
    """a compiled expression: kind, Lean term, and whether the term is an `Except PyErr` computation still to be bound"""
    def __init__(self, ty, term, monadic=False, static=None):
        self.ty, self.term, self.monadic, self.static = ty, term, monadic, static


class Unit:
    """one translated function: the dispatch table of the already translated dunders is shared"""

    def __init__(self, tr, name, env, result, self_name=None, rec=None):
        self.tr, self.name, self.env, self.result = tr, name, dict(env), result
        self.self_name = self_name
        self.nloc = 0
        self.rec = rec            # (op, ltype, rtype) that is this very function: calls go to `powFuel k`
        self.used_rec = False
        self.props = {}

    # --- do-blocks ------------------------------------------------------------------------------------------
    def fresh(self):
        self.nloc += 1
        return "x%d" % self.nloc

    def bind(self, v, binds):
        if not v.monadic:
            return v
        x = self.fresh()
        binds.append("let %s ← %s" % (x, v.term))
        return Val(v.ty, x)

    def val(self, node, binds):
        return self.bind(self.expr(node, binds), binds)

    # --- expressions ----------------------------------------------------------------------------------------
    def expr(self, node, binds):
        m = getattr(self, "e_" + type(node).__name__, None)
        if m is None:
            raise TranslationError("%s: unsupported expression %s" % (self.name, short(node)))
        return m(node, binds)

    def e_Constant(self, node, binds):
        v = node.value
        if isinstance(v, bool):
            return Val("B", "true" if v else "false")
        if isinstance(v, int):
            return Val("lit", str(v) if v >= 0 else "(%d)" % v)
        raise TranslationError("%s: unsupported constant %r" % (self.name, v))

    def e_Name(self, node, binds):
        if node.id in self.env:
            return self.env[node.id]
        raise TranslationError("%s: unknown name %r" % (self.name, node.id))

    def e_List(self, node, binds):
        items = [self.val(e, binds) for e in node.elts]
        for it in items:
            if it.ty not in ("num", "lit"):
                raise TranslationError("%s: list literal of %s" % (self.name, it.ty))
        return Val("poly", "C07.ofList [%s]" % ", ".join(i.term for i in items))

    def e_Dict(self, node, binds):
        prs = []
        for k, v in zip(node.keys, node.values):
            kv, vv = self.val(k, binds), self.val(v, binds)
            if kv.ty not in ("int", "lit") or vv.ty not in ("num", "lit"):
                raise TranslationError("%s: dict literal %s: %s" % (self.name, kv.ty, vv.ty))
            prs.append("(%s, %s)" % (kv.term, vv.term))
        return Val("poly", "C07.mk [%s]" % ", ".join(prs))

    def e_Attribute(self, node, binds):
        if isinstance(node.value, ast.Name) and node.value.id == "operator":
            raise TranslationError("%s: operator.%s outside a call" % (self.name, node.attr))
        o = self.val(node.value, binds)
        if o.ty == "self" and node.attr in ("numpoly", "denpoly"):     # the object under construction
            st = self.env["__state__"]
            if st[node.attr] is None:
                raise TranslationError("%s: self.%s read before it is assigned" % (self.name, node.attr))
            return Val("poly", st[node.attr])
        if o.ty == "zf" and node.attr in ("numpoly", "denpoly"):
            return Val("poly", "%s.%s" % (par(o.term), "num" if node.attr == "numpoly" else "den"))
        if o.ty == "zf" and node.attr in self.tr.properties:           # a property of LinearFilterProperties: inlined
            body = self.tr.properties[node.attr]
            sub = Unit(self.tr, self.name + "." + node.attr, {"self": o}, None)
            return sub.val(body, binds)
        raise TranslationError("%s: attribute .%s of a %s" % (self.name, node.attr, o.ty))

    def e_UnaryOp(self, node, binds):
        if isinstance(node.op, ast.Not):
            a = self.val(node.operand, binds)
            return self.negate(a)
        if type(node.op) not in UOPSYM:
            raise TranslationError("%s: unary operator %s" % (self.name, type(node.op).__name__))
        if isinstance(node.operand, ast.Constant) and isinstance(node.operand.value, int) and isinstance(node.op, ast.USub):
            return Val("lit", "(-%d)" % node.operand.value)
        return self.unop(UOPSYM[type(node.op)], self.val(node.operand, binds))

    def negate(self, a):
        if a.static is not None:
            return Val("B", "", static=not a.static)
        if a.ty == "B":
            return Val("B", "!%s" % par(a.term))
        if a.ty == "P":
            return Val("P", "¬ %s" % par(a.term))
        raise TranslationError("%s: not of a %s" % (self.name, a.ty))

    def unop(self, sym, a):
        if a.ty in ("int", "num") and sym == "-":
            return Val(a.ty, "(-%s)" % a.term)
        if a.ty == "poly":
            return Val("poly", "%s %s" % ({"-": "C07.neg", "+": "C07.pos"}[sym], par(a.term)))
        if a.ty == "zf":
            return self.dispatch(("u" + sym, "zf"), [a])
        if a.ty == "foreign":
            # a plain LinearFilter has no __neg__ / __pos__ (only the ZFilter metaclass installs them)
            return Val("zf", "(.error .type : Except PyErr (ALV.C05.ZF α))", monadic=True)
        raise TranslationError("%s: unary %s of a %s" % (self.name, sym, a.ty))

    def dispatch(self, key, args):
        if self.rec is not None and key == self.rec:
            self.used_rec = True
            return Val("zf", "powFuel k %s" % " ".join(par(a.term) for a in args), monadic=True)
        if key not in self.tr.table:
            raise TranslationError("%s: operator %s on %s is not translated (yet)" % (self.name, key[0], " , ".join(key[1:])))
        return Val("zf", "%s %s" % (self.tr.table[key], " ".join(par(a.term) for a in args)), monadic=True)

    def e_BinOp(self, node, binds):
        if type(node.op) not in OPSYM:
            raise TranslationError("%s: operator %s" % (self.name, type(node.op).__name__))
        return self.binop(OPSYM[type(node.op)], self.val(node.left, binds), self.val(node.right, binds))

    def binop(self, sym, a, b):
        t = (a.ty, b.ty)
        if t == ("poly", "poly") and sym in "+-*":
            return Val("poly", "%s %s %s" % ({"+": "C07.add", "-": "C07.sub", "*": "C07.mul"}[sym], par(a.term), par(b.term)))
        if t == ("poly", "num") and sym == "*":
            return Val("poly", "C07.mul %s (C07.ofScalar %s)" % (par(a.term), par(b.term)))
        if t in (("poly", "int"), ("poly", "lit")) and sym == "**":
            return Val("poly", "C07.pow %s %s" % (par(a.term), par(b.term)))
        if t == ("intlist", "intlist") and sym == "+":
            return Val("intlist", "%s ++ %s" % (a.term, b.term))
        if "zf" in t:
            return self.dispatch((sym, a.ty, b.ty), [a, b])
        raise TranslationError("%s: %s %s %s" % (self.name, a.ty, sym, b.ty))

    def e_Compare(self, node, binds):
        if len(node.ops) != 1:
            raise TranslationError("%s: chained comparison" % self.name)
        op, l, r = node.ops[0], node.left, node.comparators[0]
        if isinstance(op, (ast.Is, ast.IsNot)):
            if not (isinstance(r, ast.Constant) and r.value is None):
                raise TranslationError("%s: `is` with something else than None" % self.name)
            a = self.val(l, binds)
            isnone = a.ty == "none"
            return Val("B", "", static=isnone if isinstance(op, ast.Is) else not isnone)
        a, b = self.val(l, binds), self.val(r, binds)
        t = (a.ty, b.ty)
        if t == ("poly", "poly") and isinstance(op, (ast.Eq, ast.NotEq)):
            return Val("B", "%s %s %s" % ("C07.eq" if isinstance(op, ast.Eq) else "C07.ne", par(a.term), par(b.term)))
        if t == ("zf", "zf") and isinstance(op, (ast.Eq, ast.NotEq)):
            key = ("==" if isinstance(op, ast.Eq) else "!=", "zf", "zf")
            if key not in self.tr.table:
                raise TranslationError("%s: %s on filters is not translated (yet)" % (self.name, key[0]))
            return Val("B", "%s %s %s" % (self.tr.table[key], par(a.term), par(b.term)))
        sym = {ast.Lt: "<", ast.LtE: "≤", ast.Gt: ">", ast.GtE: "≥", ast.Eq: "=", ast.NotEq: "≠"}.get(type(op))
        if sym and t in (("int", "lit"), ("nat", "lit"), ("int", "int")):
            return Val("P", "%s %s %s" % (a.term, sym, b.term))
        raise TranslationError("%s: comparison %s %s %s" % (self.name, a.ty, type(op).__name__, b.ty))

    def e_BoolOp(self, node, binds):
        vals = [self.val(v, binds) for v in node.values]
        is_and = isinstance(node.op, ast.And)
        # static members: decided now
        out = []
        for v in vals:
            if v.static is not None:
                if v.static != is_and:        # False in an `and` / True in an `or` decides the whole
                    return Val("B", "", static=v.static)
                continue
            out.append(v)
        if not out:
            return Val("B", "", static=is_and)
        if len(out) == 1:
            return out[0]
        if all(v.ty == "B" for v in out):
            return Val("B", (" && " if is_and else " || ").join(par(v.term) for v in out))
        if all(v.ty in ("B", "P") for v in out):
            ts = [par(v.term) if v.ty == "P" else "(%s = true)" % v.term for v in out]
            return Val("P", (" ∧ " if is_and else " ∨ ").join(ts))
        raise TranslationError("%s: and / or of %s" % (self.name, [v.ty for v in out]))

    def e_IfExp(self, node, binds):
        c = self.val(node.test, binds)
        if c.static is None:
            raise TranslationError("%s: conditional expression on a run-time test" % self.name)
        return self.val(node.body if c.static else node.orelse, binds)

    def e_Tuple(self, node, binds):
        raise TranslationError("%s: tuple expression" % self.name)

    def e_Call(self, node, binds):
        f = node.func
        if node.keywords:
            raise TranslationError("%s: keyword arguments in a call" % self.name)
        # operator.truediv(a, b)
        if isinstance(f, ast.Attribute) and isinstance(f.value, ast.Name) and f.value.id == "operator":
            if f.attr == "truediv" and len(node.args) == 2:
                a, b = [self.val(x, binds) for x in node.args]
                if (a.ty, b.ty) in (("lit", "num"), ("num", "num")):
                    return Val("num", "numTruediv %s %s" % (par(a.term), par(b.term)), monadic=True)
                return self.binop("/", a, b)
            raise TranslationError("%s: operator.%s" % (self.name, f.attr))
        # methods
        if isinstance(f, ast.Attribute):
            o = self.val(f.value, binds)
            if o.ty == "poly" and f.attr == "copy" and not node.args:
                return o
            if o.ty == "poly" and f.attr == "terms" and not node.args:
                return Val("terms", "C07.sortAsc %s" % par(o.term))
            raise TranslationError("%s: method .%s of a %s" % (self.name, f.attr, o.ty))
        if not isinstance(f, ast.Name):
            raise TranslationError("%s: call of %s" % (self.name, short(f)))
        fn = f.id
        if fn in self.env and self.env[fn].ty == "opfunc":       # op_func(...) of the metaclass
            sym = self.env[fn].term
            args = [self.val(x, binds) for x in node.args]
            if len(args) == 1:
                return self.unop(sym, args[0])
            if len(args) == 2:
                return self.binop(sym, args[0], args[1])
            raise TranslationError("%s: op_func with %d arguments" % (self.name, len(args)))
        if fn in self.env and self.env[fn].ty == "class":
            fn = self.env[fn].term
        if fn == "isinstance" and len(node.args) == 2:
            a = self.val(node.args[0], binds)
            return Val("B", "", static=self.isinstance(a.ty, node.args[1]))
        if fn == "ZFilter":
            if "ctor" not in self.tr.table:
                raise TranslationError("%s: the constructor is not translated" % self.name)
            args = [self.val(x, binds) for x in node.args]
            if [a.ty for a in args] == ["poly", "poly"]:
                return Val("zf", "%s %s %s" % (self.tr.table["ctor"], par(args[0].term), par(args[1].term)), monadic=True)
            if [a.ty for a in args] == ["poly"]:
                return Val("zf", "%s %s defaultDen" % (self.tr.table["ctor"], par(args[0].term)), monadic=True)
            raise TranslationError("%s: ZFilter(%s)" % (self.name, ", ".join(a.ty for a in args)))
        if fn == "Poly" and len(node.args) == 1:
            a = self.val(node.args[0], binds)
            if a.ty != "poly":
                raise TranslationError("%s: Poly(%s)" % (self.name, a.ty))
            if isinstance(node.args[0], (ast.List, ast.Dict)):
                return a
            return Val("poly", "C07.mk %s" % par(a.term))
        if fn == "len" and len(node.args) == 1:
            a = self.val(node.args[0], binds)
            if a.ty == "poly":
                return Val("nat", "%s.length" % par(a.term))
            raise TranslationError("%s: len(%s)" % (self.name, a.ty))
        if fn == "OrderedDict" and len(node.args) == 1:
            a = self.val(node.args[0], binds)
            if a.ty == "terms":
                return Val("odict", a.term)
            raise TranslationError("%s: OrderedDict(%s)" % (self.name, a.ty))
        if fn == "tuple" and len(node.args) == 1:
            a = self.val(node.args[0], binds)
            if a.ty == "odict":
                return Val("intlist", "C07.keys %s" % par(a.term))
            raise TranslationError("%s: tuple(%s)" % (self.name, a.ty))
        if fn == "hash" and len(node.args) == 1:
            a = self.val(node.args[0], binds)
            if a.ty == "intlist":
                return a
            raise TranslationError("%s: hash(%s)" % (self.name, a.ty))
        if fn == "sum" and len(node.args) == 1 and isinstance(node.args[0], ast.GeneratorExp):
            return self.sum_terms(node.args[0], binds)
        raise TranslationError("%s: call of %s" % (self.name, fn))

    def sum_terms(self, g, binds):
        """sum(E for k, v in P.terms())  ->  sumTerms (fun k v => E) P"""
        if len(g.generators) != 1 or g.generators[0].ifs or g.generators[0].is_async:
            raise TranslationError("%s: generator expression with filters / several loops" % self.name)
        gen = g.generators[0]
        tg = gen.target
        if not (isinstance(tg, ast.Tuple) and len(tg.elts) == 2 and all(isinstance(e, ast.Name) for e in tg.elts)):
            raise TranslationError("%s: loop target of the sum is not a pair of names" % self.name)
        it = self.val(gen.iter, binds)
        if it.ty != "terms":
            raise TranslationError("%s: sum over a %s" % (self.name, it.ty))
        kname, vname = tg.elts[0].id, tg.elts[1].id
        sub = Unit(self.tr, self.name, self.env, "zf", rec=self.rec)
        sub.nloc = self.nloc + 10
        sub.env[kname] = Val("int", "k")
        sub.env[vname] = Val("num", "v")
        b2 = []
        e = sub.expr(g.elt, b2)
        if e.ty != "zf":
            raise TranslationError("%s: sum of %s" % (self.name, e.ty))
        body = sub.do(b2, e.term if e.monadic else ".ok %s" % par(e.term))
        poly = it.term[len("C07.sortAsc "):]
        if ("+", "zf", "zf") not in self.tr.table or "ctor" not in self.tr.table:
            raise TranslationError("%s: sum of filters before `+` is translated" % self.name)
        # Python's sum starts at the int 0: `0 + t` is `t.__radd__(0)` = `ZFilter([0]) + t`
        zero = "%s (C07.ofList [0]) defaultDen" % self.tr.table["ctor"]
        return Val("zf", "sumTerms (%s) %s (fun k v => %s) %s" % (zero, self.tr.table[("+", "zf", "zf")],
                                                                 body if "\n" not in body else body.replace("\n", "\n    "), poly),
                   monadic=True)

    def isinstance(self, ty, tnode):
        names = [e.id for e in tnode.elts] if isinstance(tnode, ast.Tuple) else [tnode.id] if isinstance(tnode, ast.Name) else None
        if names is None or not all(isinstance(n, str) for n in names):
            raise TranslationError("%s: isinstance with %s" % (self.name, short(tnode)))
        names = [self.env[n].term if n in self.env and self.env[n].ty == "class" else n for n in names]
        member = {"zf": {"ZFilter", "LinearFilter"}, "foreign": {"LinearFilter"}, "num": {"float"}, "int": {"int"},
                  "poly": {"Poly"}}
        if ty not in member:
            raise TranslationError("%s: isinstance of a %s" % (self.name, ty))
        known = {"ZFilter", "LinearFilter", "int", "float", "Poly"}
        for n in names:
            if n not in known:
                raise TranslationError("%s: isinstance(_, %s)" % (self.name, n))
        return any(n in member[ty] for n in names)

    # --- statements -----------------------------------------------------------------------------------------
    def do(self, binds, final):
        if not binds:
            return final
        return "do\n" + ind("\n".join(binds + [final]), 2)

    def ret(self, v, binds):
        if self.result in ("B", "intlist"):           # a pure function
            if binds or v.monadic:
                raise TranslationError("%s: a filter is built inside a pure function" % self.name)
            if v.static is not None:
                return "true" if v.static else "false"
            if v.ty != self.result:
                raise TranslationError("%s: returns a %s, not a %s" % (self.name, v.ty, self.result))
            return v.term
        if v.ty != self.result:
            raise TranslationError("%s: returns a %s, not a %s" % (self.name, v.ty, self.result))
        return self.do(binds, v.term if v.monadic else ".ok %s" % par(v.term))

    def stmts(self, body):
        if not body:
            return self.end()
        s, rest = body[0], body[1:]
        if isinstance(s, ast.Expr) and isinstance(s.value, ast.Constant) and isinstance(s.value.value, str):
            return self.stmts(rest)                  # docstring
        if isinstance(s, ast.Return):
            if s.value is None:
                raise TranslationError("%s: return without a value" % self.name)
            binds = []
            return self.ret(self.expr(s.value, binds), binds)
        if isinstance(s, ast.Raise):
            e = s.exc
            nm = e.func.id if isinstance(e, ast.Call) and isinstance(e.func, ast.Name) else e.id if isinstance(e, ast.Name) else None
            if nm not in ERR or self.result in ("B", "intlist"):
                raise TranslationError("%s: raise %s" % (self.name, short(s)))
            return ".error %s" % ERR[nm]
        if isinstance(s, ast.If):
            binds = []
            c = self.val(s.test, binds)
            if binds:
                raise TranslationError("%s: a filter is built inside a condition" % self.name)
            if c.static is not None:
                taken = s.body if c.static else s.orelse
                return self.stmts(list(taken) + ([] if self.terminates(taken) else list(rest)))
            if c.ty not in ("B", "P"):
                raise TranslationError("%s: condition of kind %s" % (self.name, c.ty))
            saved = self.snapshot()
            a = self.stmts(list(s.body) + ([] if self.terminates(s.body) else list(rest)))
            self.restore(saved)
            b = self.stmts(list(s.orelse) + ([] if self.terminates(s.orelse) else list(rest)))
            self.restore(saved)
            return "if %s then\n%s\nelse\n%s" % (c.term, ind(a, 2), ind(b, 2))
        if isinstance(s, ast.Assign) and len(s.targets) == 1:
            return self.assign(s.targets[0], s.value, rest)
        if isinstance(s, ast.AugAssign):
            if type(s.op) not in OPSYM:
                raise TranslationError("%s: augmented assignment %s" % (self.name, type(s.op).__name__))
            load = ast.copy_location(ast.BinOp(left=self.as_load(s.target), op=s.op, right=s.value), s)
            return self.assign(s.target, load, rest)
        raise TranslationError("%s: unsupported statement %s" % (self.name, type(s).__name__))

    def as_load(self, t):
        if isinstance(t, ast.Attribute):
            return ast.Attribute(value=t.value, attr=t.attr, ctx=ast.Load())
        if isinstance(t, ast.Name):
            return ast.Name(id=t.id, ctx=ast.Load())
        raise TranslationError("%s: assignment target %s" % (self.name, short(t)))

    def terminates(self, body):
        if not body:
            return False
        last = body[-1]
        if isinstance(last, (ast.Return, ast.Raise)):
            return True
        if isinstance(last, ast.If):
            return self.terminates(last.body) and self.terminates(last.orelse)
        return False

    def snapshot(self):
        st = self.env.get("__state__")
        return (dict(self.env), dict(st) if st is not None else None)

    def restore(self, saved):
        env, st = saved
        self.env = dict(env)
        if st is not None:
            self.env["__state__"] = dict(st)

    def assign(self, target, value, rest):
        # power = min(key for key, value in P.terms())
        if (isinstance(value, ast.Call) and isinstance(value.func, ast.Name) and value.func.id == "min"
                and len(value.args) == 1 and isinstance(value.args[0], ast.GeneratorExp) and isinstance(target, ast.Name)):
            g = value.args[0]
            gen = g.generators[0] if len(g.generators) == 1 else None
            ok = (gen is not None and not gen.ifs and isinstance(gen.target, ast.Tuple) and len(gen.target.elts) == 2
                  and all(isinstance(e, ast.Name) for e in gen.target.elts) and isinstance(g.elt, ast.Name)
                  and g.elt.id == gen.target.elts[0].id)
            if not ok:
                raise TranslationError("%s: min(...) is not the minimum of the powers" % self.name)
            binds = []
            it = self.val(gen.iter, binds)
            if it.ty != "terms" or binds:
                raise TranslationError("%s: min over a %s" % (self.name, it.ty))
            poly = it.term[len("C07.sortAsc "):]
            x = self.fresh()
            self.env[target.id] = Val("int", x)
            cont = self.stmts(rest)
            return "match C04.minKey %s with\n| none => .error .value\n| some %s =>\n%s" % (poly, x, ind(cont, 2))
        binds = []
        v = self.val(value, binds)
        if binds:
            raise TranslationError("%s: a filter is built in an assignment" % self.name)
        if v.static is not None or v.ty not in ("poly", "int", "num"):
            raise TranslationError("%s: assignment of a %s" % (self.name, v.ty))
        x = self.fresh()
        if isinstance(target, ast.Attribute) and isinstance(target.value, ast.Name) and target.value.id == "self" \
                and self.env.get("self") is not None and self.env["self"].ty == "self" and target.attr in ("numpoly", "denpoly"):
            if v.ty != "poly":
                raise TranslationError("%s: self.%s = a %s" % (self.name, target.attr, v.ty))
            self.env["__state__"] = dict(self.env["__state__"])
            self.env["__state__"][target.attr] = x
        elif isinstance(target, ast.Name):
            self.env[target.id] = Val(v.ty, x)
        else:
            raise TranslationError("%s: assignment target %s" % (self.name, short(target)))
        return "let %s := %s\n%s" % (x, v.term, self.stmts(rest))

    def end(self):
        st = self.env.get("__state__")
        if st is None:
            raise TranslationError("%s: the body can end without return" % self.name)
        if st["numpoly"] is None or st["denpoly"] is None:
            raise TranslationError("%s: the constructor can end without both polynomials" % self.name)
        return ".ok ⟨%s, %s⟩" % (st["numpoly"], st["denpoly"])


# ---------------------------------------------------------------------------------------------------------------
# the functions under the translator
# ---------------------------------------------------------------------------------------------------------------
F_, G_, C_, N_ = Val("zf", "f"), Val("zf", "g"), Val("num", "c"), Val("int", "n")
FOREIGN = Val("foreign", "h")

# (Lean name, class, method, kind of `other`, dispatch key it implements, Lean binders, result kind)
ZF_METHODS = [
    ("add", "ZFilter", "__add__", "zf", ("+", "zf", "zf")),
    ("addScalar", "ZFilter", "__add__", "num", ("+", "zf", "num")),
    ("addForeign", "ZFilter", "__add__", "foreign", None),
    ("sub", "ZFilter", "__sub__", "zf", ("-", "zf", "zf")),
    ("subScalar", "ZFilter", "__sub__", "num", ("-", "zf", "num")),
    ("subForeign", "ZFilter", "__sub__", "foreign", None),
    ("mul", "ZFilter", "__mul__", "zf", ("*", "zf", "zf")),
    ("mulScalar", "ZFilter", "__mul__", "num", ("*", "zf", "num")),
    ("mulForeign", "ZFilter", "__mul__", "foreign", None),
    ("truediv", "ZFilter", "__truediv__", "zf", ("/", "zf", "zf")),
    ("divScalar", "ZFilter", "__truediv__", "num", ("/", "zf", "num")),
    ("divForeign", "ZFilter", "__truediv__", "foreign", None),
]
RBINARY = [("raddScalar", "+"), ("rsubScalar", "-"), ("rmulScalar", "*"), ("rdivScalar", "/")]

TRANSLATED = [
    "LinearFilter.__init__ (coefficients branch; default denominator)", "LinearFilter.__eq__", "LinearFilter.__ne__",
    "LinearFilter.__hash__ (+ LinearFilterProperties.numdict / dendict)", "ZFilterMeta.__unary__ (- and +)",
    "ZFilterMeta.__rbinary__ (+ - * / with a number on the left)", "ZFilter.__add__ (ZFilter / number / foreign LinearFilter)",
    "ZFilter.__sub__ (ZFilter / number / foreign)", "ZFilter.__mul__ (ZFilter / number / foreign)",
    "ZFilter.__truediv__ (ZFilter / number / foreign)", "ZFilter.__pow__ (int exponent; recursion with fuel)",
    "ZFilter.__call__ (ZFilter argument: substitution)", "module level z = ZFilter({-1: 1})",
    "FilterList.__init__ (the argument rule; cls(*filters))", "FilterList.__eq__", "FilterList.__ne__",
    "CascadeFilter.numpoly", "CascadeFilter.denpoly", "ParallelFilter._sum_filter", "ParallelFilter.numpoly", "ParallelFilter.denpoly",
]
NOT_TRANSLATED = {
    "LinearFilter.__init__ cast branch (numerator is a LinearFilter)": "modelled by hand (`cast`, `castDiv`): attribute sharing between objects",
    "ZFilter.__pow__ with float / Fraction / complex exponents": "`powSpelled` is a table over number spellings, hand-written and sampled",
    "ZFilter.__call__ with a signal": "`LinearFilter.__call__` builds source text and exec's it: translator T3 of C04",
    "FilterList.callables / is_linear / is_lti / is_causal": "`callable()` / `isinstance` / `hasattr` on arbitrary objects: the sorts of a part (`FL.leaf / num / other / node`) and `FL.linear` are the model's, tied by sampling; the translated polynomial properties take `self.is_linear()` and the parts' polynomial pairs as inputs",
    "CascadeFilter.__call__ / ParallelFilter.__call__": "signals (`thub`, Stream addition, `*args` / `**kwargs`): `FLs.casCall` / `FLs.parCall` stay hand-written, tied by sampling",
    "FilterListMeta.__binary__ (list + / * with the class kept)": "`getattr(super(cls, self), dname)`: a reflective call, modelled by `wrap` / `Obj.add` / `Obj.mulInt`",
    "LinearFilter.linearize": "float weights for fractional delays, dictionary accumulation in a loop",
    "AbstractOperatorOverloaderMeta (which dunders are installed for \"+ - * / **\")": "translator T1 of C01",
}


class Translator:
    def __init__(self, text):
        try:
            import warnings
            with warnings.catch_warnings():
                warnings.simplefilter("ignore")      # invalid escape sequences in the docstrings of the repo
                self.mod = ast.parse(text)
        except SyntaxError as e:
            raise TranslationError("lazy_filters.py does not parse: %s" % e)
        self.classes = {n.name: n for n in self.mod.body if isinstance(n, ast.ClassDef)}
        self.table = {}
        self.properties = {}
        self.defs = []          # (Lean name, python origin, text)

    def method(self, cls, name):
        if cls not in self.classes:
            raise TranslationError("class %s not found" % cls)
        fns = [n for n in self.classes[cls].body if isinstance(n, ast.FunctionDef) and n.name == name]
        if len(fns) != 1:
            raise TranslationError("%s.%s: %d definitions" % (cls, name, len(fns)))
        return fns[0]

    def params(self, fn, n=None, allow_defaults=False):
        a = fn.args
        if a.vararg or a.kwarg or a.kwonlyargs or getattr(a, "posonlyargs", None) or (a.defaults and not allow_defaults):
            raise TranslationError("%s: unsupported parameter list" % fn.name)
        names = [p.arg for p in a.args]
        if n is not None and len(names) != n:
            raise TranslationError("%s: %d parameters, expected %d" % (fn.name, len(names), n))
        return names

    def plain(self, fn, ok=()):
        for d in fn.decorator_list:
            if not (isinstance(d, ast.Name) and d.id in ok):
                raise TranslationError("%s: decorator %s" % (fn.name, short(d)))

    def emit(self, name, origin, binders, rtype, body):
        self.defs.append((name, origin, "/-- `%s` -/\ndef %s %s: %s :=\n%s" % (origin, name, binders + " " if binders else "", rtype,
                                                                               ind(body, 2))))

    # --- the pieces ---------------------------------------------------------------------------------------
    def t_properties(self):
        cls = "LinearFilterProperties"
        for nm in ("numdict", "dendict"):
            fn = self.method(cls, nm)
            self.plain(fn, ok=("property",))
            if self.params(fn) != ["self"]:
                raise TranslationError("%s.%s: parameters" % (cls, nm))
            body = [s for s in fn.body if not (isinstance(s, ast.Expr) and isinstance(s.value, ast.Constant))]
            if len(body) != 1 or not isinstance(body[0], ast.Return) or body[0].value is None:
                raise TranslationError("%s.%s is not one return statement" % (cls, nm))
            self.properties[nm] = body[0].value

    def t_init(self):
        fn = self.method("LinearFilter", "__init__")
        self.plain(fn)
        names = self.params(fn, 3, allow_defaults=True)
        if names[0] != "self" or len(fn.args.defaults) != 2 or not all(isinstance(d, ast.Constant) and d.value is None
                                                                        for d in fn.args.defaults):
            raise TranslationError("LinearFilter.__init__: signature is not (self, numerator=None, denominator=None)")
        env = {"self": Val("self", "self"), names[1]: Val("poly", "numerator"), names[2]: Val("poly", "denominator"),
               "__state__": {"numpoly": None, "denpoly": None}}
        u = Unit(self, "LinearFilter.__init__", env, "zf")
        body = u.stmts(list(fn.body))
        self.emit("ofPolys", "LinearFilter.__init__(self, numerator, denominator) with two Polys", "(numerator denominator : MPoly α)",
                  "Except PyErr (ALV.C05.ZF α)", body)
        self.table["ctor"] = "ofPolys"
        # the default denominator: the same body with `denominator=None`, read off the one assignment that mentions it
        dens = [s for s in ast.walk(fn) if isinstance(s, ast.IfExp) and isinstance(s.test, ast.Compare)
                and isinstance(s.test.left, ast.Name) and s.test.left.id == names[2]]
        if len(dens) != 1:
            raise TranslationError("LinearFilter.__init__: %d conditional defaults for the denominator" % len(dens))
        env2 = dict(env)
        env2[names[2]] = Val("none", "")
        d = Unit(self, "LinearFilter.__init__ (default denominator)", env2, "zf").val(dens[0], [])
        if d.ty != "poly":
            raise TranslationError("LinearFilter.__init__: default denominator is a %s" % d.ty)
        self.defs.insert(len(self.defs) - 1, ("defaultDen", "", "/-- the denominator of `ZFilter(numerator)` : `denominator=None` in "
                         "`LinearFilter.__init__` -/\ndef defaultDen : MPoly α := %s" % d.term))

    def t_eq(self):
        fn = self.method("LinearFilter", "__eq__")
        self.plain(fn)
        s, o = self.params(fn, 2)
        u = Unit(self, "LinearFilter.__eq__", {s: F_, o: G_}, "B")
        self.emit("eq", "LinearFilter.__eq__(self, other) with a ZFilter", "(f g : ALV.C05.ZF α)", "Bool", u.stmts(list(fn.body)))
        self.table[("==", "zf", "zf")] = "eq"
        u = Unit(self, "LinearFilter.__eq__", {s: F_, o: C_}, "B")
        self.emit("eqNumber", "LinearFilter.__eq__(self, other) with a number", "(f : ALV.C05.ZF α) (c : α)", "Bool", u.stmts(list(fn.body)))
        fn = self.method("LinearFilter", "__ne__")
        self.plain(fn)
        s, o = self.params(fn, 2)
        u = Unit(self, "LinearFilter.__ne__", {s: F_, o: G_}, "B")
        self.emit("ne", "LinearFilter.__ne__(self, other) with a ZFilter", "(f g : ALV.C05.ZF α)", "Bool", u.stmts(list(fn.body)))
        self.table[("!=", "zf", "zf")] = "ne"

    def t_hash(self):
        fn = self.method("LinearFilter", "__hash__")
        self.plain(fn)
        (s,) = self.params(fn, 1)
        u = Unit(self, "LinearFilter.__hash__", {s: F_}, "intlist")
        self.emit("hashKey", "LinearFilter.__hash__(self): what is hashed", "(f : ALV.C05.ZF α)", "List Int", u.stmts(list(fn.body)))

    def meta_dunder(self, name, nparams):
        """`def __unary__(cls, op): op_func = op.func; def dunder(...): ...; return dunder` -> (cls name, inner def)"""
        fn = self.method("ZFilterMeta", name)
        self.plain(fn)
        cls, op = self.params(fn, 2)
        body = [s for s in fn.body if not (isinstance(s, ast.Expr) and isinstance(s.value, ast.Constant))]
        ok = (len(body) == 3 and isinstance(body[0], ast.Assign) and len(body[0].targets) == 1
              and isinstance(body[0].targets[0], ast.Name) and isinstance(body[0].value, ast.Attribute)
              and body[0].value.attr == "func" and isinstance(body[0].value.value, ast.Name) and body[0].value.value.id == op
              and isinstance(body[1], ast.FunctionDef) and isinstance(body[2], ast.Return)
              and isinstance(body[2].value, ast.Name) and body[2].value.id == body[1].name)
        if not ok:
            raise TranslationError("ZFilterMeta.%s: not `op_func = op.func; def dunder...; return dunder`" % name)
        inner = body[1]
        self.plain(inner)
        names = self.params(inner, nparams)
        return cls, body[0].targets[0].id, inner, names

    def t_meta(self):
        # which class the metaclass serves: `class ZFilter(meta(LinearFilter, metaclass=ZFilterMeta))`
        zf = self.classes.get("ZFilter")
        served = zf is not None and any(isinstance(b, ast.Call) and any(k.arg == "metaclass" and isinstance(k.value, ast.Name)
                                        and k.value.id == "ZFilterMeta" for k in b.keywords) for b in zf.bases)
        if not served:
            raise TranslationError("ZFilter is not built with metaclass=ZFilterMeta")
        ops = [s for s in self.classes["ZFilterMeta"].body if isinstance(s, ast.Assign) and len(s.targets) == 1
               and isinstance(s.targets[0], ast.Name) and s.targets[0].id == "__operators__"]
        if len(ops) != 1 or not isinstance(ops[0].value, ast.Constant) or not isinstance(ops[0].value.value, str):
            raise TranslationError("ZFilterMeta.__operators__ is not one string")
        have = ops[0].value.value.split()
        cls, opf, inner, (s,) = self.meta_dunder("__unary__", 1)
        for lname, sym in (("neg", "-"), ("pos", "+")):
            if sym not in have:
                raise TranslationError("ZFilterMeta.__operators__ lacks %r" % sym)
            u = Unit(self, "ZFilterMeta.__unary__[%s]" % sym, {s: F_, cls: Val("class", "ZFilter"), opf: Val("opfunc", sym)}, "zf")
            self.emit(lname, "ZFilterMeta.__unary__ for `%sself`" % sym, "(f : ALV.C05.ZF α)", "Except PyErr (ALV.C05.ZF α)",
                      u.stmts(list(inner.body)))
            self.table[("u" + sym, "zf")] = lname
        self.have_ops = have

    def t_rbinary(self):
        cls, opf, inner, (s, o) = self.meta_dunder("__rbinary__", 2)
        for lname, sym in RBINARY:
            if sym not in self.have_ops:
                raise TranslationError("ZFilterMeta.__operators__ lacks %r" % sym)
            # NB. Python parameter order is (self, other) with `other` the LEFT operand; the Lean model has (c f)
            u = Unit(self, "ZFilterMeta.__rbinary__[%s]" % sym, {s: F_, o: C_, cls: Val("class", "ZFilter"), opf: Val("opfunc", sym)}, "zf")
            self.emit(lname, "ZFilterMeta.__rbinary__ for `other %s self` with a number `other`" % sym, "(c : α) (f : ALV.C05.ZF α)",
                      "Except PyErr (ALV.C05.ZF α)", u.stmts(list(inner.body)))
            self.table[(sym, "num", "zf")] = lname
        u = Unit(self, "ZFilterMeta.__rbinary__[zf]", {s: F_, o: G_, cls: Val("class", "ZFilter"), opf: Val("opfunc", "+")}, "zf")
        self.emit("ropZFilter", "ZFilterMeta.__rbinary__ reached with a ZFilter `other`", "(f g : ALV.C05.ZF α)",
                  "Except PyErr (ALV.C05.ZF α)", u.stmts(list(inner.body)))

    def t_zf_method(self, lname, cls, meth, kind, key):
        fn = self.method(cls, meth)
        self.plain(fn)
        s, o = self.params(fn, 2)
        other = {"zf": G_, "num": C_, "foreign": FOREIGN}[kind]
        u = Unit(self, "%s.%s[%s]" % (cls, meth, kind), {s: F_, o: other}, "zf")
        binders = {"zf": "(f g : ALV.C05.ZF α)", "num": "(f : ALV.C05.ZF α) (c : α)", "foreign": "(f : ALV.C05.ZF α)"}[kind]
        what = {"zf": "a ZFilter", "num": "a number", "foreign": "a LinearFilter that is not a ZFilter"}[kind]
        self.emit(lname, "%s.%s(self, other) with %s" % (cls, meth, what), binders, "Except PyErr (ALV.C05.ZF α)", u.stmts(list(fn.body)))
        if key:
            self.table[key] = lname

    def t_pow(self):
        fn = self.method("ZFilter", "__pow__")
        self.plain(fn)
        s, o = self.params(fn, 2)
        key = ("**", "zf", "int")
        u = Unit(self, "ZFilter.__pow__[int]", {s: F_, o: N_}, "zf", rec=key)
        body = u.stmts(list(fn.body))
        if u.used_rec:
            text = ("/-- `ZFilter.__pow__(self, other)` with an int: the body calls `**` on a filter again, so it is emitted with "
                    "a recursion budget (`src_pow_is_model`: every budget >= 2 gives the model) -/\n"
                    "def powFuel : Nat → ALV.C05.ZF α → Int → Except PyErr (ALV.C05.ZF α)\n"
                    "  | 0, _, _ => .error .notImplemented\n  | k + 1, f, n =>\n%s\n\n"
                    "/-- `self ** other` -/\ndef pow (f : ALV.C05.ZF α) (n : Int) : Except PyErr (ALV.C05.ZF α) := powFuel 2 f n"
                    % ind(body, 4))
            self.defs.append(("pow", "ZFilter.__pow__", text))
        else:
            self.emit("pow", "ZFilter.__pow__(self, other) with an int", "(f : ALV.C05.ZF α) (n : Int)", "Except PyErr (ALV.C05.ZF α)", body)
        self.table[key] = "pow"

    def t_subst(self):
        fn = self.method("ZFilter", "__call__")
        self.plain(fn)
        names = self.params(fn, 4, allow_defaults=True)
        s, q = names[0], names[1]
        body = [x for x in fn.body if not (isinstance(x, ast.Expr) and isinstance(x.value, ast.Constant))]
        u = Unit(self, "ZFilter.__call__[zf]", {s: F_, q: G_}, "zf")
        self.emit("subst", "ZFilter.__call__(self, seq) with a ZFilter `seq`", "(f g : ALV.C05.ZF α)", "Except PyErr (ALV.C05.ZF α)",
                  u.stmts(body))

    def t_z(self):
        zs = [s for s in self.mod.body if isinstance(s, ast.Assign) and len(s.targets) == 1 and isinstance(s.targets[0], ast.Name)
              and s.targets[0].id == "z"]
        if len(zs) != 1:
            raise TranslationError("module level `z = ...`: %d assignments" % len(zs))
        u = Unit(self, "z", {}, "zf")
        self.emit("z", "z = " + ast.unparse(zs[0].value), "", "Except PyErr (ALV.C05.ZF α)", u.stmts([ast.Return(value=zs[0].value)]))

    # --- the filter list classes ----------------------------------------------------------------------------
    PARTS = "(parts : List (Except PyErr (MPoly α × MPoly α)))"
    PARTS_DOC = "`parts` = the pair `(filt.numpoly, filt.denpoly)` of each `filt in self.callables`, computed when the generator reaches it"
    CMP = {ast.Eq: "=", ast.NotEq: "≠", ast.Lt: "<", ast.LtE: "≤", ast.Gt: ">", ast.GtE: "≥"}

    @staticmethod
    def nodoc(body):
        return [s for s in body if not (isinstance(s, ast.Expr) and isinstance(s.value, ast.Constant))]

    def boolop(self, where, node, atom):
        """`and` / `or` / `not` over atoms compiled by `atom` (Bool terms)"""
        if isinstance(node, ast.BoolOp):
            sym = " && " if isinstance(node.op, ast.And) else " || "
            return sym.join("(%s)" % self.boolop(where, v, atom) for v in node.values)
        if isinstance(node, ast.UnaryOp) and isinstance(node.op, ast.Not):
            return "!(%s)" % self.boolop(where, node.operand, atom)
        r = atom(node)
        if r is None:
            raise TranslationError("%s: unsupported condition %s" % (where, short(node)))
        return r

    def t_fl_init(self):
        where = "FilterList.__init__"
        fn = self.method("FilterList", "__init__")
        self.plain(fn)
        a = fn.args
        if (a.kwarg or a.kwonlyargs or getattr(a, "posonlyargs", None) or a.defaults or a.vararg is None or len(a.args) != 1):
            raise TranslationError("%s: signature is not (self, *filters)" % where)
        s, tup = a.args[0].arg, a.vararg.arg

        def index(node):          # filters[i] -> i
            if (isinstance(node, ast.Subscript) and isinstance(node.value, ast.Name) and node.value.id == tup
                    and isinstance(node.slice, ast.Constant) and isinstance(node.slice.value, int) and node.slice.value >= 0):
                return node.slice.value
            return None

        def atom(node):
            if (isinstance(node, ast.Compare) and len(node.ops) == 1 and type(node.ops[0]) in self.CMP
                    and isinstance(node.left, ast.Call) and isinstance(node.left.func, ast.Name) and node.left.func.id == "len"
                    and len(node.left.args) == 1 and not node.left.keywords and isinstance(node.left.args[0], ast.Name)
                    and node.left.args[0].id == tup and isinstance(node.comparators[0], ast.Constant)
                    and isinstance(node.comparators[0].value, int) and node.comparators[0].value >= 0):
                return "decide (filters.length %s %d)" % (self.CMP[type(node.ops[0])], node.comparators[0].value)
            if isinstance(node, ast.Call) and isinstance(node.func, ast.Name) and not node.keywords:
                if node.func.id == "callable" and len(node.args) == 1 and index(node.args[0]) is not None:
                    return "argTest filters %d Arg.callable" % index(node.args[0])
                if (node.func.id == "isinstance" and len(node.args) == 2 and index(node.args[0]) is not None
                        and isinstance(node.args[1], ast.Name) and node.args[1].id == "Iterable"):
                    return "argTest filters %d Arg.iterable" % index(node.args[0])
            return None

        body = self.nodoc(fn.body)
        ok = (len(body) == 2 and isinstance(body[0], ast.If) and not body[0].orelse and len(body[0].body) == 1
              and isinstance(body[0].body[0], ast.Assign) and len(body[0].body[0].targets) == 1
              and isinstance(body[0].body[0].targets[0], ast.Name) and body[0].body[0].targets[0].id == tup
              and index(body[0].body[0].value) is not None
              and isinstance(body[1], ast.Expr) and isinstance(body[1].value, ast.Call) and not body[1].value.keywords
              and isinstance(body[1].value.func, ast.Attribute) and body[1].value.func.attr == "extend"
              and isinstance(body[1].value.func.value, ast.Name) and body[1].value.func.value.id == s
              and len(body[1].value.args) == 1 and isinstance(body[1].value.args[0], ast.Name) and body[1].value.args[0].id == tup)
        if not ok:
            raise TranslationError("%s: not `if <test>: filters = filters[i]` followed by `self.extend(filters)`" % where)
        test = self.boolop(where, body[0].test, atom)
        self.defs.append(("filterListInit", where,
                          "/-- `FilterList.__init__(self, *filters)`: what the new list is extended with (`none`: outside the model) -/\n"
                          "def filterListInit (filters : List (Arg α)) : Option (FLs α) :=\n  if %s then\n    extendItem filters %d\n"
                          "  else\n    extendTuple filters" % (test, index(body[0].body[0].value))))
        self.defs.append(("construct", where,
                          "/-- `cls(*filters)` for a class `k` of the `FilterList` family: the new object holds what `__init__` extends it "
                          "with -/\ndef construct (k : Kind) (filters : List (Arg α)) : Option (FL α) :=\n"
                          "  (filterListInit filters).map (.node k)"))

    def t_fl_eq(self):
        for meth, lname in (("__eq__", "flEq"), ("__ne__", "flNe")):
            where = "FilterList." + meth
            fn = self.method("FilterList", meth)
            self.plain(fn)
            s, o = self.params(fn, 2)
            kind = {s: "k", o: "k'"}
            items = {s: "a", o: "b"}

            def typeof(node):
                if (isinstance(node, ast.Call) and isinstance(node.func, ast.Name) and node.func.id == "type" and len(node.args) == 1
                        and not node.keywords and isinstance(node.args[0], ast.Name) and node.args[0].id in kind):
                    return kind[node.args[0].id]
                return None

            def atom(node):
                if (isinstance(node, ast.Compare) and len(node.ops) == 1 and isinstance(node.ops[0], (ast.Eq, ast.NotEq))
                        and typeof(node.left) and typeof(node.comparators[0])):
                    return "decide (%s %s %s)" % (typeof(node.left), self.CMP[type(node.ops[0])], typeof(node.comparators[0]))
                if (isinstance(node, ast.Call) and isinstance(node.func, ast.Attribute) and isinstance(node.func.value, ast.Name)
                        and node.func.value.id == "list" and node.func.attr in ("__eq__", "__ne__") and len(node.args) == 2
                        and not node.keywords and all(isinstance(x, ast.Name) and x.id in items for x in node.args)):
                    return "%s %s %s" % ({"__eq__": "FLs.eq", "__ne__": "FLs.listNe"}[node.func.attr], items[node.args[0].id],
                                         items[node.args[1].id])
                return None

            body = self.nodoc(fn.body)
            if len(body) != 1 or not isinstance(body[0], ast.Return) or body[0].value is None:
                raise TranslationError("%s is not one return statement" % where)
            self.defs.append((lname, where,
                              "/-- `%s(self, other)` with a filter list `other`: `k`, `a` = class and items of `self`, `k'`, `b` = of "
                              "`other` -/\ndef %s (k k' : Kind) (a b : FLs α) : Bool :=\n  %s"
                              % (where, lname, self.boolop(where, body[0].value, atom))))

    def reduce_gen(self, where, node, selfname):
        """`reduce(operator.<op>, (<elt> for filt in self.callables))` -> (type of the result, Lean term)"""
        ok = (isinstance(node, ast.Call) and isinstance(node.func, ast.Name) and node.func.id == "reduce" and len(node.args) == 2
              and not node.keywords and isinstance(node.args[0], ast.Attribute) and isinstance(node.args[0].value, ast.Name)
              and node.args[0].value.id == "operator" and isinstance(node.args[1], ast.GeneratorExp))
        if not ok:
            raise TranslationError("%s: not `reduce(operator.<op>, (<generator>))` without an initial value" % where)
        gen = node.args[1]
        g = gen.generators[0]
        ok = (len(gen.generators) == 1 and not g.ifs and not g.is_async and isinstance(g.target, ast.Name)
              and isinstance(g.iter, ast.Attribute) and g.iter.attr == "callables" and isinstance(g.iter.value, ast.Name)
              and g.iter.value.id == selfname)
        if not ok:
            raise TranslationError("%s: the generator is not `for filt in self.callables`" % where)
        var = g.target.id

        def poly(e):
            if isinstance(e, ast.Attribute) and isinstance(e.value, ast.Name) and e.value.id == var and e.attr in ("numpoly", "denpoly"):
                return "filt.1" if e.attr == "numpoly" else "filt.2"
            raise TranslationError("%s: %s is not filt.numpoly / filt.denpoly" % (where, short(e)))

        e = gen.elt
        if isinstance(e, ast.Call) and isinstance(e.func, ast.Name) and e.func.id == "ZFilter" and len(e.args) == 2 and not e.keywords:
            ty, item = "zf", "%s %s %s" % (self.table["ctor"], poly(e.args[0]), poly(e.args[1]))
        else:
            ty, item = "poly", "pure " + poly(e)
        sym = {"add": "+", "mul": "*"}.get(node.args[0].attr)
        if sym is None:
            raise TranslationError("%s: operator.%s" % (where, node.args[0].attr))
        if ty == "zf":
            key = (sym, "zf", "zf")
            if key not in self.table:
                raise TranslationError("%s: no translated dunder for %r between filters" % (where, sym))
            f = self.table[key]
        else:
            f = "(fun a b => .ok (C07.%s a b))" % node.args[0].attr
        return ty, "reduceGen %s (parts.map fun p => do\n  let filt ← p\n  %s)" % (f, item)

    def t_cascade_polys(self):
        for prop, lname in (("numpoly", "cascadeNumpoly"), ("denpoly", "cascadeDenpoly")):
            where = "CascadeFilter." + prop
            fn = self.method("CascadeFilter", prop)
            self.plain(fn, ok=("property",))
            (s,) = self.params(fn, 1)
            body = self.nodoc(fn.body)
            wrap = "%s"
            if len(body) == 1 and isinstance(body[0], ast.Try):
                tr = body[0]
                h = tr.handlers[0] if len(tr.handlers) == 1 else None
                ok = (h is not None and not tr.orelse and not tr.finalbody and isinstance(h.type, ast.Name) and h.type.id == "AttributeError"
                      and len(h.body) == 1 and isinstance(h.body[0], ast.Raise) and h.body[0].cause is None
                      and isinstance(h.body[0].exc, ast.Call) and isinstance(h.body[0].exc.func, ast.Name)
                      and h.body[0].exc.func.id == "AttributeError")
                if not ok:
                    raise TranslationError("%s: the try statement is not `except AttributeError: raise AttributeError(..)`" % where)
                body = self.nodoc(tr.body)
                wrap = "reraiseAttribute (%s)"
            if len(body) != 1 or not isinstance(body[0], ast.Return) or body[0].value is None:
                raise TranslationError("%s is not one return statement (inside one try)" % where)
            ty, term = self.reduce_gen(where, body[0].value, s)
            if ty != "poly":
                raise TranslationError("%s returns a filter" % where)
            self.defs.append((lname, where, "/-- `%s`: %s -/\ndef %s %s : Except PyErr (MPoly α) :=\n%s"
                              % (where, self.PARTS_DOC, lname, self.PARTS, ind(wrap % term, 2))))

    def t_parallel_polys(self):
        where = "ParallelFilter._sum_filter"
        fn = self.method("ParallelFilter", "_sum_filter")
        self.plain(fn)
        (s,) = self.params(fn, 1)
        body = self.nodoc(fn.body)
        if len(body) != 1 or not isinstance(body[0], ast.Return) or body[0].value is None:
            raise TranslationError("%s is not one return statement" % where)
        ty, term = self.reduce_gen(where, body[0].value, s)
        if ty != "zf":
            raise TranslationError("%s does not return a filter" % where)
        self.defs.append(("sumFilter", where, "/-- `%s`: %s -/\ndef sumFilter %s : Except PyErr (ALV.C05.ZF α) :=\n%s"
                          % (where, self.PARTS_DOC, self.PARTS, ind(term, 2))))
        for prop, lname in (("numpoly", "parallelNumpoly"), ("denpoly", "parallelDenpoly")):
            where = "ParallelFilter." + prop
            fn = self.method("ParallelFilter", prop)
            self.plain(fn, ok=("property",))
            (s,) = self.params(fn, 1)

            def selfcall(node, name):
                return (isinstance(node, ast.Call) and not node.args and not node.keywords and isinstance(node.func, ast.Attribute)
                        and node.func.attr == name and isinstance(node.func.value, ast.Name) and node.func.value.id == s)

            def atom(node):
                return "linear" if selfcall(node, "is_linear") else None

            body = self.nodoc(fn.body)
            ok = (len(body) == 2 and isinstance(body[0], ast.If) and not body[0].orelse and len(body[0].body) == 1
                  and isinstance(body[0].body[0], ast.Raise) and body[0].body[0].cause is None
                  and isinstance(body[0].body[0].exc, ast.Call) and isinstance(body[0].body[0].exc.func, ast.Name)
                  and body[0].body[0].exc.func.id in ERR
                  and isinstance(body[1], ast.Return) and isinstance(body[1].value, ast.Attribute)
                  and body[1].value.attr in ("numpoly", "denpoly") and selfcall(body[1].value.value, "_sum_filter"))
            if not ok:
                raise TranslationError("%s: not `if <test>: raise E(..)` followed by `return self._sum_filter().<poly>`" % where)
            self.defs.append((lname, where,
                              "/-- `%s`: `linear` = what `self.is_linear()` returns -/\ndef %s (linear : Bool) %s : Except PyErr (MPoly α) :=\n"
                              "  if %s then\n    .error %s\n  else\n    do\n      let x1 ← sumFilter parts\n      pure x1.%s"
                              % (where, lname, self.PARTS, self.boolop(where, body[0].test, atom), ERR[body[0].body[0].exc.func.id],
                                 "num" if body[1].value.attr == "numpoly" else "den")))


    def run(self):
        self.t_properties()
        self.t_init()
        self.t_z()
        self.t_eq()
        self.t_hash()
        self.t_meta()
        # the dunders refer to each other: `-` needs unary minus and `+`; number variants need the filter variants
        for spec in ZF_METHODS:
            self.t_zf_method(*spec)
            if spec[0] == "divForeign":
                pass
        self.t_rbinary()
        self.t_pow()
        self.t_subst()
        self.t_fl_init()
        self.t_fl_eq()
        self.t_cascade_polys()
        self.t_parallel_polys()
        return self.render()

    def render(self):
        head = ("/-\n  GENERATED by harness/props/c05_tr.py from audiolazy/lazy_filters.py of the repo under test — do not edit.\n"
                "  One definition per (method, kind of argument), in the vocabulary of ALV/Model/C05.lean; the theorems\n"
                "  ALV.Props.C05.src_*_is_model state that each equals the hand-written model function.\n-/\n"
                "import ALV.Model.C05ListVocab\nset_option linter.unusedVariables false\nnamespace ALV.Gen.C05\nopen ALV.C07 (MPoly PyErr)\nopen ALV.C05 (numTruediv sumTerms Kind FL FLs Arg argTest extendItem extendTuple reduceGen reraiseAttribute)\n"
                "variable {α : Type} [Add α] [Mul α] [Sub α] [Neg α] [Div α] [OfNat α 0] [OfNat α 1] [DecidableEq α]\n\n")
        tail = "\nend ALV.Gen.C05\n"
        return head + "\n\n".join(t for _, _, t in self.defs) + "\n" + tail


def translate(text):
    return Translator(text).run()


def regenerate(eng=None):
    """rewrite lean/ALV/Gen/C05Src.lean from the repo under test; on a failure the last committed file stays and the
    error propagates (= broken obligation)"""
    path = os.path.join(common.LEAN, GEN_REL)
    try:
        text = translate(read_source())
    except Exception:
        try:
            import subprocess
            good = subprocess.run(["git", "-C", common.VERIF, "show", "HEAD:lean/" + GEN_REL.replace(os.sep, "/")],
                                  capture_output=True, text=True, timeout=30)
            if good.returncode == 0 and good.stdout and (not os.path.exists(path) or open(path).read() != good.stdout):
                with open(path, "w") as f:
                    f.write(good.stdout)
        except Exception:
            pass
        raise
    old = open(path).read() if os.path.exists(path) else None
    if old != text:
        os.makedirs(os.path.dirname(path), exist_ok=True)
        with open(path, "w") as f:
            f.write(text)
        return "rewritten (%d bytes)" % len(text)
    return "unchanged (%d bytes)" % len(text)


# ---------------------------------------------------------------------------------------------------------------
# selftest: edited copies of the source text must change the output (or fail to translate)
# ---------------------------------------------------------------------------------------------------------------
EDITS = [
    ("__add__: same-denominator test negated", "      if self.denpoly == other.denpoly:\n", "      if self.denpoly != other.denpoly:\n"),
    ("__add__: cross terms swapped (num * own den)", "      return ZFilter(self.numpoly * other.denpoly.copy() +\n",
     "      return ZFilter(self.numpoly * self.denpoly.copy() +\n"),
    ("__sub__: other - self", "    return self + (-other)\n", "    return (-self) + other\n"),
    ("__truediv__: denominator not inverted", "      return ZFilter(self.numpoly * other.denpoly,\n                     self.denpoly * other.numpoly)\n",
     "      return ZFilter(self.numpoly * other.denpoly,\n                     self.denpoly * other.denpoly)\n"),
    ("__pow__: threshold of the flip 2 -> 1", "(len(self.numpoly) >= 2 or", "(len(self.numpoly) >= 1 or"),
    ("__pow__: flip keeps the sign of the exponent", "      return ZFilter(self.denpoly, self.numpoly) ** -other\n",
     "      return ZFilter(self.denpoly, self.numpoly) ** other\n"),
    ("__init__: normalisation test power != 0 -> power > 0", "    if power != 0:\n", "    if power > 0:\n"),
    ("__init__: the two normalising statements reordered into one polynomial", "      self.numpoly *= poly_delta\n      self.denpoly *= poly_delta\n",
     "      self.denpoly *= poly_delta\n      self.numpoly = self.denpoly\n"),
    ("__init__: default denominator {0: 1} -> {1: 1}", "Poly({0: 1} if denominator is None", "Poly({1: 1} if denominator is None"),
    ("__eq__: and -> or", "return self.numpoly == other.numpoly and self.denpoly == other.denpoly",
     "return self.numpoly == other.numpoly or self.denpoly == other.denpoly"),
    ("__ne__: the old conjunction of !=", "    return not (self == other)\n",
     "    return self.numpoly != other.numpoly and self.denpoly != other.denpoly\n"),
    ("__hash__: numerator only", "return hash(tuple(self.numdict) + tuple(self.dendict))", "return hash(tuple(self.numdict))"),
    ("__rbinary__: operands not swapped", "      return op_func(cls([other]), self)", "      return op_func(self, cls([other]))"),
    ("__call__: substitution with seq ** k", "      return sum(v * seq ** -k for k, v in self.numpoly.terms()) / \\\n",
     "      return sum(v * seq ** k for k, v in self.numpoly.terms()) / \\\n"),
    ("FilterList.__init__: the lone argument is unpacked even when callable", "    if len(filters) == 1 and not callable(filters[0]) \\\n",
     "    if len(filters) == 1 and callable(filters[0]) \\\n"),
    ("FilterList.__init__: unpacking rule applied to two arguments", "    if len(filters) == 1 and not callable(filters[0])", "    if len(filters) == 2 and not callable(filters[0])"),
    ("FilterList.__init__: and -> or", "                         and isinstance(filters[0], Iterable):\n", "                         or isinstance(filters[0], Iterable):\n"),
    ("FilterList.__eq__: the kind test dropped", "    return type(self) == type(other) and list.__eq__(self, other)\n", "    return list.__eq__(self, other)\n"),
    ("FilterList.__ne__: or -> and", "    return type(self) != type(other) or list.__ne__(self, other)\n",
     "    return type(self) != type(other) and list.__ne__(self, other)\n"),
    ("CascadeFilter.numpoly: product of the denominators", "      return reduce(operator.mul, (filt.numpoly for filt in self.callables))\n",
     "      return reduce(operator.mul, (filt.denpoly for filt in self.callables))\n"),
    ("CascadeFilter.denpoly: operator.add", "      return reduce(operator.mul, (filt.denpoly for filt in self.callables))\n",
     "      return reduce(operator.add, (filt.denpoly for filt in self.callables))\n"),
    ("ParallelFilter._sum_filter: the shape before the repair of D22 (reduce over the raw elements)",
     "    return reduce(operator.add, (ZFilter(filt.numpoly, filt.denpoly)\n                                 for filt in self.callables))\n",
     "    return reduce(operator.add, self)\n"),
    ("ParallelFilter._sum_filter: numerator and denominator swapped", "(ZFilter(filt.numpoly, filt.denpoly)\n", "(ZFilter(filt.denpoly, filt.numpoly)\n"),
    ("ParallelFilter.numpoly: the linearity test negated", "    if not self.is_linear():\n      raise AttributeError(\"Non-linear filter\")\n    return self._sum_filter().numpoly\n",
     "    if self.is_linear():\n      raise AttributeError(\"Non-linear filter\")\n    return self._sum_filter().numpoly\n"),
    ("__mul__: an untranslatable statement (a loop)", "    return ZFilter(self.numpoly * other, self.denpoly)\n",
     "    for k in range(2):\n      pass\n    return ZFilter(self.numpoly * other, self.denpoly)\n"),
]
# harmless rewrites: the output must NOT change
HARMLESS = [
    ("a comment and a renamed local", "      poly_delta = Poly([0, 1]) ** -power\n      self.numpoly *= poly_delta\n      self.denpoly *= poly_delta\n",
     "      shift = Poly([0, 1]) ** -power  # one delay per missing power\n      self.numpoly *= shift\n      self.denpoly *= shift\n"),
    ("another error message", 'raise ValueError("Filter equations have different domains")', 'raise ValueError("domains differ")'),
]


def selftest(text, committed):
    """-> list of (name, ok, detail)"""
    out = []
    try:
        base = translate(text)
    except Exception as e:  # noqa
        return [("translator-selftest: the unchanged source translates", False, "%s: %s" % (type(e).__name__, e))]
    out.append(("translator-selftest: the source of the repo under test regenerates the committed Gen file byte for byte",
                committed is not None and base == committed, "" if base == committed else "lean/ALV/Gen/C05Src.lean differs from the "
                "translation of %s (the repo under test was edited, or the committed file is stale)" % SRC_REL))
    bad = []
    n = 0
    for name, old, new in EDITS:
        if text.count(old) < 1:
            continue        # the text to edit is not there (the repo under test is itself edited): nothing to try
        n += 1
        try:
            t = translate(text.replace(old, new, 1))
            if t == base:
                bad.append(name + ": same output")
        except TranslationError:
            pass
        except Exception as e:  # noqa
            bad.append("%s: %s: %s" % (name, type(e).__name__, e))
    out.append(("translator-selftest: each of %d edited copies of the source gives a different Gen text or a TranslationError" % n,
                not bad and n >= min(6, len(EDITS)), "; ".join(bad) if bad else "only %d edits applicable" % n if n < 6 else ""))
    bad = []
    for name, old, new in HARMLESS:
        if text.count(old) < 1:
            continue
        try:
            if translate(text.replace(old, new)) != base:
                bad.append(name + ": output changed")
        except Exception as e:  # noqa
            bad.append("%s: %s: %s" % (name, type(e).__name__, e))
    out.append(("translator-selftest: harmless rewrites (comment, local name, message) leave the Gen text unchanged", not bad, "; ".join(bad)))
    return out


if __name__ == "__main__":
    import sys
    sys.stdout.write(translate(read_source()))
