"""C19 — signal generators (lazy_synth) and resample (lazy_poly).

Tie: every case is run on the real code (outputs drawn one by one with next(), so that the
values yielded before an exception are observed too) and on the Lean model + spec.
Exact regime: dyadic rationals (Python floats are exact there) or Fractions where the code
keeps them exact; tolerance only where the code itself injects inexact floats.
"""
import itertools, json, math
from fractions import Fraction
import common
from common import enc, dec, err_kind
from props import c19_tr as TR

ID = "C19"
RULE = ("structured random cases per generator (all 8 numbers-vs-streams combinations of modulo_counter, "
        "steps zero / negative / multiples of the modulo, constant and time-varying modulo, durations "
        "integer / fractional / 0 / inf; numbers as int / float / Fraction / bool / int and float subclasses; "
        "streams as list / tuple / deque / iterator / generator / Stream / Stream subclass overriding __iter__ / thub / "
        "bare iterable; one object passed for two or three arguments; a list argument changed in place after the call; "
        "a source that raises) + histories of mutable TableLookup objects (entry tl_hist: heap of lists, objects sharing "
        "lists, open streams; attribute assignments, in-place list changes, operators, failing steps interleaved with "
        "uses, every step compared with the Lean model and spec of the history) + pools of 2-5 generator calls alive at "
        "once, consumed in interleaved chunks and sharing argument objects, or repeated with equal arguments of other "
        "numeric types (entry multi: every call compared with the Lean model/spec of that call alone, shared containers "
        "must keep their pristine items) + long runs (up to 50 000 samples; int(modulo/step) = 2**k -1/0/+1 for k = 2..14 "
        "in all 8 argument combinations, at least two batch boundaries crossed; every other generator with thousands of "
        "samples; a sparse set of positions - first items, neighbourhood of batch boundaries and powers of two, random, "
        "last - plus the length and the end are compared exactly) + the FLOAT regime bit for bit (entries *_float, "
        "harness/props/c19_float.py): modulo_counter on arbitrary binary64 values - tiny negative / positive starts (0.3-0.1-0.2, "
        "-1e-100, denormals, m*2**-54), starts one ulp around multiples of the modulo, negative modulo and step, zero / -0.0 / huge "
        "/ inf / nan steps, denormal and 1e300 modulos - every all-numbers call in all EIGHT numbers-vs-Stream(number) spellings "
        "(Stream / list / iter / tuple; positional / keyword / documented defaults omitted), varying streams in all seven stream "
        "shapes; sinusoid and TableLookup oscillators with tiny negative phases; line / fadein / fadeout / ones / zeros / zeroes / "
        "impulse / adsr / attack with durations one or two ulps around x.5 (0.49999999999999994), durations given as float / int / "
        "bool / Fraction / float subclass, inf / -inf / nan / None / omitted, every positional / keyword / omitted-default call "
        "shape of line, truthy and falsy non-bool `finish`; white / gauss noise with one limit by keyword and the other left to "
        "its default, degenerate distributions (low == high, sigma == 0: exact values); before the build the translator harness/props/c19_tr.py rewrites lean/ALV/Gen/C19Src.lean from the source text of modulo_counter / line / fadein / fadeout / attack / adsr / ones / zeros / impulse / sinusoid / TableLookup.__call__ / __getitem__ (no case is generated for it: the theorems src_*_is_model are re-checked against what the source says now); a case is non-trivial when the impl yields at least "
        "one sample (multi: two calls do); distinct = distinct JSON case")
TRUSTED = [
    "translator harness/props/c19_tr.py (ast of audiolazy/lazy_synth.py -> lean/ALV/Gen/C19Src.lean, nothing imported from "
    "the repo; regenerated on every run; modulo_counter, line, fadein, fadeout, attack, adsr): TRUSTED are (1) the semantics "
    "it assumes of its Python subset, written once in lean/ALV/Model/C19Src.lean - a generator function read through n "
    "next() calls is a pair (outputs, exception); statements run in order; an expression that can raise (`%`, int()) is "
    "evaluated where it stands, before / after the single `yield` of a loop body (Iter.pre / post / runPre); the state of a "
    "loop is the tuple of the variables its body assigns; `for .. in xzip(..)` stops with its shortest argument and reads "
    "them in lock step (forG over List.zip); `while True` never ends by itself (whileG); `for v in xrange(k): yield E` with "
    "a pure E is the list segment rangeG; augmented assignment `x += E` is `x = x + E`; (2) the vocabulary mapping - the "
    "kinds of the parameters (table PARAMS: number / bool / number-or-iterable), `isinstance(x, Iterable)` as the case "
    "split of `Arg`, float literals 0. / 1. / .5 as NumOps.zero / one / half, `E == 0` as NumOps.isZero, `+ - * /` and unary "
    "minus as the NumOps fields with an int operand entering through NumOps.ofInt, `E % m % m` as modChain (one NumOps.mod "
    "per `%` written), int() as NumOps.trunc, `abs(E) < float('inf')` as `int(E) would not raise` (finiteG; exact for "
    "binary64: int() refuses exactly inf, -inf and nan), iter / next / `is None` on an optional list, `x is None or C` on an optional number as a match on Option (C read only "
    "for a number), isinf / order comparisons of numbers as NumOps.isInf / lt / le (`a >= b` as `le b a`, the int literal "
    "0 compared with a number as NumOps.zero), an endless `while True: yield E` ends the sequence of segments (what "
    "follows it in the function is never run and is not read), `for v in g(..): yield f(v)` over a translated generator "
    "function as mapOut f (the exception of g, if any, after its outputs; f = math.sin is a parameter assumed total on the "
    "outputs, the expression `2 * pi` is the parameter twoPi); for the method TableLookup.__call__: `self` is read only through "
    "len(self) (= the length of the table, `__len__` and the property `table` checked to be their one-liners), self.table "
    "(a list) and the expression `self.cycles * 2 * pi` (the parameter den); `number * x` for x a number or a Stream as "
    "Arg.map; `tbl[j]` as Python list indexing indexG (negative indices, IndexError); int(ceil(E)) as NumOps.ceil; "
    "for TableLookup.__getitem__: int(floor(E)) as the parameter floor (NumOps has none), `j % k` of ints as intModG "
    "(floored, ZeroDivisionError); `Stream(E for v in run)` as the lazy map mapRunG with the raising primitives of E in Python's left to right order; "
    "the decorator "
    "`tostream` and the `Stream` wrapper are not translated (what the wrapper adds is the subject of C02). NOT trusted: "
    "the translated text itself - src_modulo_counter_is_model, src_line_is_model, src_fadein/fadeout_is_model, "
    "src_adsr_is_model, src_attack_is_model, src_ones_is_model, src_zeros_is_model, src_impulse_is_model, src_sinusoid_is_model, "
    "src_table_call_is_model, src_table_getitem_is_model prove it equal to the code shaped models mcNow / lineG / adsrG / "
    "attackNow / constG / impulseG / sinusoidNow / tableCallNow / getItemNow (getItemNow is tied to the specification "
    "interpCyc, which the driver runs and the tie compares with the real values, by the theorem src_table_getitem_eq_spec "
    "only) that "
    "the driver runs and the differential tie compares with the real outputs (exact and bit for bit), so a wrong reading of "
    "the source shows either as a failing theorem or as a model mismatch; check translator-selftest: 25 deliberate edits of "
    "the source text must change the generated text, comments must not, the clean source must reproduce the committed file",
    "float regime: Lean's `Float` + - * / are the C double operations (IEEE binary64, round to nearest even) exactly as "
    "CPython's; C fmod, Python's sign adjustment of float `%` (Objects/floatobject.c float_rem: `mod += wx` when the signs "
    "differ, copysign(0, wx) for a zero remainder), int(), math.ceil and the exact decoding of a float are written in Lean "
    "from the bit pattern in integer arithmetic (ALV/Model/C19Float.lean: cFmod, pyModF, fTrunc, fCeil) and validated only "
    "differentially (bit for bit on every float case); `Float.ofInt` / `Float.ofNat` / `Float.scaleB` are used on exactly "
    "representable values only; Lean's Float.sin is compared with math.sin within 4e-16; a number given as int / bool / "
    "Fraction enters every mixed operation of the modelled code as float(x) (python's correctly rounded conversion, done by "
    "the harness)",
    "float regime, what is proved and what is observed: every operation-generic definition (mcG, mcBranchG, lineG, constG, "
    "impulseG, adsrG, attackG, slopeG, lookupAtG, mapRun, tableCallG) over the exact operations IS the model / the "
    "specification (theorems generic_*), every output of mcG over ANY operations is a double reduction y % m % m "
    "(counter_outputs_double_reduced, float_counter_outputs_double_reduced) and a double reduction with any monotone rounding "
    "lies in [0, m) resp. (m, 0] (float_mod_double_range[_neg], counter_range_any_rounding[_neg]); float_rem is written once "
    "(pyModGen) and is fmodR on exact values (float_rem_exact_instance); on a decoded triple (sign, mantissa, exponent) the "
    "integer arithmetic of fAbsTrunc / truncT / ceilT / fmodT / stripZeros is truncation, ceiling, the C fmod remainder and a "
    "renormalisation of the exact value (float_abs_trunc, float_trunc_on_decoded, float_ceil_on_decoded, c_fmod_on_decoded, "
    "c_fmod_exact, float_renormalise_keeps_value). NOT proved (no IEEE theory): fDecode reads the fields of Float.toBits "
    "correctly, fExact (Float.ofNat, Float.scaleB) builds the float of a representable exact value, Lean's Float ==, < "
    "compare the exact values and + is the round-to-nearest-even sum (a monotone rounding fixing 0 and m) - so the range "
    "[0, m) resp. (m, 0], the equality of the first output and of all one-by-one paths across the eight spellings, and the "
    "lengths int(float(dur)+.5) are also CHECKED on every float output of the real code",
    "histories (tl_hist): hand-written Lean model ALV/Model/C19Obj.lean of the TableLookup object (reference to a python "
    "list, length cached by the `table` setter, `cycles`), of python list item assignment / append / pop, of operator "
    "dispatch (TableLookup vs int/float/complex scalar vs other -> NotImplementedError) and of the lazy stream returned by "
    "a call (captures the list, the cached length and cycles*2*pi at the call); the generator-side python port "
    "harness/props/c19_hist.py:Sim only chooses valid references and is never an oracle",
    "pools (multi) and every single call: the Lean model / spec is a pure function of one call's own argument values "
    "(`ALV.Driver.C19.handle \"multi\"` answers each request of a pool by `handleIdx` on that request alone), so 'the result "
    "depends only on the call's own arguments, not on other calls alive or made before' holds for the model by "
    "construction (nothing to prove); that the REAL code keeps no state between calls or objects and leaves its arguments "
    "alone is what the multi / history cases test, it is not proved",
    "long runs: the Lean side runs the code-shaped model and the specs (recursive layer; closed layer for a constant modulo, "
    "equal to the model by theorems modulo_counter_eq_rec / modulo_counter_const_modulo) over the whole run and transports "
    "the picked positions; comparing a sparse set of positions can miss a difference confined to unpicked positions "
    "(positions are drawn around every batch boundary j*int(modulo/step), j*4096 and 2**e, plus random ones)",
    "what a lazily consumed argument delivers is python's business: one one-shot iterator passed for several arguments is "
    "pulled in the order start, modulo, step by the lock-step reader (the arguments stand for the interleaved "
    "subsequences); a python list changed in place delivers, for positions at least 2 ahead of the consumer, the new items; "
    "TableLookup attributes (`table`: which list; `cycles`) are read at the call: a stream already returned is not "
    "affected by later attribute assignments (theorem hist_stream_isolated); what an open stream yields after the list it "
    "refers to was changed in place is NOT fixed by the property (such streams are not read again)",
    "hand-written Lean model ALV/Model/C19.lean of lazy_synth (modulo_counter, line, fades, adsr, attack: hand-written, but "
    "proved equal to the definitions regenerated from the source, see the translator line; ones, zeros, impulse, "
    "TableLookup call/getitem/operators/normalize/harmonize, sinusoid, karplus_strong, noise durations) "
    "and lazy_poly.resample + lagrange.func (modelled, not verified: Python's %, int(), math.ceil, zip, deque(maxlen), "
    "negative list indices, the generator protocol, PEP 479)",
    "float arithmetic of the impl is compared exactly only in the dyadic regime (all intermediate values exactly "
    "representable) and within 1e-9 relative elsewhere; sin / 2*pi / e**x values are computed by the harness with the "
    "same Python expressions as the code (TableLookup: cycles*2*pi; karplus_strong: 2*pi/freq, e**(-delay/tau)) and by "
    "Lean's Float.sin for the sinusoid",
    "karplus_strong: only lazy_synth's composition and the linearised comb recursion are modelled; the generated "
    "filter loop of lazy_filters is property C04's subject",
    "noise generators: duration and value range only (random values are not modelled)",
]
ASSUMPTIONS = [
    "float regime: path independence is demanded exactly only where it holds in IEEE arithmetic (first output; all spellings "
    "that take a one-by-one path) and cyclically within 1e-6*|modulo| for |start|, |step| <= 1e6*|modulo|; an all-numbers "
    "call with FINITE arguments whose modulo/step overflows to inf raises OverflowError from int() at the first read "
    "while the Stream(step) spelling yields the counter: a violation of 'identically whether its arguments are numbers "
    "or streams' (known finding D28, theorem counter_batch_size_error_numbers_only); only when an argument itself is nan "
    "or inf (modulo/step nan: ValueError from int()) is the difference predicted by the twin and not counted; negative "
    "attack / decay / release times have no documented length",
    "modulo_counter: float arguments are dyadic rationals of bounded size (binary floating point exact); non-dyadic "
    "rationals only as Fractions in the branches that keep them exact (start not iterable); modulo = 0 is checked "
    "to raise ZeroDivisionError at the first output that needs it",
    "durations / envelope times are >= 0 or small negatives (no -inf); attack's sustain stream is not empty",
    "TableLookup: freq / phase are numbers or Streams (plain lists cannot be multiplied by a float); the table is not empty",
    "resample: steps old/new >= 0 (theorem hypothesis and generator), new != 0, orders 0..5; in the float regime the "
    "steps are dyadic so that the window decisions (idx > threshold) are exact",
    "TableLookup operators: scalars are int / float / bool / subclasses (other numeric types: NotImplementedError, "
    "modelled in the histories); normalize on int/float tables",
    "TableLookup histories: tables are non-empty python lists of int / float items; cycles != 0; lists are resized in "
    "place (append / pop) only in the histories marked unsafe, where the cached length goes stale (defect D16, theorem "
    "hypothesis HOp.safe); `tl.table = None` (a failing assignment, defect D17) likewise; after it only the table, len, "
    "tl[idx], a call and a repairing assignment are observed",
    "long runs: values are small dyadic rationals so that binary floating point is exact over tens of thousands of steps",
]
MANIFEST = {
    "technique": "Lean 4 machine-checked proof over an executable model + source-to-Lean translator of generator function "
                 "bodies (harness/props/c19_tr.py -> lean/ALV/Gen/C19Src.lean, theorems src_*_is_model re-checked on every run) "
                 "+ differential correspondence with the implementation (exact and bit for bit on binary64)",
    "text": "113 Lean 4 theorems. The bodies of modulo_counter (8-way isinstance dispatch, 12 loops, every `% modulo` "
            "counted), line, fadein, fadeout, attack, adsr, ones, zeros, impulse, sinusoid, TableLookup.__call__ / __getitem__ are REGENERATED from the source text on every run and proved equal "
            "to the code shaped models (src_modulo_counter_is_model, src_line_is_model, src_adsr_is_model, "
            "src_attack_is_model, src_ones_is_model, src_impulse_is_model, ...), hence to the specifications over exact numbers. Float regime: operation-generic generators (record NumOps) run on IEEE binary64 predict the "
            "real float outputs bit for bit (all eight branches / spellings of modulo_counter, fast paths, oscillators, "
            "durations at the x.5 rounding boundaries); over the exact operations they are the proved model; every output of "
            "every path is a double reduction y % m % m, which lies in [0, m) for any monotone rounding while a single float "
            "% only reaches the closed [0, m]. Exact regime, over any linearly ordered field with a floor (Q, R): every branch and fast path of "
            "modulo_counter = recursive spec = closed form (constant modulo), range, length; line/fades/ones/zeros/"
            "impulse/adsr/attack shapes and durations; TableLookup = cyclic linear interpolation of the unreduced "
            "position; sinusoid = sin(phase + k freq) over R; karplus_strong shift register = recursion; resample "
            "generator loop = order-p Lagrange interpolation at m*old/new on the zero-extended input, ending with "
            "its input; histories of mutable TableLookup objects (heap of lists / objects / open streams): invariant kept by "
            "every operation incl. failing ones, each use answered from the current table and cycles only, open streams "
            "isolated from later assignments, operators allocate, failing steps change nothing; tied to /repo by a "
            "differential correspondence (exact in the dyadic / Fraction regime) incl. object histories, pools of "
            "generators sharing arguments and long runs across the batch boundaries of every fast path",
    "note": "Trusted: Lean kernel, axioms propext/Classical.choice/Quot.sound, the Python harness; the model is hand "
            "written and validated against the code differentially. Known genuine defects D6, D8, D14, D15 (fixed), D16 (stale "
            "cached table length) and D17 (failing `table` assignment is not atomic) are recorded in known_findings/C19.json with proposed fixes under proposed_fixes/.",
}

F = Fraction


# ----------------------------------------------------------------------------------------------
# value transport: {"v": exact, "t": "i"|"f"|"F"}
# ----------------------------------------------------------------------------------------------
class MyInt(int):
    """an int subclass (isinstance(x, int) holds, type(x) is not int)"""


class MyFloat(float):
    """a float subclass"""


def py(v, t):
    """types: i int, f float, F Fraction, b bool (0/1), I int subclass, X float subclass"""
    q = dec(v)
    if t in ("i", "I", "b"):
        assert q.denominator == 1 and (t != "b" or q in (0, 1))
        return int(q) if t == "i" else MyInt(int(q)) if t == "I" else bool(q)
    if t in ("f", "X"):
        x = float(q)
        assert Fraction(x) == q, "not exactly representable: %r" % (v,)
        return x if t == "f" else MyFloat(x)
    return Fraction(q)


def fit_type(t, r):
    """the type tag `t` if the rational r can be given that type, else "F" """
    r = Fraction(r)
    if t in ("i", "I"):
        return t if r.denominator == 1 else "F"
    if t == "b":
        return t if r in (0, 1) else ("i" if r.denominator == 1 else "F")
    if t in ("f", "X"):
        return t if is_dyadic(r, 60) and abs(r.numerator) < 2 ** 53 else "F"
    return "F"


def dyadic(rng, big=False):
    e = rng.choice([0, 0, 0, 1, 1, 2, 3, 4])
    k = rng.randint(-64, 64) if not big else rng.randint(-4096, 4096)
    return F(k, 2 ** e)


def typ_for(q, rng, allow_float=True):
    ts = ["F"]
    if q.denominator == 1:
        ts.append("i")
    if allow_float and q.denominator & (q.denominator - 1) == 0:
        ts += ["f", "f"]
    t = rng.choice(ts)
    if rng.random() < 0.06:                      # numbers of unusual types
        if t == "i":
            t = "b" if q in (0, 1) and rng.random() < 0.5 else "I"
        elif t == "f":
            t = "X"
    return t


def drain(it, n):
    """first n items of an iterator, and how it ended"""
    out = []
    try:
        it = iter(it)
        for _ in range(n):
            out.append(next(it))
        return out, "fuel"
    except StopIteration:
        return out, "stop"
    except Exception as e:
        return out, err_kind(e)


def encs(c, out):
    """the outputs of a case in transport form: all of them, or (long runs) only the picked positions"""
    if "pick" in c:
        return {"n": len(out), "at": [enc(out[i]) for i in c["pick"] if i < len(out)]}
    return [enc(x) for x in out]


def drain_co(it, n):
    """`drain` as a coroutine: before every chunk it yields (taken so far, wanted) and is sent the
    size of the next chunk (None = all the rest), so that a scheduler can interleave the
    consumption of several generators (entry "multi") or act between two chunks."""
    out = []
    try:
        it = iter(it)
        while len(out) < n:
            k = yield (len(out), n)
            k = n - len(out) if k is None else max(1, min(k, n - len(out)))
            for _ in range(k):
                out.append(next(it))
        return out, "fuel"
    except StopIteration:
        return out, "stop"
    except Exception as e:
        return out, err_kind(e)


def run_co(g, chunks=None):
    """run an impl coroutine alone; `chunks`: sizes of the successive chunks (then all the rest)"""
    chunks = list(chunks or [])
    try:
        g.send(None)
        while True:
            g.send(chunks.pop(0) if chunks else None)
    except StopIteration as e:
        return e.value


# ----------------------------------------------------------------------------------------------
# modulo_counter
# ----------------------------------------------------------------------------------------------
def mc_arg(rng, vals, allow_float):
    """vals: Fraction (number) or list of Fractions (stream)"""
    if isinstance(vals, list):
        t = rng.choice(["f", "F", "mixed"]) if allow_float else rng.choice(["F", "mixed"])
        ts = [typ_for(v, rng, allow_float) if t == "mixed" else t for v in vals]
        return {"strm": [enc(v) for v in vals], "ts": ts, "kind": rng.choice(KINDS)}
    return {"num": enc(vals), "t": typ_for(vals, rng, allow_float)}


KINDS = ("list", "iter", "Stream", "tuple", "gen", "deque", "sub", "thub", "iterable")
ONE_SHOT = ("iter", "Stream", "gen", "sub")          # one object = one pass over the items
_SUB = []


def stream_subclass():
    """a Stream subclass overriding __iter__ (made once, after audiolazy is importable)"""
    if not _SUB:
        from audiolazy import Stream

        class SubStream(Stream):
            def __iter__(self):
                for x in Stream.__iter__(self):
                    yield x
        _SUB.append(SubStream)
    return _SUB[0]


class OnlyIterable(object):
    """an object that is Iterable (has __iter__) and nothing else"""
    def __init__(self, xs):
        self.xs = xs

    def __iter__(self):
        return iter(self.xs)


def arg_items(a):
    """the exact items of a stream argument ({"strm"} or the compact {"cyc", "len"})"""
    if "cyc" in a:
        pat = a["cyc"]
        return [pat[i % len(pat)] for i in range(a["len"])] if pat else []
    return a["strm"]


def arg_types(a):
    if "cyc" in a:
        ts = a["ts"]
        return [ts[i % len(ts)] for i in range(a["len"])] if ts else []
    return a["ts"]


def is_strm(a):
    return "strm" in a or "cyc" in a


def build_stream(xs, k, users=1):
    from audiolazy import Stream, thub
    import collections
    if k == "iter":
        return iter(xs)
    if k == "Stream":
        return Stream(xs)
    if k == "tuple":
        return tuple(xs)
    if k == "gen":
        return (x for x in xs)
    if k == "deque":
        return collections.deque(xs)
    if k == "sub":
        return stream_subclass()(xs)
    if k == "thub":
        return thub(Stream(xs), users)
    if k == "iterable":
        return OnlyIterable(xs)
    return xs


def arg_values(a):
    """the python items of a stream argument"""
    if "cyc" in a:
        pat = [py(v, t) for v, t in zip(a["cyc"], a["ts"])]
        return [pat[i % len(pat)] for i in range(a["len"])] if pat else []
    return [py(v, t) for v, t in zip(a["strm"], a["ts"])]


_SHARE = None        # entry "multi": share key -> (object, pristine items, kind) while a pool of calls runs


def track(tr, obj, items):
    """remember a container handed to the code under test, with a pristine copy of its items"""
    if tr is not None and isinstance(obj, (list, tuple, OnlyIterable)) or type(obj).__name__ in ("deque", "array"):
        if tr is not None:
            tr.append((obj, list(items)))
    return obj


def args_intact(tr):
    """no container handed to the code was changed by it"""
    for obj, pristine in tr:
        now = list(obj.xs) if isinstance(obj, OnlyIterable) else list(obj)
        if len(now) != len(pristine) or any(type(x) is not type(y) or x != y for x, y in zip(now, pristine)):
            return False
    return True


def finish(tr, out, end, c):
    return {"out": encs(c, out), "end": end if args_intact(tr) else "ARG-MUTATED"}


def mc_build(a, tr=None):
    if "num" in a:
        return py(a["num"], a["t"])
    if _SHARE is None or "share" not in a:
        xs = arg_values(a)
        return track(tr, build_stream(xs, a.get("kind", "list")), xs)
    if _SHARE is not None and "share" in a:
        if a["share"] not in _SHARE:
            xs = arg_values(a)
            _SHARE[a["share"]] = (build_stream(xs, a["kind"], a.get("users", 1)), list(xs), a["kind"])
        return _SHARE[a["share"]][0]
    return build_stream(arg_values(a), a.get("kind", "list"))


def gen_mc(rng, tier, scale):
    cases = []
    per = (220 if tier == "quick" else 2500) * scale
    for combo in itertools.product([False, True], repeat=3):     # start, modulo, step iterable?
        for _ in range(per):
            n = rng.choice([1, 2, 3, 5, 8, 13, 21, 34])
            p_it, m_it, s_it = combo
            # Fractions that are not dyadic only where the code keeps them exact
            fraction_regime = (not p_it) and rng.random() < 0.4
            def val(big=False):
                if fraction_regime:
                    return F(rng.randint(-40, 40), rng.choice([1, 2, 3, 4, 5, 6, 7, 12]))
                return dyadic(rng, big)
            m = val()
            while m == 0:
                m = val()
            r = rng.random()
            if r < 0.6:
                m = abs(m)
            if r > 0.97:
                m = F(0)                                     # ZeroDivisionError branch
            kind = rng.choice(["any", "any", "zero", "mult", "neg", "small", "small", "tiny", "big"])
            def step_val():
                if kind == "zero":
                    return F(0)
                if kind == "mult":
                    return m * rng.randint(-3, 3)
                if kind == "neg":
                    return -abs(val())
                if kind == "small":                            # many steps per cycle: fast path
                    return m / rng.choice([2, 4, 8, 16, -2, -4, 3 if fraction_regime else 32])
                if kind == "tiny":
                    return m / rng.choice([64, 128]) if not fraction_regime else m / 50
                if kind == "big":
                    return val(True)
                return val()
            ln = lambda: rng.choice([n, n, n + 3, max(0, n - 2), rng.randint(0, n + 4)])
            start = [val(rng.random() < 0.2) for _ in range(ln())] if p_it else val(rng.random() < 0.2)
            if p_it and rng.random() < 0.3 and start:
                start = [start[0]] * len(start)               # constant stream
            if m_it:
                if rng.random() < 0.4:
                    modulo = [m] * ln()                          # constant stream: closed layer applies
                else:
                    modulo = []
                    for _ in range(ln()):
                        x = val()
                        while x == 0:
                            x = val()
                        modulo.append(abs(x) if rng.random() < 0.7 else x)
                    if modulo and rng.random() < 0.05:
                        modulo[rng.randrange(len(modulo))] = F(0)
            else:
                modulo = m
            if s_it:
                step = [step_val() for _ in range(ln())]
                if rng.random() < 0.25 and step:
                    step = [step[0]] * len(step)
            else:
                step = step_val()
            af = not fraction_regime
            c = {"entry": "modulo_counter", "n": n,
                 "start": mc_arg(rng, start, af), "modulo": mc_arg(rng, modulo, af),
                 "step": mc_arg(rng, step, af)}
            mc_flavour(rng, c)
            cases.append(c)
    return cases


def mc_flavour(rng, c):
    """rarely used ways of passing the arguments: one object for several arguments, a list
    argument changed in place while the counter is alive, a source that raises"""
    strms = [k for k in MC_ARGS if is_strm(c[k])]
    r = rng.random()
    if r < 0.10 and len(strms) >= 2:
        group = strms if rng.random() < 0.5 else sorted(rng.sample(strms, 2), key=MC_ARGS.index)
        base = c[group[0]]
        if group[0] != "modulo" and "modulo" in group:
            base["strm"] = [x if dec(x) != 0 else 3 for x in base["strm"]]   # the modulo reads it too
            base["ts"] = [t if t != "b" else "i" for t in base["ts"]]
        for k in group[1:]:
            c[k] = dict(base)
        c["alias"] = group
    elif r < 0.20 and strms:
        k = rng.choice(strms)
        a = c[k]
        L = len(a["strm"])
        at = min(c["n"], rng.choice([0, 0, 1, 2, rng.randint(0, max(0, c["n"] - 1))]))
        if L > at + 2:
            a["kind"] = "list"
            pos = rng.randint(at + 2, L - 1)
            v = dyadic(rng)
            if k == "modulo" and v == 0:
                v = F(5)
            c["late"] = {"arg": k, "at": at, "k": pos, "v": enc(v),
                         "t": "f" if any(t in ("f", "X") for t in a["ts"]) else "F"}
    elif r < 0.28 and strms:
        k = rng.choice(strms)
        after = rng.randint(0, max(0, len(c[k]["strm"]) - 1))
        if all(len(c[j]["strm"]) > after for j in strms if j != k) and c["n"] > after:
            c["raises"] = {"arg": k, "after": after}


MC_ARGS = ("start", "modulo", "step")


def raising(xs):
    """a source that fails after its items"""
    for x in xs:
        yield x
    raise KeyError("source failed")


def mc_objects(c, tr=None):
    """the three argument objects of a modulo_counter case.
    c["alias"] = [names]: ONE object (described by the first name) is passed for all of them;
    c["raises"] = {"arg", "after"}: that stream raises KeyError after `after` items."""
    objs = {}
    group = c.get("alias") or []
    for k in MC_ARGS:
        if k in group and k != group[0]:
            objs[k] = objs[group[0]]
        elif c.get("raises") and c["raises"]["arg"] == k:
            a = c[k]
            objs[k] = raising(arg_values(a)[:c["raises"]["after"]])
        elif k in group and c[k].get("kind") == "thub":
            a = c[k]
            objs[k] = build_stream(arg_values(a), "thub", len(group))
        else:
            objs[k] = mc_build(c[k], tr)
    return objs


def mc_effective(c):
    """the sequence every argument stands for (what goes to the Lean side).
    One one-shot iterator passed for several arguments is pulled by the lock-step reader in the
    order start, modulo, step: the arguments stand for the interleaved subsequences.  A list
    changed in place (c["late"]) before an item is pulled delivers the new item."""
    eff = {k: strip_arg(c[k]) for k in MC_ARGS}
    group = c.get("alias") or []
    if group:
        base = c[group[0]]
        xs = arg_items(base)
        if base.get("kind") in ONE_SHOT:
            for j, k in enumerate(group):
                eff[k] = {"strm": xs[j::len(group)]}
        else:
            for k in group:
                eff[k] = {"strm": list(xs)}
    if c.get("raises"):
        k = c["raises"]["arg"]
        eff[k] = {"strm": arg_items(c[k])[:c["raises"]["after"]]}
    if c.get("late"):
        k = c["late"]["arg"]
        xs = list(arg_items(c[k]))
        xs[c["late"]["k"]] = c["late"]["v"]
        eff[k] = {"strm": xs}
    return eff


def co_mc(c):
    from audiolazy import modulo_counter
    tr = []
    try:
        objs = mc_objects(c, tr)
        s = modulo_counter(objs["start"], objs["modulo"], objs["step"])
    except Exception as e:
        return {"out": [], "end": err_kind(e)}
    late = c.get("late")
    if late:
        # the argument list is changed in place after `at` outputs were taken (at = 0: after the
        # call, before anything is consumed), at a position the counter cannot have pulled yet
        it = iter(s)
        out, end = yield from drain_co(it, late["at"])
        if end == "fuel":
            objs[late["arg"]][late["k"]] = py(late["v"], late["t"])
            for obj, pristine in tr:
                if obj is objs[late["arg"]]:
                    pristine[late["k"]] = obj[late["k"]]
            out2, end = yield from drain_co(it, c["n"] - late["at"])
            out = out + out2
    else:
        out, end = yield from drain_co(s, c["n"])
    return finish(tr, out, end, c)


def req_mc(c):
    r = {"entry": "modulo_counter", "n": c["n"]}
    r.update(mc_effective(c))
    if "pick" in c:
        r["pick"] = c["pick"]
    return r


def cmp_mc(c, io, drv):
    res = []
    got = [dec(x) for x in io["out"]]
    model = [dec(x) for x in drv["model"]]
    rec = [dec(x) for x in drv["rec"]]
    z = drv["zero_at"]
    if z is not None:
        exp_m, exp_r, exp_end = model[:z], rec[:z], "ZeroDivisionError"
    else:
        exp_m, exp_r = model, rec
        exp_end = "fuel" if len(model) == c["n"] else "stop"
        if c.get("raises") and exp_end == "stop" and len(model) == c["raises"]["after"]:
            exp_end = "KeyError"               # the failure of the source comes through, after the outputs before it
    if got != exp_m or io["end"] != exp_end:
        res.append(("model", "modulo_counter[%s]: impl=%s/%s model=%s/%s" % (
            drv["branch"], io["out"], io["end"], [enc(x) for x in exp_m], exp_end)))
    bad = got != exp_r or io["end"] != exp_end
    if not bad and drv["closed"] is not None:
        cl = [dec(x) for x in drv["closed"]]
        if z is not None:
            cl = cl[:z]
        bad = got != cl
    if bad:
        res.append(("spec", "modulo_counter[%s]: impl=%s/%s spec=%s/%s" % (
            drv["branch"], io["out"], io["end"], [enc(x) for x in exp_r], exp_end)))
    return res


def mc_branch(c):
    a, m, s = c["start"], c["modulo"], c["step"]
    b = ("P" if is_strm(a) else "-") + ("M" if is_strm(m) else "-") + ("S" if is_strm(s) else "-")
    if "num" in m and "num" in s:
        mv, sv = dec(m["num"]), dec(s["num"])
        if sv == 0:
            b += ":step0"
        elif mv != 0 and int(mv / sv) > 1:
            b += ":fast"
        else:
            b += ":plain"
    return b


def tally_mc(eng, c, io):
    eng.count("mc_branch", mc_branch(c))
    eng.count("mc_end", io["end"])
    eng.count("mc_outputs", min(len(io["out"]) // 5 * 5, 30))
    ts = set()
    for k in ("start", "modulo", "step"):
        a = c[k]
        ts |= set(a["ts"]) if is_strm(a) else {a["t"]}
        if is_strm(a):
            eng.count("mc_stream_kind", a.get("kind", "list"))
    eng.count("mc_types", "".join(sorted(ts)))
    m = c["modulo"]
    if is_strm(m):
        eng.count("mc_modulo_stream", "constant" if len(set(arg_items(m))) <= 1 else "varying")
    if c.get("alias"):
        eng.count("mc_same_object_as", "+".join(c["alias"]) + ":" + c[c["alias"][0]].get("kind", "list"))
    if c.get("late"):
        eng.count("mc_list_changed_in_place", "%s:%s" % (c["late"]["arg"], "before-first-output" if c["late"]["at"] == 0 else "between-outputs"))
    if c.get("raises"):
        eng.count("mc_source_raises", c["raises"]["arg"])


def shrink_mc(c):
    if c["n"] > 1:
        yield dict(c, n=c["n"] - 1)
        yield dict(c, n=c["n"] // 2)
    for k in ("start", "modulo", "step"):
        a = c[k]
        if "strm" in a:
            xs = a["strm"]
            if len(xs) > c["n"]:
                yield dict(c, **{k: dict(a, strm=xs[:c["n"]], ts=a["ts"][:c["n"]])})
            if a.get("kind") != "list":
                yield dict(c, **{k: dict(a, kind="list")})
            referred = (k in (c.get("alias") or []) or (c.get("raises") or {}).get("arg") == k
                        or (c.get("late") or {}).get("arg") == k)      # the case names this argument as a stream
            if xs and len(set(xs)) == 1 and len(xs) >= c["n"] and not referred:
                yield dict(c, **{k: {"num": xs[0], "t": a["ts"][0]}})
            for i, x in enumerate(xs):
                q = dec(x)
                for r in {F(int(q)), F(0), F(1)} - {q}:
                    if k == "modulo" and r == 0:
                        continue
                    ys = list(xs); ys[i] = enc(r)
                    ts = list(a["ts"])
                    yield dict(c, **{k: dict(a, strm=ys, ts=ts)})
        else:
            q = dec(a["num"])
            for r in {F(int(q)), F(1), F(2)} - {q}:
                if k == "modulo" and r == 0:
                    continue
                yield dict(c, **{k: dict(a, num=enc(r))})


def neigh_mc(c):
    for k in ("start", "modulo", "step"):
        a = c[k]
        if "num" in a:
            q = dec(a["num"])
            for d in (F(1), F(-1), F(1, 2), -q - q):
                if k == "modulo" and q + d == 0:
                    continue
                yield dict(c, **{k: dict(a, num=enc(q + d))})
    yield dict(c, n=c["n"] + 1)
    yield dict(c, n=c["n"] + 7)


def classify_mc(c, io, drv):
    if io["end"] not in ("fuel", "stop"):
        return "modulo_counter:%s:%s" % (mc_branch(c), io["end"])
    return "modulo_counter:%s:values" % mc_branch(c)


# ----------------------------------------------------------------------------------------------
# durations and piecewise-linear shapes: line, fadein, fadeout, ones, zeros, impulse, adsr, attack
# ----------------------------------------------------------------------------------------------
TOL = F(1, 10 ** 9)
INF = float("inf")


def is_dyadic(q, bits=40):
    d = Fraction(q).denominator
    return d & (d - 1) == 0 and d <= 2 ** bits


def num(rng, q, allow_float=True):
    """transport form of a rational with a Python type chosen for it"""
    return {"v": enc(q), "t": typ_for(q, rng, allow_float and is_dyadic(q))}


def pv(a):
    return py(a["v"], a["t"])


def qv(a):
    return dec(a["v"])


def gen_dur(rng):
    r = rng.random()
    if r < 0.35:
        return F(rng.randint(0, 24), 1)
    if r < 0.55:
        return F(rng.randint(-4, 48), 2)                       # includes the x.5 rounding boundary
    if r < 0.8:
        return F(rng.randint(-8, 160), rng.choice([4, 8, 16]))
    if r < 0.9:
        return F(rng.randint(1, 90), rng.choice([3, 5, 7, 10]))  # not dyadic: float regime
    return F(rng.choice([0, 0, 1, 1, 2]))


def same_vals(got, exp, exact):
    """got, exp: lists of Fractions"""
    if got == exp:
        return True
    if exact or len(got) != len(exp):
        return False
    return all(abs(a - b) <= TOL * (1 + abs(b)) for a, b in zip(got, exp))


def cmp_except(c, io, drv, exact, label):
    """model = {"err": E} | {"out": [...]}, spec = [...]; io = {"out", "end"}"""
    res = []
    got = [dec(x) for x in io["out"]]
    spec = [dec(x) for x in drv["spec"]] if drv["spec"] is not None else None
    m = drv["model"]
    if "err" in m:
        spec_end = c.get("exp_end", "stop")
        if spec_end == "auto":
            spec_end = "fuel" if spec is not None and len(spec) == c["n"] else "stop"
        as_coded = (got == [] and io["end"] == m["err"])
        as_spec = spec is not None and io["end"] == spec_end and same_vals(got, spec, exact)
        if not (as_coded or as_spec):
            res.append(("model", "%s: impl=%s/%s, the code as modelled raises %s" % (label, io["out"], io["end"], m["err"])))
        if spec is not None and not as_spec:
            res.append(("spec", "%s: impl=%s/%s spec=%s" % (label, io["out"], io["end"], drv["spec"])))
        return res
    mod = [dec(x) for x in m["out"]]
    exp_end = c.get("exp_end", "stop")
    if exp_end == "auto":
        exp_end = "fuel" if len(mod) == c["n"] else "stop"
    if not same_vals(got, mod, exact) or io["end"] != exp_end:
        res.append(("model", "%s: impl=%s/%s model=%s/%s" % (label, io["out"], io["end"], m["out"], exp_end)))
    if spec is None or not same_vals(got, spec, exact) or io["end"] != exp_end:
        res.append(("spec", "%s: impl=%s/%s spec=%s/%s" % (label, io["out"], io["end"], drv["spec"], exp_end)))
    return res


FUEL = 400


# --- line / fades -------------------------------------------------------------------------------
def gen_line(rng, tier, scale):
    cases = []
    k = (1000 if tier == "quick" else 12000) * scale
    for _ in range(k):
        dur = gen_dur(rng)
        fin = rng.random() < 0.4
        b = dyadic(rng) if rng.random() < 0.8 else F(rng.randint(-9, 9), rng.choice([3, 5, 6]))
        den = dur - (1 if fin else 0)
        if rng.random() < 0.6 and den != 0:
            e = b + den * dyadic(rng)                      # dyadic slope: exact regime
        else:
            e = dyadic(rng)
        cases.append({"entry": "line", "dur": num(rng, dur), "begin": num(rng, b), "end": num(rng, e),
                      "finish": fin, "how": rng.choice(["pos", "kw"])})
    for _ in range(k // 4):
        cases.append({"entry": rng.choice(["fadein", "fadeout"]), "dur": num(rng, gen_dur(rng))})
    return cases


def line_exact(c):
    if c["entry"] == "line":
        dur, b, e = qv(c["dur"]), qv(c["begin"]), qv(c["end"])
        den = dur - (1 if c["finish"] else 0)
    else:
        dur, b, e = qv(c["dur"]), F(0), F(1)
        den = dur
    return (is_dyadic(dur, 20) and is_dyadic(b, 20) and is_dyadic(e, 20)
            and (den == 0 or is_dyadic((e - b) / den, 20)))


def co_line(c):
    from audiolazy import line, fadein, fadeout
    try:
        if c["entry"] == "line":
            if c.get("how") == "kw":
                s = line(dur=pv(c["dur"]), begin=pv(c["begin"]), end=pv(c["end"]), finish=c["finish"])
            else:
                s = line(pv(c["dur"]), pv(c["begin"]), pv(c["end"]), c["finish"])
        elif c["entry"] == "fadein":
            s = fadein(pv(c["dur"]))
        else:
            s = fadeout(pv(c["dur"]))
    except Exception as e:
        return {"out": [], "end": err_kind(e)}
    out, end = yield from drain_co(s, c.get("fuel", FUEL))
    return {"out": encs(c, out), "end": end}


def req_line(c):
    r = {"entry": c["entry"], "dur": c["dur"]["v"]}
    if c["entry"] == "line":
        r.update(begin=c["begin"]["v"], end=c["end"]["v"], finish=c["finish"])
    return r


def cmp_line(c, io, drv):
    return cmp_except(c, io, drv, line_exact(c), c["entry"])


def tally_line(eng, c, io):
    eng.count("line_regime", "exact" if line_exact(c) else "float")
    eng.count("line_len", min(len(io["out"]) // 4 * 4, 40))
    eng.count("line_end", io["end"])
    d = qv(c["dur"])
    eng.count("dur_kind", "half" if (d * 2).denominator == 1 and d.denominator == 2 else
              ("int" if d.denominator == 1 else "frac"))


def classify_line(c, io, drv):
    den = qv(c["dur"]) - (1 if c.get("finish") else 0)
    if io["end"] == "ZeroDivisionError":
        return "line:ZeroDivisionError:dur-finish=0" if den == 0 else "line:ZeroDivisionError:dur-finish!=0"
    if io["end"] != "stop":
        return "%s:%s" % (c["entry"], io["end"])
    return "%s:values" % c["entry"]


def shrink_num_fields(c, fields):
    for k in fields:
        a = c[k]
        q = qv(a)
        for r in (F(int(q)), F(0), F(1), F(2), q / 2):
            if r != q and abs(r) <= abs(q) + 2:
                yield dict(c, **{k: {"v": enc(r), "t": fit_type(a["t"], r)}})
        if a["t"] != "F":
            yield dict(c, **{k: dict(a, t="F")})


def shrink_line(c):
    fs = ["dur"] + (["begin", "end"] if c["entry"] == "line" else [])
    for x in shrink_num_fields(c, fs):
        yield x
    if c.get("finish"):
        yield dict(c, finish=False)


def neigh_line(c):
    q = qv(c["dur"])
    for d in (F(1), F(-1), F(1, 2), F(-1, 2), F(1, 4)):
        if q + d >= 0:
            yield dict(c, dur={"v": enc(q + d), "t": "F"})
    if c["entry"] == "line":
        yield dict(c, finish=not c["finish"])


# --- ones / zeros / impulse -----------------------------------------------------------------------
def gen_const(rng, tier, scale):
    cases = []
    k = (500 if tier == "quick" else 6000) * scale
    for _ in range(k):
        what = rng.choice(["ones", "zeros", "zeroes", "impulse"])
        r = rng.random()
        if r < 0.1:
            dur = None
        elif r < 0.2:
            dur = "inf"
        else:
            d = gen_dur(rng)
            if rng.random() < 0.15:
                d = -d
            dur = num(rng, d)
        c = {"entry": what, "dur": dur, "n": rng.choice([0, 1, 2, 5, 30, 60, 100]), "exp_end": "auto"}
        if what == "impulse" and rng.random() < 0.5:
            c["one"] = rng.choice([7, "one", [1, 2], None, -1])
            c["zero"] = rng.choice([0, "zero", None, [0], 3])
        cases.append(c)
    return cases


def _dur_py(d):
    return None if d is None else (INF if d == "inf" else pv(d))


def co_const(c):
    import audiolazy
    f = getattr(audiolazy, c["entry"])
    try:
        if c["entry"] == "impulse" and "one" in c:
            s = f(_dur_py(c["dur"]), one=c["one"], zero=c["zero"])
        elif c["dur"] is None and c["n"] % 2:
            s = f()
        else:
            s = f(_dur_py(c["dur"]))
    except Exception as e:
        return {"out": [], "end": err_kind(e)}
    out, end = yield from drain_co(s, c["n"])
    if c["entry"] == "impulse" and "one" in c:
        return {"out": out, "end": end}
    return {"out": encs(c, out), "end": end}


def req_const(c):
    dur = None if c["dur"] in (None, "inf") else c["dur"]["v"]
    if c["entry"] == "impulse":
        r = {"entry": "impulse", "dur": dur, "n": c["n"]}
        if "one" in c:
            r.update(one=c["one"], zero=c["zero"])
        return r
    return {"entry": "const", "v": 1 if c["entry"] == "ones" else 0, "dur": dur, "n": c["n"]}


def cmp_const(c, io, drv):
    res = []
    exp_end = "fuel" if len(drv["model"]) == c["n"] else "stop"
    if io["out"] != drv["model"] or io["end"] != exp_end:
        res.append(("model", "%s: impl=%s/%s model=%s/%s" % (c["entry"], io["out"], io["end"], drv["model"], exp_end)))
    if io["out"] != drv["spec"] or io["end"] != exp_end:
        res.append(("spec", "%s: impl=%s/%s spec=%s/%s" % (c["entry"], io["out"], io["end"], drv["spec"], exp_end)))
    return res


def tally_const(eng, c, io):
    eng.count("const_dur", "None" if c["dur"] is None else ("inf" if c["dur"] == "inf" else
              ("neg" if qv(c["dur"]) < 0 else "finite")))
    eng.count("const_end", io["end"])


def shrink_const(c):
    if c["n"] > 0:
        yield dict(c, n=c["n"] - 1)
        yield dict(c, n=c["n"] // 2)
    if isinstance(c["dur"], dict):
        for x in shrink_num_fields(c, ["dur"]):
            yield x
    if "one" in c:
        yield {k: v for k, v in c.items() if k not in ("one", "zero")}


def neigh_const(c):
    if isinstance(c["dur"], dict):
        q = qv(c["dur"])
        for d in (F(1), F(-1), F(1, 2), F(-1, 2), F(1, 4)):
            yield dict(c, dur={"v": enc(q + d), "t": "F"}, n=max(c["n"], int(q) + 3))


def classify_const(c, io, drv):
    if io["end"] not in ("stop", "fuel"):
        return "%s:%s" % (c["entry"], io["end"])
    return "%s:%s" % (c["entry"], "length" if len(io["out"]) != len(drv["spec"]) else "values")


# --- white_noise / gauss_noise: duration and range only ---------------------------------------------
def gen_noise(rng, tier, scale):
    cases = []
    k = (250 if tier == "quick" else 3000) * scale
    for _ in range(k):
        what = rng.choice(["white_noise", "gauss_noise"])
        r = rng.random()
        if r < 0.1:
            dur = None
        elif r < 0.2:
            dur = "inf"
        else:
            d = gen_dur(rng)
            if rng.random() < 0.12:
                d = -d
            dur = num(rng, d)
        lo, hi = sorted([dyadic(rng), dyadic(rng)])
        c = {"entry": what, "dur": dur, "n": rng.choice([0, 1, 5, 30, 60, 100])}
        r = rng.random()
        if r < 0.45:
            c["p1"], c["p2"] = num(rng, lo), num(rng, hi if what == "white_noise" else abs(hi))
        elif r < 0.6:                                        # degenerate: the value is determined
            c["p1"], c["p2"] = (num(rng, lo), num(rng, lo)) if what == "white_noise" else (num(rng, lo), num(rng, F(0)))
        elif r < 0.8 and isinstance(dur, dict):              # one parameter by keyword, the other left to its default
            if what == "white_noise":
                c["kw"] = rng.choice(["low", "high"])
                c["p"] = num(rng, -abs(lo) - 1 if c["kw"] == "low" else abs(hi) + 1)
            else:
                c["kw"] = rng.choice(["mu", "sigma"])
                c["p"] = num(rng, lo if c["kw"] == "mu" else F(0))
        cases.append(c)
    return cases


def co_noise(c):
    import audiolazy
    f = getattr(audiolazy, c["entry"])
    try:
        if "p1" in c:
            s = f(_dur_py(c["dur"]), pv(c["p1"]), pv(c["p2"]))
        elif "kw" in c:
            s = f(_dur_py(c["dur"]), **{c["kw"]: pv(c["p"])})
        elif c["dur"] is None and c["n"] % 2:
            s = f()
        else:
            s = f(_dur_py(c["dur"]))
    except Exception as e:
        return {"out": [], "end": err_kind(e)}
    out, end = yield from drain_co(s, c["n"])
    ok = all(isinstance(x, float) and x == x for x in out)
    return {"out": [enc(x) for x in out] if ok else [repr(x) for x in out], "end": end, "floats": ok}


def req_noise(c):
    return {"entry": "noise", "dur": None if c["dur"] in (None, "inf") else c["dur"]["v"], "n": c["n"]}


def cmp_noise(c, io, drv):
    res = []
    exp_end = "fuel" if drv["model"] == c["n"] else "stop"
    if len(io["out"]) != drv["model"] or io["end"] != exp_end:
        res.append(("model", "%s: impl yields %d samples/%s, model %d/%s" % (c["entry"], len(io["out"]), io["end"], drv["model"], exp_end)))
    bad = len(io["out"]) != drv["spec"] or io["end"] != ("fuel" if drv["spec"] == c["n"] else "stop") or not io["floats"]
    if not bad and c["entry"] == "white_noise":
        lo, hi = (qv(c["p1"]), qv(c["p2"])) if "p1" in c else (F(-1), F(1))      # documented defaults [-1, 1]
        if "kw" in c:
            lo, hi = (qv(c["p"]), hi) if c["kw"] == "low" else (lo, qv(c["p"]))
        bad = any(not (lo <= dec(x) <= hi) for x in io["out"])
        if not bad and len(io["out"]) >= 40 and lo < hi:
            # the whole range is used: both halves are hit (a fair source misses one with p = 2 * 2**-40)
            mid = (lo + hi) / 2
            bad = not (any(dec(x) < mid for x in io["out"]) and any(dec(x) > mid for x in io["out"]))
    if not bad and c["entry"] == "gauss_noise":
        mu, sigma = (qv(c["p1"]), qv(c["p2"])) if "p1" in c else (F(0), F(1))    # documented defaults N(0, 1)
        if "kw" in c:
            mu, sigma = (qv(c["p"]), sigma) if c["kw"] == "mu" else (mu, qv(c["p"]))
        if sigma == 0:
            bad = any(dec(x) != mu for x in io["out"])                              # degenerate: exactly mu
        else:
            bad = any(abs(dec(x) - mu) > 12 * sigma for x in io["out"])             # 12 sigma: p < 1e-32
    if bad:
        res.append(("spec", "%s: impl yields %d samples/%s (range ok: see values), spec %d samples" % (
            c["entry"], len(io["out"]), io["end"], drv["spec"])))
    return res


def tally_noise(eng, c, io):
    tally_const(eng, c, io)
    eng.count("noise_params", "kw:" + c["kw"] if "kw" in c else
              ("degenerate" if "p1" in c and (c["p1"]["v"] == c["p2"]["v"] or dec(c["p2"]["v"]) == 0) else
               "positional" if "p1" in c else "defaults"))


def classify_noise(c, io, drv):
    if io["end"] not in ("stop", "fuel"):
        return "%s:%s" % (c["entry"], io["end"])
    return "%s:%s" % (c["entry"], "length" if len(io["out"]) != drv["spec"] else "range")


# --- adsr / attack ---------------------------------------------------------------------------------
def gen_time(rng, zero_rate=0.04):
    r = rng.random()
    if r < zero_rate:
        return F(0)
    if r < 0.5:
        return F(2) ** rng.randint(-2, 4)                      # 1/a dyadic: exact regime
    if r < 0.8:
        return F(rng.randint(1, 40), rng.choice([1, 2, 4]))
    return F(rng.randint(1, 30), rng.choice([3, 5]))


def gen_adsr(rng, tier, scale):
    cases = []
    k = (800 if tier == "quick" else 10000) * scale
    for _ in range(k):
        a, d, r = gen_time(rng), gen_time(rng), gen_time(rng)
        s = dyadic(rng) / 8 if rng.random() < 0.8 else F(rng.randint(0, 9), 10)
        if rng.random() < 0.5:
            a, d, r = min(a, 8), min(d, 8), min(r, 8)
        dur = a + d + r + gen_dur(rng) if rng.random() < 0.75 else gen_dur(rng)
        cases.append({"entry": "adsr", "dur": num(rng, dur), "a": num(rng, a), "d": num(rng, d),
                      "s": num(rng, s), "r": num(rng, r), "how": rng.choice(["pos", "kw"])})
    for _ in range(k // 2):
        a, d = gen_time(rng), gen_time(rng)
        a, d = min(a, 10), min(d, 10)
        n = rng.choice([1, 3, 10, 25, 40])
        if rng.random() < 0.5:
            s = {"num": enc(dyadic(rng) / 8)}
            s["t"] = typ_for(dec(s["num"]), rng)
        else:
            xs = [dyadic(rng) / 8 for _ in range(rng.randint(1, 12))]
            s = {"strm": [enc(x) for x in xs], "ts": [typ_for(x, rng) for x in xs],
                 "kind": rng.choice(["list", "iter", "Stream", "tuple"])}
        cases.append({"entry": "attack", "a": num(rng, a), "d": num(rng, d), "s": s, "n": n, "exp_end": "auto"})
    return cases


def adsr_exact(c):
    a, d = qv(c["a"]), qv(c["d"])
    if c["entry"] == "adsr":
        s, r, dur = qv(c["s"]), qv(c["r"]), qv(c["dur"])
        slopes = [x / y for x, y in ((F(1), a), (s - 1, d), (s, r)) if y != 0]
        return all(is_dyadic(x, 20) for x in [dur, a, d, r, s] + slopes)
    sa = c["s"]
    sus = [dec(sa["num"])] if "num" in sa else [dec(x) for x in (sa["cyc"] if "cyc" in sa else sa["strm"])]
    if not sus:
        return True
    slopes = [x / y for x, y in ((F(1), a), (sus[0] - 1, d)) if y != 0]
    return all(is_dyadic(x, 20) for x in [a, d] + sus + slopes)


def co_adsr(c):
    from audiolazy import adsr, attack
    tr = []
    try:
        if c["entry"] == "adsr":
            if c.get("how") == "kw":
                s = adsr(dur=pv(c["dur"]), a=pv(c["a"]), d=pv(c["d"]), s=pv(c["s"]), r=pv(c["r"]))
            else:
                s = adsr(pv(c["dur"]), pv(c["a"]), pv(c["d"]), pv(c["s"]), pv(c["r"]))
            n = c.get("fuel", FUEL)
        else:
            s = attack(pv(c["a"]), pv(c["d"]), mc_build(c["s"], tr))
            n = c["n"]
    except Exception as e:
        return {"out": [], "end": err_kind(e)}
    out, end = yield from drain_co(s, n)
    return finish(tr, out, end, c)


def req_adsr(c):
    if c["entry"] == "adsr":
        return {"entry": "adsr", "dur": c["dur"]["v"], "a": c["a"]["v"], "d": c["d"]["v"],
                "s": c["s"]["v"], "r": c["r"]["v"]}
    return {"entry": "attack", "a": c["a"]["v"], "d": c["d"]["v"], "n": c["n"], "s": strip_arg(c["s"])}


def cmp_adsr(c, io, drv):
    return cmp_except(c, io, drv, adsr_exact(c), c["entry"])


def tally_adsr(eng, c, io):
    eng.count(c["entry"] + "_regime", "exact" if adsr_exact(c) else "float")
    eng.count(c["entry"] + "_end", io["end"])
    if c["entry"] == "adsr":
        ln = lambda k: int(qv(c[k]) + F(1, 2))
        eng.count("adsr_fits", ln("a") + ln("d") + ln("r") <= ln("dur"))
    else:
        eng.count("attack_sustain", "number" if "num" in c["s"] else "stream")


def classify_adsr(c, io, drv):
    zero = [k for k in (("a", "d", "r") if c["entry"] == "adsr" else ("a", "d")) if qv(c[k]) == 0]
    if io["end"] == "ZeroDivisionError":
        return "%s:ZeroDivisionError:%s" % (c["entry"], "zero-time" if zero else "nonzero-times")
    if io["end"] not in ("stop", "fuel"):
        return "%s:%s" % (c["entry"], io["end"])
    return "%s:values" % c["entry"]


def shrink_adsr(c):
    fs = ["dur", "a", "d", "s", "r"] if c["entry"] == "adsr" else ["a", "d"]
    for x in shrink_num_fields(c, fs):
        yield x
    if c["entry"] == "attack":
        if c["n"] > 1:
            yield dict(c, n=c["n"] - 1)
        s = c["s"]
        if "strm" in s and len(s["strm"]) > 1:
            yield dict(c, s=dict(s, strm=s["strm"][:-1], ts=s["ts"][:-1]))


def neigh_adsr(c):
    for k in (["dur", "a", "d", "r"] if c["entry"] == "adsr" else ["a", "d"]):
        q = qv(c[k])
        for d in (F(1), F(-1), F(1, 2), F(-1, 2)):
            if q + d > 0:
                yield dict(c, **{k: {"v": enc(q + d), "t": "F"}})


# ----------------------------------------------------------------------------------------------
# TableLookup, sinusoid, karplus_strong
# ----------------------------------------------------------------------------------------------
C0 = 1 / (2 * math.pi)          # C0 * 2 * pi == 1.0 exactly in binary64 (checked in extra_checks)
TWO_PI = 2 * math.pi


def arg_vals(a):
    return [dec(a["num"])] if "num" in a else [dec(x) for x in a["strm"]]


def gen_arg(rng, mk, n, p_stream=0.4, kinds=KINDS):
    """a modulo_counter-style argument: number or stream of mk() values"""
    if rng.random() < p_stream:
        xs = [mk() for _ in range(rng.choice([n, n + 2, max(1, n - 3)]))]
        if rng.random() < 0.3:
            xs = [xs[0]] * len(xs)
        return {"strm": [enc(x) for x in xs], "ts": [typ_for(x, rng) for x in xs],
                "kind": rng.choice(kinds)}
    x = mk()
    return {"num": enc(x), "t": typ_for(x, rng)}


def float_arg(rng, lo, hi, n, p_stream=0.4, kinds=KINDS):
    mk = lambda: F(rng.uniform(lo, hi))
    a = gen_arg(rng, mk, n, p_stream, kinds)
    if "num" in a:
        a["t"] = "f"
    else:
        a["ts"] = ["f"] * len(a["strm"])
    return a


SKINDS = ("Stream", "Stream", "sub", "thub")       # things a float can be multiplied with


def gen_table(rng, tier, scale):
    cases = []
    k = (700 if tier == "quick" else 9000) * scale
    for _ in range(k):
        L = rng.choice([1, 2, 3, 4, 5, 7, 8, 16, rng.randint(1, 64)])
        tbl = [dyadic(rng) for _ in range(L)]
        tts = [typ_for(x, rng) for x in tbl]
        n = rng.choice([1, 4, 9, 17, 30])
        exact = rng.random() < 0.7
        if exact:
            kk = rng.randint(-2, 3)
            cycles = {"c0exp": kk}
            mk = lambda: F(rng.randint(-48, 48), rng.choice([1, 2, 4, 8, 16]))
            # freq / phase are "numbers or Streams" (they get multiplied by a float)
            freq, phase = gen_arg(rng, mk, n, 0.4, SKINDS), gen_arg(rng, mk, n, 0.25, SKINDS)
        else:
            cycles = {"v": enc(F(rng.choice([1, 1, 2, 3, 0.5, 0.7]))), "t": "f"}
            if cycles["v"] in (1, 2, 3) and rng.random() < 0.5:
                cycles["t"] = "i"
            freq, phase = float_arg(rng, -3, 3, n, 0.4, SKINDS), float_arg(rng, -7, 7, n, 0.25, SKINDS)
        tk = rng.choice(["list", "list", "tuple", "array"])
        if tk == "array":
            tts = ["f"] * L
        cases.append({"entry": "table_call", "table": [enc(x) for x in tbl], "tts": tts, "cycles": cycles, "tkind": tk,
                      "freq": freq, "phase": phase, "n": n, "exact": exact,
                      "default_phase": "num" in phase and dec(phase["num"]) == 0 and rng.random() < 0.5})
    for _ in range(k // 2):
        L = rng.choice([1, 2, 3, 4, 5, 8, rng.randint(1, 40)])
        tbl = [dyadic(rng) for _ in range(L)]
        r = rng.random()
        if r < 0.5:
            idx = F(rng.randint(0, 16 * L + 40), 16)
        elif r < 0.7:
            idx = F(rng.randint(-3 * L, 3 * L))
        elif r < 0.8:
            idx = F(rng.randint(-16 * L - 20, -1), 16)             # negative, mostly fractional
        else:
            idx = F(rng.randint(0, L) * 16 + rng.choice([0, 1, 15, 8]), 16)
        cases.append({"entry": "table_getitem", "table": [enc(x) for x in tbl],
                      "tts": [typ_for(x, rng) for x in tbl], "idx": num(rng, idx)})
    return cases


def cycles_py(cy):
    if "c0exp" in cy:
        return C0 * 2.0 ** cy["c0exp"]
    return py(cy["v"], cy["t"])


def co_table(c):
    from audiolazy import TableLookup
    tr = []
    items = [py(v, t) for v, t in zip(c["table"], c["tts"])]
    tk = c.get("tkind", "list")
    if tk == "array":
        import array
        tbl = array.array("d", items)
    else:
        tbl = tuple(items) if tk == "tuple" else items
    track(tr, tbl, items)
    if c["entry"] == "table_getitem":
        try:
            r = TableLookup(tbl)[pv(c["idx"])]
            return {"out": [enc(r)], "end": "stop" if args_intact(tr) else "ARG-MUTATED"}
        except Exception as e:
            return {"out": [], "end": err_kind(e)}
    try:
        cy = cycles_py(c["cycles"])
        t = TableLookup(tbl, cy)
        if c.get("default_phase"):
            s = t(mc_build(c["freq"], tr))
        else:
            s = t(mc_build(c["freq"], tr), mc_build(c["phase"], tr))
    except Exception as e:
        return {"out": [], "end": err_kind(e)}
    out, end = yield from drain_co(s, c["n"])
    if t.table is not tbl or t.cycles is not cy or len(t) != len(items):
        end = "OBJECT-CHANGED"                    # a call leaves the object's attributes alone
    return finish(tr, out, end, c)


def strip_arg(a):
    return {k: v for k, v in a.items() if k in ("num", "strm", "cyc", "len")}


def req_table(c):
    if c["entry"] == "table_getitem":
        return {"entry": "table_getitem", "table": c["table"], "idx": c["idx"]["v"]}
    den = cycles_py(c["cycles"]) * 2 * math.pi        # the expression of TableLookup.__call__
    return {"entry": "table_call", "table": c["table"], "den": enc(den), "freq": strip_arg(c["freq"]),
            "phase": strip_arg(c["phase"]), "n": c["n"]}


def cmp_table(c, io, drv):
    res = []
    got = [dec(x) for x in io["out"]]
    if c["entry"] == "table_getitem":
        mod = [dec(drv["model"])] if drv["model"] is not None else None
        spec = [dec(drv["spec"])]
        as_spec = got == spec and io["end"] == "stop"
        # (where model and spec differ - negative fractional index, D15 - either is accepted as
        #  "the code as modelled or as repaired"; only the spec decides the property)
        if (mod is None or got != mod or io["end"] != "stop") and not as_spec:
            res.append(("model", "TableLookup[idx]: impl=%s/%s model=%s" % (io["out"], io["end"], drv["model"])))
        if not as_spec:
            res.append(("spec", "TableLookup[idx]: impl=%s/%s spec=%s (cyclic linear interpolation)" % (io["out"], io["end"], drv["spec"])))
        return res
    if any(x is None for x in drv["model"]):
        return [("model", "model predicts an IndexError inside the oscillator")]
    mod = [dec(x) for x in drv["model"]]
    spec = [dec(x) for x in drv["spec"]]
    exp_end = "fuel" if len(mod) == c["n"] else "stop"
    if not same_vals(got, mod, c["exact"]) or io["end"] != exp_end:
        res.append(("model", "TableLookup(): impl=%s/%s model=%s/%s" % (io["out"], io["end"], drv["model"], exp_end)))
    if not same_vals(got, spec, c["exact"]) or io["end"] != exp_end:
        res.append(("spec", "TableLookup(): impl=%s/%s spec=%s/%s" % (io["out"], io["end"], drv["spec"], exp_end)))
    return res


def tally_table(eng, c, io):
    if c["entry"] == "table_getitem":
        q = qv(c["idx"])
        eng.count("getitem_idx", ("neg" if q < 0 else "pos") + ("-int" if q.denominator == 1 else "-frac")
                  + ("-beyond" if abs(q) >= len(c["table"]) else ""))
    else:
        eng.count("table_regime", "exact" if c["exact"] else "float")
        eng.count("table_size", min(len(c["table"]) // 8 * 8, 64))
        eng.count("table_args", ("F" if "strm" in c["freq"] else "f") + ("P" if "strm" in c["phase"] else "p"))
        eng.count("table_end", io["end"])


def classify_table(c, io, drv):
    if c["entry"] == "table_getitem":
        q = qv(c["idx"])
        if io["end"] != "stop":
            return "TableLookup.getitem:" + io["end"]
        if q < 0 and q.denominator != 1:
            return "TableLookup.getitem:negative-fractional-index:values"
        return "TableLookup.getitem:values"
    if io["end"] not in ("stop", "fuel"):
        return "TableLookup.call:" + io["end"]
    return "TableLookup.call:values"


def shrink_table(c):
    tbl = c["table"]
    if c["entry"] == "table_getitem":
        if len(tbl) > 1:
            yield dict(c, table=tbl[:-1], tts=c["tts"][:-1])
        yield dict(c, table=list(range(0, 10 * len(tbl), 10)), tts=["i"] * len(tbl))
        for x in shrink_num_fields(c, ["idx"]):
            yield x
        return
    if c["n"] > 1:
        yield dict(c, n=c["n"] - 1)
        yield dict(c, n=c["n"] // 2)
    if len(tbl) > 1:
        yield dict(c, table=tbl[:-1], tts=c["tts"][:-1])
        yield dict(c, table=list(range(0, 10 * len(tbl), 10)), tts=["i"] * len(tbl))
    for k in ("freq", "phase"):
        a = c[k]
        if "strm" in a and len(a["strm"]) >= 1:
            yield dict(c, **{k: {"num": a["strm"][0], "t": a["ts"][0]}})
        if "num" in a and c["exact"]:
            q = dec(a["num"])
            for r in (F(0), F(int(q)), F(1, 2)):
                if r != q:
                    yield dict(c, **{k: {"num": enc(r), "t": "F"}}, default_phase=False)
    if "c0exp" in c["cycles"] and c["cycles"]["c0exp"] != 0:
        yield dict(c, cycles={"c0exp": 0})


def neigh_table(c):
    if c["entry"] == "table_getitem":
        q = qv(c["idx"])
        for d in (F(1), F(-1), F(1, 2), F(1, 4)):
            if q + d >= 0:
                yield dict(c, idx={"v": enc(q + d), "t": "F"})
    else:
        yield dict(c, n=c["n"] + 5)


# --- TableLookup operators / normalize / harmonize ---------------------------------------------------
import operator
_OPS = {"add": operator.add, "sub": operator.sub, "mul": operator.mul, "div": operator.truediv}


def gen_tops(rng, tier, scale):
    cases = []
    k = (300 if tier == "quick" else 4000) * scale
    pow2 = lambda: F(2) ** rng.randint(-2, 3) * rng.choice([1, -1])
    for _ in range(k):
        L = rng.choice([1, 2, 3, 4, 6, 8, 12, rng.randint(1, 24)])
        kind = rng.choice(["binary", "binary", "scalar", "scalar", "neg", "normalize", "harmonize", "harmonize"])
        op = rng.choice(sorted(_OPS))
        tbl = [dyadic(rng) for _ in range(L)]
        c = {"entry": "table_op", "kind": kind, "op": op, "table": [enc(x) for x in tbl],
             "tts": [typ_for(x, rng) for x in tbl], "cycles": rng.choice([1, 1, 2, 3])}
        if kind == "binary":
            L2 = L if rng.random() < 0.85 else L + 1
            t2 = [pow2() if op == "div" else dyadic(rng) for _ in range(L2)]
            c.update(table2=[enc(x) for x in t2], tts2=[typ_for(x, rng) for x in t2],
                     cycles2=c["cycles"] if rng.random() < 0.85 else c["cycles"] + 1)
        elif kind == "scalar":
            c["reflected"] = rng.random() < 0.5
            x = pow2() if op == "div" and not c["reflected"] else dyadic(rng)
            if op == "div" and c["reflected"]:
                tbl = [pow2() for _ in range(L)]
                c.update(table=[enc(v) for v in tbl], tts=[typ_for(v, rng) for v in tbl])
            c["x"] = {"v": enc(x), "t": "i" if x.denominator == 1 and rng.random() < 0.5 else "f"}
            if rng.random() < 0.2:                          # bool / int subclass / float subclass scalars
                c["x"]["t"] = {"i": "b" if x in (0, 1) and rng.random() < 0.5 else "I", "f": "X"}[c["x"]["t"]]
        elif kind == "normalize":
            r = rng.random()
            if r < 0.1:
                tbl = [F(0)] * L
            elif r < 0.6:                                   # maximum of magnitude 2^k: exact division
                m = pow2() * 8
                tbl = [x if abs(x) < abs(m) else x / 64 for x in tbl]
                tbl[rng.randrange(L)] = m
                if rng.random() < 0.3:
                    tbl[rng.randrange(L)] = -m              # tie in magnitude: the first one wins
            c.update(table=[enc(v) for v in tbl],
                     tts=["i" if v.denominator == 1 and rng.random() < 0.4 else "f" for v in tbl])
        elif kind == "harmonize":
            ps = rng.sample(range(0, 6), rng.randint(1, 4))
            if rng.random() < 0.6:                         # only partials dividing the table length
                ps = [p for p in ps if L % (p + 1) == 0] or [0]
            amps = [dyadic(rng) / 4 for _ in ps]
            c["harm"] = [{"p": p, "a": enc(a), "t": typ_for(a, rng)} for p, a in zip(ps, amps)]
        cases.append(c)
    return cases


def impl_tops(c):
    from audiolazy import TableLookup
    t = TableLookup([py(v, ty) for v, ty in zip(c["table"], c["tts"])], c["cycles"])
    try:
        k = c["kind"]
        if k == "binary":
            t2 = TableLookup([py(v, ty) for v, ty in zip(c["table2"], c["tts2"])], c["cycles2"])
            r = _OPS[c["op"]](t, t2)
        elif k == "scalar":
            x = pv(c["x"])
            r = _OPS[c["op"]](x, t) if c["reflected"] else _OPS[c["op"]](t, x)
        elif k == "neg":
            r = -t
        elif k == "normalize":
            r = t.normalize()
        else:
            r = t.harmonize({h["p"]: py(h["a"], h["t"]) for h in c["harm"]})
        ok = isinstance(r, TableLookup) and r.cycles == c["cycles"] and len(r) == len(r.table)
        return {"out": [enc(x) for x in r.table], "end": "stop" if ok else "BAD-RESULT"}
    except Exception as e:
        return {"out": [], "end": err_kind(e)}


def req_tops(c):
    r = {"entry": "table_op", "kind": c["kind"], "op": c["op"], "table": c["table"], "cycles": c["cycles"]}
    if c["kind"] == "binary":
        r.update(table2=c["table2"], cycles2=c["cycles2"])
    elif c["kind"] == "scalar":
        r.update(x=c["x"]["v"], reflected=c["reflected"])
    elif c["kind"] == "harmonize":
        r["harm"] = [{"p": h["p"], "a": h["a"]} for h in c["harm"]]
    return r


def tops_exact(c):
    if c["kind"] == "normalize":
        tbl = [dec(x) for x in c["table"]]
        m = max(tbl, key=abs)
        return m == 0 or all(is_dyadic(x / m, 30) for x in tbl)
    return True


def cmp_tops(c, io, drv):
    res = []
    got = [dec(x) for x in io["out"]]
    m = drv["model"]
    exact = tops_exact(c)
    if "err" in m:
        okm = got == [] and io["end"] == m["err"]
    else:
        okm = same_vals(got, [dec(x) for x in m["out"]], exact) and io["end"] == "stop"
    if not okm:
        res.append(("model", "TableLookup %s: impl=%s/%s model=%s" % (c["kind"], io["out"], io["end"], m)))
    bad = not okm
    if not bad and drv.get("spec") is not None:
        bad = not same_vals(got, [dec(x) for x in drv["spec"]], exact)
    if not bad and c["kind"] == "normalize" and "out" in m:
        bad = not (all(abs(x) <= 1 for x in got) and any(abs(x - 1) <= TOL for x in got))
    if bad:
        res.append(("spec", "TableLookup %s: impl=%s/%s spec=%s" % (c["kind"], io["out"], io["end"], drv.get("spec", m))))
    return res


def tally_tops(eng, c, io):
    eng.count("table_op", c["kind"] + (":" + c["op"] if c["kind"] in ("binary", "scalar") else ""))
    eng.count("table_op_end", io["end"])
    if c["kind"] == "harmonize":
        eng.count("harmonize_divisible", all(len(c["table"]) % (h["p"] + 1) == 0 for h in c["harm"]))


def classify_tops(c, io, drv):
    return "TableLookup.%s:%s" % (c["kind"], io["end"] if io["end"] != "stop" else "values")


def shrink_tops(c):
    L = len(c["table"])
    if L > 1:
        d = dict(c, table=c["table"][:-1], tts=c["tts"][:-1])
        if c["kind"] == "binary":
            d.update(table2=c["table2"][:-1], tts2=c["tts2"][:-1])
        yield d
    if c["kind"] == "harmonize" and len(c["harm"]) > 1:
        for i in range(len(c["harm"])):
            yield dict(c, harm=c["harm"][:i] + c["harm"][i + 1:])
    yield dict(c, table=list(range(1, L + 1)), tts=["i"] * L)


# --- sinusoid -----------------------------------------------------------------------------------
def gen_sin(rng, tier, scale):
    cases = []
    k = (300 if tier == "quick" else 4000) * scale
    for _ in range(k):
        n = rng.choice([1, 5, 20, 60])
        r = rng.random()
        if r < 0.6:
            freq, phase = float_arg(rng, -1, 3.3, n), float_arg(rng, -7, 7, n, 0.25)
        elif r < 0.8:
            mk = lambda: F(rng.randint(-40, 40), rng.choice([1, 2, 8, 64]))
            freq, phase = gen_arg(rng, mk, n), gen_arg(rng, mk, n, 0.25)
        else:
            freq = {"num": enc(F(TWO_PI / rng.randint(1, 12))), "t": "f"}     # periods dividing the circle
            phase = {"num": enc(F(rng.choice([0.0, math.pi, math.pi / 2, -math.pi]))), "t": "f"}
        cases.append({"entry": "sinusoid", "freq": freq, "phase": phase, "n": n,
                      "default_phase": "num" in phase and dec(phase["num"]) == 0 and rng.random() < 0.5})
    return cases


def co_sin(c):
    from audiolazy import sinusoid
    tr = []
    try:
        s = sinusoid(mc_build(c["freq"], tr)) if c.get("default_phase") else \
            sinusoid(mc_build(c["freq"], tr), mc_build(c["phase"], tr))
    except Exception as e:
        return {"out": [], "end": err_kind(e)}
    out, end = yield from drain_co(s, c["n"])
    return finish(tr, out, end, c)


def req_sin(c):
    return {"entry": "sinusoid", "two_pi": enc(TWO_PI), "freq": strip_arg(c["freq"]),
            "phase": strip_arg(c["phase"]), "n": c["n"]}


def cmp_sin(c, io, drv):
    res = []
    got = [dec(x) for x in io["out"]]
    mod = [dec(x) for x in drv["model"]]
    spec = [dec(x) for x in drv["spec"]]
    exp_end = "fuel" if len(mod) == c["n"] else "stop"
    if not same_vals(got, mod, False) or io["end"] != exp_end:
        res.append(("model", "sinusoid: impl=%s/%s model=%s/%s" % ([float(x) for x in got], io["end"], [float(x) for x in mod], exp_end)))
    if not same_vals(got, spec, False) or io["end"] != exp_end:
        res.append(("spec", "sinusoid: impl=%s/%s sin(phase+n*freq)=%s/%s" % ([float(x) for x in got], io["end"], [float(x) for x in spec], exp_end)))
    return res


def tally_sin(eng, c, io):
    eng.count("sin_args", ("F" if "strm" in c["freq"] else "f") + ("P" if "strm" in c["phase"] else "p"))
    if "num" in c["freq"] and "num" in c["phase"]:
        f = dec(c["freq"]["num"])
        eng.count("sin_path", "step0" if f == 0 else ("fast" if int(F(TWO_PI) / f) > 1 else "plain"))


def shrink_sin(c):
    if c["n"] > 1:
        yield dict(c, n=c["n"] - 1)
        yield dict(c, n=c["n"] // 2)
    for k in ("freq", "phase"):
        a = c[k]
        if "strm" in a and a["strm"]:
            yield dict(c, **{k: {"num": a["strm"][0], "t": a["ts"][0]}})
        if "num" in a:
            q = dec(a["num"])
            for r in (F(0), F(1), F(int(q))):
                if r != q:
                    yield dict(c, **{k: {"num": enc(r), "t": "f"}}, default_phase=False)


# --- karplus_strong -----------------------------------------------------------------------------
def exact_freq_for(delay):
    """a float freq with 2*pi/freq == delay exactly, or None"""
    f0 = TWO_PI / delay
    for k in range(-3, 4):
        f = f0
        for _ in range(abs(k)):
            f = math.nextafter(f, math.inf if k > 0 else -math.inf)
        if TWO_PI / f == delay:
            return f
    return None


def gen_ks(rng, tier, scale):
    cases = []
    k = (300 if tier == "quick" else 4000) * scale
    for _ in range(k):
        n = rng.choice([1, 5, 12, 30, 50])
        if rng.random() < 0.6:
            delay = float(F(rng.randint(8, 96), rng.choice([1, 2, 4]))) if rng.random() < 0.8 else float(rng.randint(2, 20))
            freq = exact_freq_for(delay)
            if freq is None:
                continue
            tau = "inf"
        else:
            freq = rng.uniform(0.05, math.pi)
            tau = enc(F(rng.choice([2e4, 50.0, 7.5, rng.uniform(1, 1000)])))
        delay = TWO_PI / freq
        lm = math.ceil(delay)
        ml = rng.choice([lm, lm, lm + 3, max(0, lm - 2), rng.randint(0, lm + 2)])
        mem = [F(rng.randint(-16, 16), 16) for _ in range(ml)]
        cases.append({"entry": "karplus", "freq": enc(F(freq)), "tau": tau, "memory": [enc(x) for x in mem],
                      "mem_kind": rng.choice(["list", "iter", "callable", "Stream", "tuple", "method"]), "n": n})
    return cases


def ks_params(c):
    """delay and alpha exactly as karplus_strong / comb.tau compute them"""
    freq = float(dec(c["freq"]))
    tau = INF if c["tau"] == "inf" else float(dec(c["tau"]))
    delay = 2 * math.pi / freq
    alpha = math.e ** (-delay / tau)
    return freq, tau, delay, alpha


def co_ks(c):
    from audiolazy import karplus_strong, Stream
    freq, tau, delay, alpha = ks_params(c)
    mem = [float(dec(x)) for x in c["memory"]]
    tr = [(mem, list(mem))]
    mk = c["mem_kind"]

    class Holder(object):
        def give(self, size):
            return mem
    memory = mem if mk == "list" else iter(mem) if mk == "iter" else Stream(mem) if mk == "Stream" else \
        tuple(mem) if mk == "tuple" else Holder().give if mk == "method" else (lambda size: mem)
    try:
        s = karplus_strong(freq, tau, memory=memory)
    except Exception as e:
        return {"out": [], "end": err_kind(e)}
    out, end = yield from drain_co(s, c["n"])
    return finish(tr, out, end, c)


def req_ks(c):
    freq, tau, delay, alpha = ks_params(c)
    return {"entry": "karplus", "alpha": enc(alpha), "delay": enc(delay), "memory": c["memory"], "n": c["n"]}


def cmp_ks(c, io, drv):
    res = []
    got = [dec(x) for x in io["out"]]
    mod = [dec(x) for x in drv["model"]]
    spec = [dec(x) for x in drv["spec"]]
    # exact regime only while binary floating point IS exact: alpha = 1 and every exact value of the run
    # (each output is fed back) is itself a double.  With a short fractional delay the dyadic denominators
    # grow by the interpolation weights at every round (delay 9/4: two bits per 2.25 samples) and pass 2**53
    # within 50 samples; from there on the implementation rounds and the case belongs to the float regime.
    def _is_double(v):
        try:
            return F(float(v)) == v
        except (OverflowError, ValueError):
            return False
    exact = c["tau"] == "inf" and all(_is_double(v) for v in mod)
    if not same_vals(got, mod, exact) or io["end"] != "fuel":
        res.append(("model", "karplus_strong: impl=%s/%s model=%s" % (io["out"], io["end"], drv["model"])))
    if not same_vals(got, spec, exact) or io["end"] != "fuel":
        res.append(("spec", "karplus_strong: impl=%s/%s spec=%s" % (io["out"], io["end"], drv["spec"])))
    return res


def tally_ks(eng, c, io):
    freq, tau, delay, alpha = ks_params(c)
    eng.count("ks_regime", "exact" if c["tau"] == "inf" else "float")
    eng.count("ks_delay", "integer" if delay.is_integer() else "fractional")
    lm = math.ceil(delay)
    ml = len(c["memory"])
    eng.count("ks_memory", "short" if ml < lm else ("exact" if ml == lm else "long"))


def shrink_ks(c):
    if c["n"] > 1:
        yield dict(c, n=c["n"] - 1)
        yield dict(c, n=c["n"] // 2)
    if c["mem_kind"] != "list":
        yield dict(c, mem_kind="list")
    m = c["memory"]
    if m:
        yield dict(c, memory=m[:-1])
        yield dict(c, memory=[0] * (len(m) - 1) + [1])
        yield dict(c, memory=[1] + [0] * (len(m) - 1))


# ----------------------------------------------------------------------------------------------
# resample
# ----------------------------------------------------------------------------------------------
def gen_res(rng, tier, scale):
    cases = []
    k = (1200 if tier == "quick" else 15000) * scale
    for _ in range(k):
        r = rng.random()
        order = rng.choice([1, 1, 2, 3, 3, 4, 5]) if r > 0.04 else 0
        need = order // 2 + 1
        L = rng.choice([need, need + 1, need + 2, rng.randint(need, 12), rng.randint(need, 30)])
        if rng.random() < 0.02:
            L = rng.randint(0, need - 1)                   # shorter than half a window (D1 territory)
        exact = rng.random() < 0.6
        sig = [dyadic(rng) for _ in range(L)]
        n = rng.choice([1, 3, 8, 20, 60, 120])
        if exact:
            sts = [rng.choice(["F", "i"]) if x.denominator == 1 else "F" for x in sig]
            zero = {"v": enc(rng.choice([F(0), F(0), dyadic(rng)])), "t": "F"}
            if zero["v"] == 0 and rng.random() < 0.5:
                zero["t"] = "i"
            def mk():
                d = rng.choice([1, 2, 3, 4, 5, 6, 7, 8, 12])
                r2 = rng.random()
                if r2 < 0.45:
                    return F(rng.randint(1, d), d) if d > 1 else F(1, rng.randint(2, 5))   # upsampling
                if r2 < 0.55:
                    return F(1)
                if r2 < 0.6:
                    return F(0)
                return F(rng.randint(d, 4 * d), d)                                        # downsampling
        else:
            sts = [typ_for(x, rng) for x in sig]
            zero = {"v": enc(rng.choice([F(0), F(0), dyadic(rng)])), "t": "f"}
            def mk():
                d = rng.choice([2, 4, 8, 16])
                r2 = rng.random()
                if r2 < 0.45:
                    return F(rng.randint(1, d), d)
                if r2 < 0.55:
                    return F(1)
                if r2 < 0.6:
                    return F(0)
                return F(rng.randint(d, 4 * d), d)
        c = {"entry": "resample", "sig": [enc(x) for x in sig], "sts": sts, "order": order, "zero": zero,
             "n": n, "exact": exact, "sig_kind": rng.choice(KINDS)}
        if rng.random() < 0.25:
            steps = [mk() for _ in range(rng.choice([0, 1, 3, 8, 20, 40]))]
            c["steps"] = [enc(x) for x in steps]          # old = Stream(steps), new = 1
        else:
            st = mk()
            if exact:
                new = F(rng.randint(1, 9), rng.choice([1, 2, 3]))
                c["old"] = {"v": enc(st * new), "t": "F"}
                c["new"] = {"v": enc(new), "t": rng.choice(["F", "i"]) if new.denominator == 1 else "F"}
            else:
                new = F(2) ** rng.randint(-2, 3)
                c["old"] = num(rng, st * new)
                c["new"] = num(rng, new)
        if rng.random() < 0.15 and "old" in c and order == 3 and dec(zero["v"]) == 0 and zero["t"] == "f":
            c["defaults"] = True                            # resample(sig, old, new): order=3, zero=0.
        cases.append(c)
    return cases


def res_step(c):
    if "steps" in c:
        return {"strm": c["steps"]}
    return {"num": enc(qv(c["old"]) / qv(c["new"]))}


def co_res(c):
    from audiolazy import resample, Stream
    items = [py(v, t) for v, t in zip(c["sig"], c["sts"])]
    tr = []
    sig = track(tr, build_stream(items, c["sig_kind"]), items)
    try:
        if "steps" in c:
            t = "F" if c["exact"] else "f"
            s = resample(sig, old=Stream([py(v, t) for v in c["steps"]]), new=1, order=c["order"], zero=pv(c["zero"]))
        elif c.get("defaults"):
            s = resample(sig, pv(c["old"]), pv(c["new"]))
        else:
            s = resample(sig, old=pv(c["old"]), new=pv(c["new"]), order=c["order"], zero=pv(c["zero"]))
    except Exception as e:
        return {"out": [], "end": err_kind(e)}
    out, end = yield from drain_co(s, c["n"])
    return finish(tr, out, end, c)


def req_res(c):
    return {"entry": "resample", "sig": c["sig"], "step": res_step(c), "order": c["order"],
            "zero": c["zero"]["v"], "n": c["n"]}


def cmp_res(c, io, drv):
    res = []
    got = [dec(x) for x in io["out"]]
    sp = [dec(x) for x in drv["spec"]["out"]]
    # an end that coincides with the last sample read cannot be observed
    sp_end = "stop" if drv["spec"]["ended"] and len(sp) < c["n"] else "fuel"
    as_spec = same_vals(got, sp, c["exact"]) and io["end"] == sp_end
    m = drv["model"]
    if drv["short"]:
        # fewer input samples than rint(threshold): Stream.take raises RuntimeError today (D1);
        # the window is not modelled there
        as_coded = got == [] and io["end"] == "RuntimeError"
    elif "err" in m:
        as_coded = got == [] and io["end"] == m["err"]
    else:
        mod = [dec(x) for x in m["out"]]
        same = same_vals(got, mod, c["exact"])
        if m["end"] == "fuel" or len(mod) == c["n"]:
            as_coded = same and io["end"] == "fuel"
        else:
            # `next(isig)` / `next(step)` raises StopIteration inside the generator: RuntimeError
            # under PEP 479 (as coded); a clean end is the intended behaviour (= spec)
            as_coded = same and io["end"] in ("RuntimeError", "stop")
    if not (as_coded or as_spec):
        res.append(("model", "resample: impl=%s/%s model=%s" % (io["out"], io["end"], m)))
    if not as_spec:
        res.append(("spec", "resample: impl=%s/%s spec=%s/%s" % (io["out"], io["end"], drv["spec"]["out"], sp_end)))
    return res


def tally_res(eng, c, io):
    eng.count("res_order", c["order"])
    eng.count("res_regime", "exact" if c["exact"] else "float")
    eng.count("res_step", "stream" if "steps" in c else
              ("=1" if qv(c["old"]) == qv(c["new"]) else ("0" if qv(c["old"]) == 0 else
               ("<1" if qv(c["old"]) < qv(c["new"]) else ">1"))))
    eng.count("res_end", io["end"])
    eng.count("res_outputs", min(len(io["out"]) // 10 * 10, 60))


def classify_res(c, io, drv):
    short = len(c["sig"]) < c["order"] // 2 + 1
    if io["end"] == "TypeError" and c["order"] == 0:
        return "resample:order=0:TypeError"
    if io["end"] == "RuntimeError":
        if short:
            return "resample:input-shorter-than-half-window:RuntimeError"
        if len(io["out"]) == len(drv["spec"]["out"]) and drv["spec"]["ended"]:
            return "resample:end-of-%s:RuntimeError" % ("input" if drv["model"].get("end") != "step" else "step-stream")
        return "resample:RuntimeError:early"
    if io["end"] not in ("stop", "fuel"):
        return "resample:" + io["end"]
    if short:
        return "resample:input-shorter-than-half-window:values"
    return "resample:length" if len(io["out"]) != len(drv["spec"]["out"]) else "resample:values"


def shrink_res(c):
    if c["n"] > 1:
        yield dict(c, n=c["n"] - 1)
        yield dict(c, n=c["n"] // 2)
    sig = c["sig"]
    if len(sig) > c["order"] // 2 + 1:
        yield dict(c, sig=sig[:-1], sts=c["sts"][:-1])
        yield dict(c, sig=sig[1:], sts=c["sts"][1:])
    yield dict(c, sig=[2 ** i for i in range(len(sig))], sts=["i" if c["exact"] else "f"] * len(sig))
    if c["sig_kind"] != "list":
        yield dict(c, sig_kind="list")
    if c["order"] > 1 and not c.get("defaults"):
        yield dict(c, order=c["order"] - 1)
    if "steps" in c:
        if c["steps"]:
            yield dict(c, steps=c["steps"][:-1])
        if c["steps"] and len(set(c["steps"])) == 1:
            d = {k: v for k, v in c.items() if k != "steps"}
            d["old"] = {"v": c["steps"][0], "t": "F" if c["exact"] else "f"}
            d["new"] = {"v": 1, "t": "i"}
            if not c["exact"] and not is_dyadic(dec(c["steps"][0])):
                return
            yield d
    else:
        q = qv(c["old"]) / qv(c["new"])
        for r in (F(1), F(1, 2), F(2), F(int(q))):
            if r != q and r > 0:
                yield dict(c, old={"v": enc(r), "t": "F" if c["exact"] else "f"}, new={"v": 1, "t": "i"})
    if dec(c["zero"]["v"]) != 0:
        yield dict(c, zero=dict(c["zero"], v=0))


def neigh_res(c):
    yield dict(c, n=c["n"] + 10)
    if c["order"] < 5 and not c.get("defaults"):
        yield dict(c, order=c["order"] + 1, sig=c["sig"] + [1], sts=c["sts"] + [c["sts"][-1] if c["sts"] else "F"])
    yield dict(c, sig=c["sig"] + [3], sts=c["sts"] + [c["sts"][-1] if c["sts"] else "F"])


# ----------------------------------------------------------------------------------------------
# dispatch
# ----------------------------------------------------------------------------------------------
ENTRIES = {
    "modulo_counter": dict(gen=gen_mc, co=co_mc, cmp=cmp_mc, tally=tally_mc, shrink=shrink_mc,
                           neigh=neigh_mc, classify=classify_mc, request=req_mc),
    "line": dict(gen=gen_line, co=co_line, cmp=cmp_line, tally=tally_line, shrink=shrink_line,
                 neigh=neigh_line, classify=classify_line, request=req_line),
    "ones": dict(gen=gen_const, co=co_const, cmp=cmp_const, tally=tally_const, shrink=shrink_const,
                 neigh=neigh_const, classify=classify_const, request=req_const),
    "white_noise": dict(gen=gen_noise, co=co_noise, cmp=cmp_noise, tally=tally_noise, shrink=shrink_const,
                        neigh=neigh_const, classify=classify_noise, request=req_noise),
    "adsr": dict(gen=gen_adsr, co=co_adsr, cmp=cmp_adsr, tally=tally_adsr, shrink=shrink_adsr,
                 neigh=neigh_adsr, classify=classify_adsr, request=req_adsr),
    "table_call": dict(gen=gen_table, co=co_table, cmp=cmp_table, tally=tally_table, shrink=shrink_table,
                       neigh=neigh_table, classify=classify_table, request=req_table),
    "table_op": dict(gen=gen_tops, impl=impl_tops, cmp=cmp_tops, tally=tally_tops, shrink=shrink_tops,
                     classify=classify_tops, request=req_tops),
    "sinusoid": dict(gen=gen_sin, co=co_sin, cmp=cmp_sin, tally=tally_sin, shrink=shrink_sin,
                     request=req_sin),
    "resample": dict(gen=gen_res, co=co_res, cmp=cmp_res, tally=tally_res, shrink=shrink_res,
                     neigh=neigh_res, classify=classify_res, request=req_res),
    "karplus": dict(gen=gen_ks, co=co_ks, cmp=cmp_ks, tally=tally_ks, shrink=shrink_ks, request=req_ks),
}
from props import c19_hist as H          # noqa: E402  (helper modules; they use the helpers above)
from props import c19_long as L          # noqa: E402
from props import c19_multi as M         # noqa: E402
from props import c19_float as FL        # noqa: E402
ENTRIES["multi"] = dict(gen=None, impl=M.impl, cmp=M.compare, tally=M.tally, shrink=M.shrink,
                        classify=M.classify, request=M.request)
ENTRIES["tl_hist"] = dict(gen=H.generate, impl=H.impl, cmp=H.compare, tally=H.tally, shrink=H.shrink,
                          classify=H.classify, request=H.request)
ENTRIES.update(FL.ENTRIES)               # the float regime, bit for bit (entries *_float)
GEN_OF = {}          # entry -> the entry whose generator makes it
for _alias, _of in (("table_getitem", "table_call"), ("fadein", "line"), ("fadeout", "line"), ("zeros", "ones"), ("zeroes", "ones"),
                    ("impulse", "ones"), ("attack", "adsr"), ("gauss_noise", "white_noise")):
    ENTRIES[_alias] = dict(ENTRIES[_of], gen=None)
    GEN_OF[_alias] = _of


TRANSLATED = {
    "translator": "harness/props/c19_tr.py -> lean/ALV/Gen/C19Src.lean (shallow: Lean definitions over NumOps in the "
                  "vocabulary of lean/ALV/Model/C19Src.lean)",
    "under_translator": {
        "modulo_counter": "src_modulo_counter_is_model (= mcNow; = mcG where int(modulo/step) raises nothing; = moduloCounter "
                          "= mcRec over exact numbers): dispatch, 11 loop bodies + the step == 0 shortcut",
        "line": "src_line_is_model (= lineG), src_line_eq_spec",
        "fadein": "src_fadein_is_model (line with the defaults read from line's signature)",
        "fadeout": "src_fadeout_is_model",
        "adsr": "src_adsr_is_model (= adsrG), src_adsr_eq_spec",
        "attack": "src_attack_is_model (= attackNow: attackG, empty sustain iterable -> empty envelope), src_attack_eq_spec",
        "ones": "src_ones_is_model (= constG o o.one: optional duration, endless branch, rounded duration)",
        "zeros": "src_zeros_is_model (= constG o o.zero)",
        "impulse": "src_impulse_is_model (= impulseG, items of any type)",
        "sinusoid": "src_sinusoid_is_model (= sinusoidNow: sin of modulo_counter(phase, 2 * pi, freq); `sin` and the value of "
                    "`2 * pi` are parameters), src_sinusoid_exact (= the model `sinusoid` of C19.sin.*)",
        "TableLookup.__call__": "src_table_call_is_model (= tableCallNow: today's counter, every sample in Python's order of "
                                "evaluation), src_table_call_eq_G (= tableCallG under two no-raise hypotheses), "
                                "src_table_call_eq_spec (exact numbers: cyclic linear interpolation)",
        "TableLookup.__getitem__": "src_table_getitem_is_model (= getItemNow, D15 as repaired), src_table_getitem_eq_spec (exact "
                                   "numbers, non-empty table: interpCyc for every index), src_table_getitem_empty",
        "defaults / decorators of these": "src_defaults_are_documented (decide)",
    },
    "not_translated": TR.NOT_TRANSLATED,
}


def regenerate(eng=None):
    """translator: lean/ALV/Gen/C19Src.lean from the source of the repo under test"""
    if eng is not None:
        eng.extra["translated"] = TRANSLATED
    return TR.regenerate(eng)


def extra_checks(eng):
    """facts the generators rely on; the translator's self test"""
    eng.extra["translated"] = TRANSLATED
    try:
        st = TR.selftest()
    except Exception as e:      # the source cannot be translated: already reported by regenerate
        st = [("source translates", False, "%s: %s" % (type(e).__name__, e))]
    bad = [(n, d) for n, ok, d in st if not ok]
    eng.extra["translator_selftest"] = {"items": len(st), "failed": [n for n, _ in bad],
                                        "seen": [n for n, ok, _ in st if ok]}
    yield ("translator-selftest", not bad, "; ".join("%s: %s" % nd for nd in bad))
    yield ("magic-cycles", C0 * 2 * math.pi == 1.0 and (C0 * 8) * 2 * math.pi == 8.0,
           "1/(2*pi) * 2 * pi is not exactly 1.0 on this platform: the exact regime of TableLookup is void")
    f = exact_freq_for(4.25)
    yield ("exact-delay", f is not None and 2 * math.pi / f == 4.25, "no float freq with 2*pi/freq == 4.25")
    import audiolazy
    yield ("aliases", audiolazy.zeroes is audiolazy.zeros, "zeroes is not zeros")


def generate(rng, tier, scale=1):
    cases = []
    for name in sorted(ENTRIES):
        if ENTRIES[name]["gen"]:
            cases.extend(ENTRIES[name]["gen"](rng, tier, scale))
    cases.extend(M.generate(rng, tier, scale, cases))
    cases.extend(L.generate(rng, tier, scale))
    return cases


def sparse(xs, idx):
    """long runs: only the positions `idx` of an output list are transported"""
    return {"n": len(xs), "at": [xs[i] for i in idx if i < len(xs)]}


def co_impl(c):
    """the impl coroutine of a case (generator-like entries)"""
    obs = yield from ENTRIES[c["entry"]]["co"](c)
    if "pick" in c and isinstance(obs.get("out"), list):
        obs["out"] = sparse(obs["out"], c["pick"])
    return obs


def impl(c):
    e = ENTRIES[c["entry"]]
    if "co" in e:
        return run_co(co_impl(c), c.get("chunks"))
    return e["impl"](c)


def request(c):
    f = ENTRIES[c["entry"]].get("request")
    r = f(c) if f else c
    if "pick" in c and "pick" not in r:
        r = dict(r, pick=c["pick"])
    return r


def compare(c, io, drv):
    if "err" in io and str(io["err"]).startswith("UNMAPPED"):
        return [("model", "harness failure: " + io.get("trace", ""))]
    if "pick" in c:
        return L.cmp_long(c, io, drv)
    return ENTRIES[c["entry"]]["cmp"](c, io, drv)


def nontrivial(c, io):
    out = io.get("out")
    return bool(out["n"]) if isinstance(out, dict) else bool(out)


def tally(eng, c, io):
    eng.count("entry", c["entry"] + (" (long run)" if "pick" in c else ""))
    if "pick" in c:
        return L.tally(eng, c, io)
    f = ENTRIES[c["entry"]].get("tally")
    if f:
        f(eng, c, io)


_DRV = None


def _signature(cases):
    """(kinds, signature) of each case, evaluated here (impl + driver)"""
    global _DRV
    if _DRV is None:
        _DRV = common.Driver()
    obs = []
    for c in cases:
        try:
            obs.append(impl(c))
        except Exception as e:
            obs.append({"err": "UNMAPPED:" + err_kind(e), "out": [], "end": "UNMAPPED"})
    outs = _DRV.batch([dict(request(c), id=ID) for c in cases])
    res = []
    for c, io, do in zip(cases, obs, outs):
        if "fail" in do:
            res.append((set(), None))
            continue
        payload = do.get("ok", do)
        kinds = {k for k, _ in compare(c, io, payload)}
        res.append((kinds, classify(c, io, payload) if kinds else None))
    return res


_MINIMAL = set()
_KNOWN = None


def case_size(c):
    """what the shrinker minimises: the JSON text, plus the run length of a long run"""
    n = len(json.dumps(c))
    if "pick" in c:
        n += 20 * c.get("fuel", c.get("n", 0)).bit_length() + c.get("fuel", c.get("n", 0)) // 8
    if c.get("entry") == "multi":
        n += 200 * len(c["subs"])
    return n


def shrink(c):
    """Shrinks here (one driver call per round) and hands the engine the final case only.
    Candidates must keep the *signature* of the failing case: the engine treats a shrunk case
    whose signature is a known finding as that finding, so shrinking must not wander from an
    unknown failure into the neighbourhood of a known one (e.g. dur -> 0, or n -> past the end
    of a resampled input).  Known findings are not shrunk (their witnesses are recorded)."""
    global _KNOWN
    f = L.shrink if "pick" in c else ENTRIES[c["entry"]].get("shrink")
    key0 = json.dumps(c, sort_keys=True)
    if not f or key0 in _MINIMAL:
        return []
    if _KNOWN is None:
        _KNOWN = {e["signature"] for e in common.load_known(ID)}
    (kinds0, sig0), = _signature([c])
    if sig0 is None or sig0 in _KNOWN:
        _MINIMAL.add(key0)
        return []
    cur = c
    for _ in range(60):
        cands = list(f(cur))[:200]
        if not cands:
            break
        sigs = _signature(cands)
        ok = [x for x, (k, sg) in zip(cands, sigs) if sg == sig0 and (k & kinds0)]
        if not ok:
            break
        best = min(ok, key=case_size)
        if case_size(best) >= case_size(cur):
            break
        cur = best
    _MINIMAL.add(json.dumps(cur, sort_keys=True))
    return [] if cur is c else [cur]


def neighbours(c):
    if "pick" in c:
        return ()
    f = ENTRIES[c["entry"]].get("neigh")
    return f(c) if f else ()


def classify(c, io, drv):
    if "pick" in c:
        return L.classify(c, io, drv)
    f = ENTRIES[c["entry"]].get("classify")
    return f(c, io, drv) if f else c["entry"]
