"""C19 — signal generators (lazy_synth) and resample (lazy_poly).

Tie: every case is run on the real code (outputs drawn one by one with next(), so that the
values yielded before an exception are observed too) and on the Lean model + spec.
Exact regime: dyadic rationals (Python floats are exact there) or Fractions where the code
keeps them exact; tolerance only where the code itself injects inexact floats.
"""
import itertools, math
from fractions import Fraction
import common
from common import enc, dec, err_kind

ID = "C19"
RULE = ("structured random cases per generator (all 8 numbers-vs-streams combinations of modulo_counter, "
        "steps zero / negative / multiples of the modulo, constant and time-varying modulo, durations "
        "integer / fractional / 0 / inf); a case is non-trivial when the impl yields at least one sample; "
        "distinct = distinct JSON case")
TRUSTED = ["hand-written Lean model ALV/Model/C19.lean of lazy_synth generators "
           "(modelled, not verified: Python's %, int(), zip, generator protocol, float arithmetic in the exact dyadic regime)"]
ASSUMPTIONS = ["modulo_counter: float arguments are dyadic rationals of bounded size (binary floating point exact); "
               "non-dyadic rationals only as Fractions in the branches that keep them exact (start not iterable)"]

F = Fraction


# ----------------------------------------------------------------------------------------------
# value transport: {"v": exact, "t": "i"|"f"|"F"}
# ----------------------------------------------------------------------------------------------
def py(v, t):
    q = dec(v)
    if t == "i":
        assert q.denominator == 1
        return int(q)
    if t == "f":
        x = float(q)
        assert Fraction(x) == q, "not exactly representable: %r" % (v,)
        return x
    return Fraction(q)


def dyadic(rng, big=False):
    e = rng.choice([0, 0, 0, 1, 1, 2, 3, 4])
    k = rng.randint(-64, 64) if not big else rng.randint(-4096, 4096)
    return F(k, 2 ** e)


def typ_for(q, rng, allow_float=True):
    ts = ["F"]
    if q.denominator == 1:
        ts.append("i")
    if allow_float and q.denominator & (q.denominator - 1) == 0:
        ts += ["f", "f"]
    return rng.choice(ts)


def drain(it, n):
    """first n items of an iterator, and how it ended"""
    out = []
    try:
        it = iter(it)
        for _ in range(n):
            out.append(next(it))
        return out, "fuel"
    except StopIteration:
        return out, "stop"
    except Exception as e:
        return out, err_kind(e)


# ----------------------------------------------------------------------------------------------
# modulo_counter
# ----------------------------------------------------------------------------------------------
def mc_arg(rng, vals, allow_float):
    """vals: Fraction (number) or list of Fractions (stream)"""
    if isinstance(vals, list):
        t = rng.choice(["f", "F", "mixed"]) if allow_float else rng.choice(["F", "mixed"])
        ts = [typ_for(v, rng, allow_float) if t == "mixed" else t for v in vals]
        return {"strm": [enc(v) for v in vals], "ts": ts, "kind": rng.choice(["list", "iter", "Stream", "tuple"])}
    return {"num": enc(vals), "t": typ_for(vals, rng, allow_float)}


def mc_build(a):
    from audiolazy import Stream
    if "num" in a:
        return py(a["num"], a["t"])
    xs = [py(v, t) for v, t in zip(a["strm"], a["ts"])]
    k = a.get("kind", "list")
    if k == "iter":
        return iter(xs)
    if k == "Stream":
        return Stream(xs)
    if k == "tuple":
        return tuple(xs)
    return xs


def gen_mc(rng, tier, scale):
    cases = []
    per = (45 if tier == "quick" else 900) * scale
    for combo in itertools.product([False, True], repeat=3):     # start, modulo, step iterable?
        for _ in range(per):
            n = rng.choice([1, 2, 3, 5, 8, 13, 21, 34])
            p_it, m_it, s_it = combo
            # Fractions that are not dyadic only where the code keeps them exact
            fraction_regime = (not p_it) and rng.random() < 0.4
            def val(big=False):
                if fraction_regime:
                    return F(rng.randint(-40, 40), rng.choice([1, 2, 3, 4, 5, 6, 7, 12]))
                return dyadic(rng, big)
            m = val()
            while m == 0:
                m = val()
            r = rng.random()
            if r < 0.6:
                m = abs(m)
            if r > 0.97:
                m = F(0)                                     # ZeroDivisionError branch
            kind = rng.choice(["any", "any", "zero", "mult", "neg", "small", "tiny", "big"])
            def step_val():
                if kind == "zero":
                    return F(0)
                if kind == "mult":
                    return m * rng.randint(-3, 3)
                if kind == "neg":
                    return -abs(val())
                if kind == "small":                            # many steps per cycle: fast path
                    return m / rng.choice([2, 4, 8, 16, -2, -4, 3 if fraction_regime else 32])
                if kind == "tiny":
                    return m / rng.choice([64, 128]) if not fraction_regime else m / 50
                if kind == "big":
                    return val(True)
                return val()
            ln = lambda: rng.choice([n, n, n + 3, max(0, n - 2), rng.randint(0, n + 4)])
            start = [val(rng.random() < 0.2) for _ in range(ln())] if p_it else val(rng.random() < 0.2)
            if p_it and rng.random() < 0.3 and start:
                start = [start[0]] * len(start)               # constant stream
            if m_it:
                if rng.random() < 0.4:
                    modulo = [m] * ln()                          # constant stream: closed layer applies
                else:
                    modulo = []
                    for _ in range(ln()):
                        x = val()
                        while x == 0:
                            x = val()
                        modulo.append(abs(x) if rng.random() < 0.7 else x)
                    if modulo and rng.random() < 0.05:
                        modulo[rng.randrange(len(modulo))] = F(0)
            else:
                modulo = m
            if s_it:
                step = [step_val() for _ in range(ln())]
                if rng.random() < 0.25 and step:
                    step = [step[0]] * len(step)
            else:
                step = step_val()
            af = not fraction_regime
            cases.append({"entry": "modulo_counter", "n": n,
                          "start": mc_arg(rng, start, af), "modulo": mc_arg(rng, modulo, af),
                          "step": mc_arg(rng, step, af)})
    return cases


def impl_mc(c):
    from audiolazy import modulo_counter
    try:
        s = modulo_counter(mc_build(c["start"]), mc_build(c["modulo"]), mc_build(c["step"]))
    except Exception as e:
        return {"out": [], "end": err_kind(e)}
    out, end = drain(s, c["n"])
    return {"out": [enc(x) for x in out], "end": end}


def cmp_mc(c, io, drv):
    res = []
    got = [dec(x) for x in io["out"]]
    model = [dec(x) for x in drv["model"]]
    rec = [dec(x) for x in drv["rec"]]
    z = drv["zero_at"]
    if z is not None:
        exp_m, exp_r, exp_end = model[:z], rec[:z], "ZeroDivisionError"
    else:
        exp_m, exp_r = model, rec
        exp_end = "fuel" if len(model) == c["n"] else "stop"
    if got != exp_m or io["end"] != exp_end:
        res.append(("model", "modulo_counter[%s]: impl=%s/%s model=%s/%s" % (
            drv["branch"], io["out"], io["end"], [enc(x) for x in exp_m], exp_end)))
    bad = got != exp_r or io["end"] != exp_end
    if not bad and drv["closed"] is not None:
        cl = [dec(x) for x in drv["closed"]]
        if z is not None:
            cl = cl[:z]
        bad = got != cl
    if bad:
        res.append(("spec", "modulo_counter[%s]: impl=%s/%s spec=%s/%s" % (
            drv["branch"], io["out"], io["end"], [enc(x) for x in exp_r], exp_end)))
    return res


def mc_branch(c):
    a, m, s = c["start"], c["modulo"], c["step"]
    b = ("P" if "strm" in a else "-") + ("M" if "strm" in m else "-") + ("S" if "strm" in s else "-")
    if "num" in m and "num" in s:
        mv, sv = dec(m["num"]), dec(s["num"])
        if sv == 0:
            b += ":step0"
        elif mv != 0 and int(mv / sv) > 1:
            b += ":fast"
        else:
            b += ":plain"
    return b


def tally_mc(eng, c, io):
    eng.count("mc_branch", mc_branch(c))
    eng.count("mc_end", io["end"])
    eng.count("mc_outputs", min(len(io["out"]) // 5 * 5, 30))
    ts = set()
    for k in ("start", "modulo", "step"):
        a = c[k]
        ts |= set(a["ts"]) if "strm" in a else {a["t"]}
    eng.count("mc_types", "".join(sorted(ts)))
    m = c["modulo"]
    if "strm" in m:
        eng.count("mc_modulo_stream", "constant" if len(set(m["strm"])) <= 1 else "varying")


def shrink_mc(c):
    if c["n"] > 1:
        yield dict(c, n=c["n"] - 1)
        yield dict(c, n=c["n"] // 2)
    for k in ("start", "modulo", "step"):
        a = c[k]
        if "strm" in a:
            xs = a["strm"]
            if len(xs) > c["n"]:
                yield dict(c, **{k: dict(a, strm=xs[:c["n"]], ts=a["ts"][:c["n"]])})
            if a.get("kind") != "list":
                yield dict(c, **{k: dict(a, kind="list")})
            if xs and len(set(xs)) == 1 and len(xs) >= c["n"]:
                yield dict(c, **{k: {"num": xs[0], "t": a["ts"][0]}})
            for i, x in enumerate(xs):
                q = dec(x)
                for r in {F(int(q)), F(0), F(1)} - {q}:
                    if k == "modulo" and r == 0:
                        continue
                    ys = list(xs); ys[i] = enc(r)
                    ts = list(a["ts"])
                    yield dict(c, **{k: dict(a, strm=ys, ts=ts)})
        else:
            q = dec(a["num"])
            for r in {F(int(q)), F(1), F(2)} - {q}:
                if k == "modulo" and r == 0:
                    continue
                yield dict(c, **{k: dict(a, num=enc(r))})


def neigh_mc(c):
    for k in ("start", "modulo", "step"):
        a = c[k]
        if "num" in a:
            q = dec(a["num"])
            for d in (F(1), F(-1), F(1, 2), -q - q):
                if k == "modulo" and q + d == 0:
                    continue
                yield dict(c, **{k: dict(a, num=enc(q + d))})
    yield dict(c, n=c["n"] + 1)
    yield dict(c, n=c["n"] + 7)


def classify_mc(c, io, drv):
    if io["end"] not in ("fuel", "stop"):
        return "modulo_counter:%s:%s" % (mc_branch(c), io["end"])
    return "modulo_counter:%s:values" % mc_branch(c)


# ----------------------------------------------------------------------------------------------
# dispatch
# ----------------------------------------------------------------------------------------------
ENTRIES = {
    "modulo_counter": dict(gen=gen_mc, impl=impl_mc, cmp=cmp_mc, tally=tally_mc, shrink=shrink_mc,
                           neigh=neigh_mc, classify=classify_mc),
}


def generate(rng, tier, scale=1):
    cases = []
    for name in sorted(ENTRIES):
        cases.extend(ENTRIES[name]["gen"](rng, tier, scale))
    return cases


def impl(c):
    return ENTRIES[c["entry"]]["impl"](c)


def request(c):
    f = ENTRIES[c["entry"]].get("request")
    return f(c) if f else c


def compare(c, io, drv):
    if "err" in io and str(io["err"]).startswith("UNMAPPED"):
        return [("model", "harness failure: " + io.get("trace", ""))]
    return ENTRIES[c["entry"]]["cmp"](c, io, drv)


def nontrivial(c, io):
    return bool(io.get("out"))


def tally(eng, c, io):
    eng.count("entry", c["entry"])
    f = ENTRIES[c["entry"]].get("tally")
    if f:
        f(eng, c, io)


def shrink(c):
    f = ENTRIES[c["entry"]].get("shrink")
    return f(c) if f else ()


def neighbours(c):
    f = ENTRIES[c["entry"]].get("neigh")
    return f(c) if f else ()


def classify(c, io, drv):
    f = ENTRIES[c["entry"]].get("classify")
    return f(c, io, drv) if f else c["entry"]
