"""C20 — translator of the function BODIES: reads the anchored functions of audiolazy/lazy_analysis.py and
lazy_itertools.py with `ast` (source text only, nothing is imported from the repo) and writes them as Lean definitions
in the vocabulary of the hand-written model (`lean/ALV/Model/C20.lean`): `lean/ALV/Gen/C20Src.lean`, namespace
`ALV.Gen.C20`.  `Props/C20.lean` proves `src_<f>_is_model : ALV.Gen.C20.<f> = <model function>` for each of them, so
every theorem about the model is a theorem about what the source says NOW; an edit of a translated function that
changes its meaning breaks that theorem (or is a TranslationError) on the next run.

Python subset (anything else inside a chosen function is a TranslationError, never skipped):

  generator functions ("gen")      x = e | x += e | x -= e | it = iter(seq) | try: x = next(it) / except StopIteration: return
                                   | yield e | for el in it: ... (not nested; `break` allowed) | if c: ... else: ... | return | pass
                                   | d = deque((e for _ in xrange(n)), maxlen=n) | d.append(e) | ... d.popleft() ...
  closures ("closure")             def f(size): a = e ...; @tostream def g(sig, zero=..): <generator or stream expression>; return g
  plain functions ("ret")          if p is None: ... | if c: raise E(...) | return Stream(seq) | return Stream(e for el in seq)
  stream expressions ("stream")    return <expr of> thub(s, n) | abs(s) | s ** 2 | lowpass(cutoff)(s) | maverage(size)(s, zero=z)
                                   | filt(s, zero=z) with filt = (1 - z ** -lag).linearize()
  expressions                      names, 0 / 1 / 0. / 1., + - * / unary -, % (Python floor-mod), abs, min(a, b, key=abs),
                                   a if c else b, comparisons < > <= >= == !=, and / or / not

Meaning assumed (the TRUSTED part, listed in c20.py): a generator consuming ONE iterator over a finite input is the list
of the values it yields; `for` over that iterator after a `break` / `next` continues with the remaining items; the
vocabulary mapping abs -> absG, % -> pymod fl, min(.., key=abs) -> minAbs, deque -> List (popleft = head / drop 1,
append = ++ [.]), Stream(x) / tostream / thub(x, n) -> x, `a <= b` -> `¬ b < a` (total order), 1. -> 1, 0. -> 0,
`1 / size` with an integer `size` -> `1 / (size : α)`.
Normalised away: whitespace, comments, docstrings, parentheses, names of local variables and loop targets
(locals and loop targets become v1, v2, ...; parameter names are kept — they are part of the signature, c20_sig.py)."""
import ast
import os
import warnings

import common

GEN_REL = os.path.join("ALV", "Gen", "C20Src.lean")


class TranslationError(Exception):
    pass


def TE(node, msg):
    ln = getattr(node, "lineno", "?")
    return TranslationError("line %s: %s" % (ln, msg))


# ------------------------------------------------------------------------------------------------------------
# what is translated: (key, file, python name, strategy registration or None, lean name, mode, options)
# `section` = the instance variables of the model's section the function lives in (Model/C20.lean)
# ------------------------------------------------------------------------------------------------------------
S_CLIP = "[LT α] [DecidableLT α]"
S_ZCROSS = "[Mul α] [Neg α] [OfNat α 0] [OfNat α 1] [LT α] [DecidableLT α] [DecidableEq α]"
S_UNWRAP = "[Add α] [Mul α] [Sub α] [Neg α] [Div α] [OfNat α 0] [LT α] [DecidableLT α]"
S_ACC = "[Add α] [Mul α] [Sub α] [Neg α] [OfNat α 0] [OfNat α 1]"
S_MAVG = "[Add α] [Mul α] [Sub α] [Neg α] [Div α] [OfNat α 0] [OfNat α 1] [NatCast α]"
S_AMDF = S_MAVG + " [LT α] [DecidableLT α]"

FUNCS = [
    dict(key="clip", file="lazy_analysis.py", py="clip", strategy=None, lean="clip", mode="ret", seq="sig",
         kinds={"low": "opt", "high": "opt"}, section=S_CLIP, model="ALV.C20.clip"),
    dict(key="zcross", file="lazy_analysis.py", py="zcross", strategy=None, lean="zcross", mode="gen", seq="seq",
         kinds={}, out="Nat", section=S_ZCROSS, model="ALV.C20.zcross"),
    dict(key="unwrap", file="lazy_analysis.py", py="unwrap", strategy=None, lean="unwrap", mode="gen", seq="sig",
         kinds={}, fl=True, section=S_UNWRAP, model="ALV.C20.unwrap"),
    dict(key="accumulate.func", file="lazy_itertools.py", py="accumulate", strategy=("accumulate", "func"),
         lean="accumulate_func", mode="gen", seq="iterable", kinds={}, section=S_ACC, model="ALV.C20.accumulateFunc"),
    dict(key="maverage.deque", file="lazy_analysis.py", py="maverage", strategy=("maverage", "deque"),
         lean="maverage_deque", mode="closure", seq="sig", kinds={"size": "nat"}, section=S_MAVG,
         model="ALV.C20.maverageDeque"),
    dict(key="amdf", file="lazy_analysis.py", py="amdf", strategy=None, lean="amdf", mode="closure", seq="sig",
         kinds={"lag": "nat", "size": "nat"}, section=S_AMDF, model="ALV.C20.amdf"),
    dict(key="envelope.abs", file="lazy_analysis.py", py="envelope", strategy=("envelope", "abs"), lean="envelope_abs",
         mode="stream", seq="sig", kinds={"cutoff": "lowpass"}, section=S_AMDF, model="ALV.C20.envelopeAbs"),
    dict(key="envelope.squared", file="lazy_analysis.py", py="envelope", strategy=("envelope", "squared"),
         lean="envelope_squared", mode="stream", seq="sig", kinds={"cutoff": "lowpass"}, section=S_AMDF,
         model="ALV.C20.envelopeSquared"),
]

# anchored functions that stay hand-written models (reported in the evidence)
NOT_TRANSLATED = {
    "maverage.recursive": "body is a ZFilter operator expression `(1./size) * (1 - z ** -size) / (1 - z ** -1)`: its meaning is the "
                          "ZFilter algebra (properties C04/C05), not a loop; model recursiveNum / frun stays hand-written (tied by sampling)",
    "maverage.fir": "body is `sum((1./size) * z ** -i for i in xrange(size))`, a ZFilter sum (same reason)",
    "accumulate.z": "registered value `1 / (1 - z ** -1)`, a ZFilter expression (same reason)",
    "accumulate.accumulate": "is itertools.accumulate itself (CPython, no source in the repo)",
    "envelope.rms": "`envelope.squared ** .5`: the square root is outside the exact model (taken on the harness side)",
    "amdf: filt": "only the literal form `(1 - z ** -lag).linearize()` is in the vocabulary (mapped to lagNum / frun); any other "
                  "filter expression is a TranslationError",
}

DICTS = ("envelope", "maverage", "accumulate")
OK_DECOS = ("tostream",)


def _src(name):
    with open(os.path.join(common.REPO, "audiolazy", name)) as f:
        return f.read()


def _strategy(dec):
    if (isinstance(dec, ast.Call) and isinstance(dec.func, ast.Attribute) and dec.func.attr == "strategy"
            and isinstance(dec.func.value, ast.Name) and dec.func.value.id in DICTS and dec.args
            and all(isinstance(a, ast.Constant) and isinstance(a.value, str) for a in dec.args)):
        return dec.func.value.id, [a.value for a in dec.args]
    return None


def find_function(tree, spec):
    hits = []
    for node in tree.body:
        if isinstance(node, ast.FunctionDef) and node.name == spec["py"]:
            strat = [s for s in map(_strategy, node.decorator_list) if s]
            if spec["strategy"] is None:
                if not strat:
                    hits.append(node)
            elif any(d == spec["strategy"][0] and names[0] == spec["strategy"][1] for d, names in strat):
                hits.append(node)
    if len(hits) != 1:
        raise TranslationError("%s: %d definitions found in %s" % (spec["key"], len(hits), spec["file"]))
    return hits[0]


def _check_decorators(fn, allow_strategy):
    for d in fn.decorator_list:
        if isinstance(d, ast.Name) and d.id in OK_DECOS:
            continue
        if allow_strategy and _strategy(d):
            continue
        raise TE(d, "%s: decorator not in the vocabulary: %s" % (fn.name, ast.dump(d)[:80]))


def _strip_doc(body):
    if body and isinstance(body[0], ast.Expr) and isinstance(body[0].value, ast.Constant) and isinstance(body[0].value.value, str):
        return body[1:]
    return body


def _plain_params(fn):
    a = fn.args
    if a.vararg or a.kwarg or a.kwonlyargs or getattr(a, "posonlyargs", None):
        raise TE(fn, "%s: *args / **kwargs / keyword-only / positional-only parameters" % fn.name)
    return [p.arg for p in a.args]


# ------------------------------------------------------------------------------------------------------------
# environment
# ------------------------------------------------------------------------------------------------------------
class Env:
    """names in scope.  kinds: num (α), nat (Nat), opt (Option α), none (a parameter known to be None), list (deque),
    lowpass (stands for the coefficient lists of lowpass(<param>)), zfir (a filter given by its numerator)"""

    def __init__(self, tr):
        self.tr = tr
        self.params = []          # [(python name, lean name, kind)] fixed parameters (never re-bound)
        self.locals = []          # [(python name, lean name, kind)] in order of first binding
        self.iters = set()        # python names that are THE iterator over the input
        self.seq = None           # python name of the input parameter
        self.cur = None           # Lean text of the remaining input
        self.brk = None           # inside a loop: env -> text for `break`
        self.nxt = None           # inside a loop: env -> text for the end of the body
        self.kinds = {}           # python name -> (lean name, kind)

    def copy(self):
        e = Env(self.tr)
        e.params, e.locals, e.iters = list(self.params), list(self.locals), set(self.iters)
        e.seq, e.cur, e.brk, e.nxt, e.kinds = self.seq, self.cur, self.brk, self.nxt, dict(self.kinds)
        return e

    def add_param(self, name, kind):
        self.params.append((name, name, kind))
        self.kinds[name] = (name, kind)

    def bind(self, name, kind, node=None):
        """(re)bind a local; returns (new env, lean name)"""
        if any(name == p[0] for p in self.params) or name == self.seq or name in self.iters:
            raise TE(node, "assignment to parameter / iterator %r" % name)
        e = self.copy()
        for p, l, k in e.locals:
            if p == name:
                if k != kind:
                    raise TE(node, "%r changes kind %s -> %s" % (name, k, kind))
                return e, l
        lean = self.tr.local_name(name)
        e.locals.append((name, lean, kind))
        e.kinds[name] = (lean, kind)
        return e, lean

    def set_kind(self, name, kind):
        e = self.copy()
        l, _ = e.kinds[name]
        e.kinds[name] = (l, kind)
        e.params = [(p, ln, kind if p == name else k) for p, ln, k in e.params]
        return e


TY = {"num": "α", "nat": "Nat", "opt": "Option α", "list": "List α", "zfir": "List α"}


class FnTranslator:
    def __init__(self, spec, fn):
        self.spec, self.fn = spec, fn
        self.defs = []            # Lean texts of the loop functions, in dependency order
        self.loops = {}           # id(for node) -> (lean name, [(python, lean, kind)] signature)
        self.nlocal = {}
        self.out_nat = spec.get("out") == "Nat"

    def local_name(self, name):
        if name not in self.nlocal:
            self.nlocal[name] = "v%d" % (len(self.nlocal) + 1)
        return self.nlocal[name]

    # ---------------- expressions (type α) ----------------
    def ex(self, n, env):
        if isinstance(n, ast.Constant):
            v = n.value
            if isinstance(v, bool) or not isinstance(v, (int, float)) or v not in (0, 1):
                raise TE(n, "constant %r outside the vocabulary (0, 1, 0., 1.)" % (v,))
            return "1" if v == 1 else "0"
        if isinstance(n, ast.Name):
            if n.id not in env.kinds:
                raise TE(n, "name %r is not a parameter or a local bound on this path" % n.id)
            lean, kind = env.kinds[n.id]
            if kind == "num":
                return lean
            if kind == "nat":
                return "(%s : α)" % lean
            raise TE(n, "name %r of kind %s used as a number" % (n.id, kind))
        if isinstance(n, ast.UnaryOp) and isinstance(n.op, ast.USub):
            return "(-%s)" % self.ex(n.operand, env)
        if isinstance(n, ast.UnaryOp) and isinstance(n.op, ast.UAdd):
            return self.ex(n.operand, env)
        if isinstance(n, ast.BinOp):
            ops = {ast.Add: "+", ast.Sub: "-", ast.Mult: "*", ast.Div: "/"}
            if type(n.op) in ops:
                return "(%s %s %s)" % (self.ex(n.left, env), ops[type(n.op)], self.ex(n.right, env))
            if isinstance(n.op, ast.Mod):
                if not self.spec.get("fl"):
                    raise TE(n, "`%` in a function without a floor parameter")
                return "(pymod fl %s %s)" % (self.ex(n.left, env), self.ex(n.right, env))
            raise TE(n, "operator %s outside the vocabulary" % type(n.op).__name__)
        if isinstance(n, ast.IfExp):
            return "(if %s then %s else %s)" % (self.cond(n.test, env), self.ex(n.body, env), self.ex(n.orelse, env))
        if isinstance(n, ast.Call) and isinstance(n.func, ast.Name):
            if n.func.id == "abs" and len(n.args) == 1 and not n.keywords:
                return "(absG %s)" % self.ex(n.args[0], env)
            if n.func.id == "min" and len(n.args) == 2 and len(n.keywords) == 1 and n.keywords[0].arg == "key" \
                    and self._is_abs_key(n.keywords[0].value):
                return "(minAbs %s %s)" % (self.ex(n.args[0], env), self.ex(n.args[1], env))
        raise TE(n, "expression outside the vocabulary: %s" % ast.dump(n)[:100])

    @staticmethod
    def _is_abs_key(k):
        if isinstance(k, ast.Name) and k.id == "abs":
            return True
        return (isinstance(k, ast.Lambda) and len(k.args.args) == 1 and not k.args.defaults and isinstance(k.body, ast.Call)
                and isinstance(k.body.func, ast.Name) and k.body.func.id == "abs" and len(k.body.args) == 1
                and isinstance(k.body.args[0], ast.Name) and k.body.args[0].id == k.args.args[0].arg and not k.body.keywords)

    def cond(self, n, env):
        if isinstance(n, ast.Compare) and len(n.ops) == 1:
            a, b = self.ex(n.left, env), self.ex(n.comparators[0], env)
            op = type(n.ops[0])
            if op is ast.Lt:
                return "%s < %s" % (a, b)
            if op is ast.Gt:
                return "%s > %s" % (a, b)
            if op is ast.LtE:
                return "¬ (%s < %s)" % (b, a)
            if op is ast.GtE:
                return "¬ (%s < %s)" % (a, b)
            if op is ast.Eq:
                return "%s = %s" % (a, b)
            if op is ast.NotEq:
                return "%s ≠ %s" % (a, b)
            raise TE(n, "comparison %s outside the vocabulary" % op.__name__)
        if isinstance(n, ast.BoolOp):
            j = " ∨ " if isinstance(n.op, ast.Or) else " ∧ "
            return j.join("(%s)" % self.cond(v, env) for v in n.values)
        if isinstance(n, ast.UnaryOp) and isinstance(n.op, ast.Not):
            return "¬ (%s)" % self.cond(n.operand, env)
        raise TE(n, "condition outside the vocabulary: %s" % ast.dump(n)[:100])

    def yielded(self, n, env):
        if self.out_nat:
            if isinstance(n, ast.Constant) and type(n.value) is int and n.value >= 0:
                return "%d" % n.value
            raise TE(n, "this function must yield natural-number literals")
        return self.ex(n, env)

    # ---------------- deque vocabulary ----------------
    def _hoist_popleft(self, n, env, ind):
        """an expression with at most one `d.popleft()` in it -> (prefix lines, env, expression with the popped value)"""
        pops = [c for c in ast.walk(n) if isinstance(c, ast.Call) and isinstance(c.func, ast.Attribute) and c.func.attr == "popleft"]
        if not pops:
            return "", env, n
        if len(pops) > 1:
            raise TE(n, "more than one popleft() in one statement")
        c = pops[0]
        if c.args or c.keywords or not isinstance(c.func.value, ast.Name) or env.kinds.get(c.func.value.id, (0, 0))[1] != "list":
            raise TE(n, "popleft() on something that is not a deque local")
        d = env.kinds[c.func.value.id][0]
        env, pv = env.bind("<popped>", "num", n)
        pre = "%slet %s : α := %s.headD 0\n%slet %s : List α := %s.drop 1\n" % (ind, pv, d, ind, d, d)

        class R(ast.NodeTransformer):
            def visit_Call(self, node):
                return ast.copy_location(ast.Name(id="<popped>", ctx=ast.Load()), node) if node is c else self.generic_visit(node)
        return pre, env, R().visit(n)

    def _deque_init(self, n, env):
        """deque((e for _ in xrange(cnt)), maxlen=cnt) -> List.replicate cnt e"""
        if not (isinstance(n, ast.Call) and isinstance(n.func, ast.Name) and n.func.id == "deque"):
            return None
        if len(n.args) != 1 or not isinstance(n.args[0], ast.GeneratorExp):
            raise TE(n, "deque(...) not of the form deque((e for _ in xrange(n)), maxlen=n)")
        g = n.args[0]
        if len(g.generators) != 1 or g.generators[0].ifs or g.generators[0].is_async or not isinstance(g.generators[0].target, ast.Name):
            raise TE(n, "deque generator shape")
        it = g.generators[0].iter
        if not (isinstance(it, ast.Call) and isinstance(it.func, ast.Name) and it.func.id in ("xrange", "range") and len(it.args) == 1
                and isinstance(it.args[0], ast.Name) and env.kinds.get(it.args[0].id, (0, 0))[1] == "nat"):
            raise TE(n, "deque generator must run over xrange(<integer parameter>)")
        tgt = g.generators[0].target.id
        if any(isinstance(x, ast.Name) and x.id == tgt for x in ast.walk(g.elt)):
            raise TE(n, "deque generator element depends on the index")
        cnt = it.args[0].id
        for kw in n.keywords:
            if kw.arg != "maxlen" or not (isinstance(kw.value, ast.Name) and kw.value.id == cnt):
                raise TE(n, "deque maxlen must be the number of initial items (the loop then never overflows it)")
        return "List.replicate %s %s" % (env.kinds[cnt][0], self.ex(g.elt, env))

    # ---------------- generator bodies ----------------
    def gen(self, stmts, env, cont, ind):
        if not stmts:
            return cont(env, ind)
        s, rest = stmts[0], stmts[1:]

        def follow(e, i):
            return self.gen(rest, e, cont, i)

        if isinstance(s, ast.Pass):
            return follow(env, ind)
        if isinstance(s, ast.Return):
            if s.value is not None:
                raise TE(s, "return with a value inside a generator")
            return ind + "[]"
        if isinstance(s, ast.Break):
            if env.brk is None:
                raise TE(s, "break outside a loop")
            return env.brk(env, ind)
        if isinstance(s, ast.Expr) and isinstance(s.value, ast.Yield):
            if s.value.value is None:
                raise TE(s, "bare yield")
            return "%s%s :: (\n%s)" % (ind, self.yielded(s.value.value, env), follow(env, ind + "  "))
        if isinstance(s, ast.Expr) and isinstance(s.value, ast.Call) and isinstance(s.value.func, ast.Attribute) \
                and s.value.func.attr == "append":
            c = s.value
            if not isinstance(c.func.value, ast.Name) or env.kinds.get(c.func.value.id, (0, 0))[1] != "list" or len(c.args) != 1 or c.keywords:
                raise TE(s, "append on something that is not a deque local")
            d = env.kinds[c.func.value.id][0]
            return "%slet %s : List α := %s ++ [%s]\n%s" % (ind, d, d, self.ex(c.args[0], env), follow(env, ind))
        if isinstance(s, (ast.Assign, ast.AugAssign)):
            if isinstance(s, ast.Assign):
                if len(s.targets) != 1 or not isinstance(s.targets[0], ast.Name):
                    raise TE(s, "assignment target is not a single name")
                tgt = s.targets[0].id
                v = s.value
                # it = iter(seq)
                if isinstance(v, ast.Call) and isinstance(v.func, ast.Name) and v.func.id == "iter":
                    if len(v.args) != 1 or not isinstance(v.args[0], ast.Name) or v.args[0].id != env.seq or env.iters or v.keywords:
                        raise TE(s, "iter() of something that is not the (fresh) input")
                    if any(tgt == p[0] for p in env.locals + env.params):
                        raise TE(s, "iterator name already in use")
                    e = env.copy()
                    e.iters.add(tgt)
                    return follow(e, ind)
                dq = self._deque_init(v, env)
                if dq is not None:
                    e, l = env.bind(tgt, "list", s)
                    return "%slet %s : List α := %s\n%s" % (ind, l, dq, follow(e, ind))
            else:
                if not isinstance(s.target, ast.Name) or not isinstance(s.op, (ast.Add, ast.Sub)):
                    raise TE(s, "augmented assignment other than `name += e` / `name -= e`")
                tgt = s.target.id
                if env.kinds.get(tgt, (0, 0))[1] != "num" or any(tgt == p[0] for p in env.params):
                    raise TE(s, "augmented assignment to %r, which is not a numeric local" % tgt)
                v = ast.copy_location(ast.BinOp(left=ast.Name(id=tgt, ctx=ast.Load()), op=s.op, right=s.value), s)
            pre, e1, v = self._hoist_popleft(v, env, ind)
            val = self.ex(v, e1)
            e2, l = e1.bind(tgt, "num", s)
            return "%s%slet %s : α := %s\n%s" % (pre, ind, l, val, follow(e2, ind))
        if isinstance(s, ast.Try):
            if (len(s.body) == 1 and isinstance(s.body[0], ast.Assign) and len(s.body[0].targets) == 1
                    and isinstance(s.body[0].targets[0], ast.Name) and isinstance(s.body[0].value, ast.Call)
                    and isinstance(s.body[0].value.func, ast.Name) and s.body[0].value.func.id == "next"
                    and len(s.body[0].value.args) == 1 and isinstance(s.body[0].value.args[0], ast.Name)
                    and s.body[0].value.args[0].id in env.iters and not s.body[0].value.keywords
                    and len(s.handlers) == 1 and isinstance(s.handlers[0].type, ast.Name) and s.handlers[0].type.id == "StopIteration"
                    and s.handlers[0].name is None and not s.orelse and not s.finalbody):
                e_empty = env.copy()
                e_empty.cur = "[]"
                empty = self.gen(s.handlers[0].body, e_empty, follow, ind + "    ")
                e_some, l = env.bind(s.body[0].targets[0].id, "num", s)
                e_some.cur = "xs'"
                some = follow(e_some, ind + "    ")
                return "%s(match %s with\n%s  | [] =>\n%s\n%s  | %s :: xs' =>\n%s)" % (ind, env.cur, ind, empty, ind, l, some)
            raise TE(s, "try statement other than `try: x = next(it) / except StopIteration: ...`")
        if isinstance(s, ast.For):
            if s.orelse or not isinstance(s.target, ast.Name) or not isinstance(s.iter, ast.Name):
                raise TE(s, "for loop shape")
            if env.nxt is not None:
                raise TE(s, "nested loop")
            src = s.iter.id
            if src == env.seq and not env.iters:
                # looping over the input itself: it is consumed as by an iterator only if nothing else reads it afterwards
                if any(isinstance(x, ast.Name) and x.id == env.seq for r in rest for x in ast.walk(r)):
                    raise TE(s, "the input is read again after a loop over it")
            elif src not in env.iters:
                raise TE(s, "loop over %r, which is not the input / its iterator" % src)
            return self.loop(s, env, follow, ind)
        if isinstance(s, ast.If):
            one = self._single_assign(s, env)
            if one is not None:
                tgt, a, b = one
                e2, l = env.bind(tgt, "num", s)
                return "%slet %s : α := if %s then %s else %s\n%s" % (ind, l, self.cond(s.test, env), a, b, follow(e2, ind))
            c = self.cond(s.test, env)
            return "%sif %s then\n%s\n%selse\n%s" % (ind, c, self.gen(s.body, env, follow, ind + "  "), ind,
                                                    self.gen(s.orelse, env, follow, ind + "  "))
        raise TE(s, "statement outside the vocabulary: %s" % type(s).__name__)

    def _single_assign(self, s, env):
        """`if c: v op= e` (optionally `else: v = e2`) with v already a numeric local -> (v, then-value, else-value)"""
        def one(body):
            if len(body) != 1:
                return None
            st = body[0]
            if isinstance(st, ast.AugAssign) and isinstance(st.target, ast.Name) and isinstance(st.op, (ast.Add, ast.Sub)):
                t = st.target.id
                v = ast.copy_location(ast.BinOp(left=ast.Name(id=t, ctx=ast.Load()), op=st.op, right=st.value), st)
            elif isinstance(st, ast.Assign) and len(st.targets) == 1 and isinstance(st.targets[0], ast.Name):
                t, v = st.targets[0].id, st.value
            else:
                return None
            if any(isinstance(x, (ast.Call,)) and isinstance(x.func, ast.Attribute) for x in ast.walk(v)):
                return None
            if isinstance(v, ast.Call) and isinstance(v.func, ast.Name) and v.func.id in ("iter", "deque", "next"):
                return None
            return t, v
        a = one(s.body)
        if a is None or env.kinds.get(a[0], (0, 0))[1] != "num" or any(a[0] == p[0] for p in env.params):
            return None
        if s.orelse:
            b = one(s.orelse)
            if b is None or b[0] != a[0]:
                return None
            return a[0], self.ex(a[1], env), self.ex(b[1], env)
        return a[0], self.ex(a[1], env), env.kinds[a[0]][0]

    def loop(self, s, env, follow, ind):
        key = id(s)
        sig = [(p, l, k) for p, l, k in env.params if k in TY] + list(env.locals)
        if key not in self.loops:
            name = "%s_loop%d" % (self.spec["lean"], len(self.loops) + 1)
            self.loops[key] = (name, sig)
            inner = env.copy()
            inner.brk = inner.nxt = None
            # exhaustion: what follows the loop, on the empty rest
            e0 = inner.copy()
            e0.cur = "[]"
            empty = follow(e0, "    ")
            # one item
            eb, el = inner.bind(s.target.id, "num", s)
            eb.cur = "xs'"

            def brk(e, i):
                e = e.copy()
                e.brk = e.nxt = None
                return follow(self._drop_loop_locals(e, sig), i)

            def nxt(e, i):
                return "%s%s xs'" % (i, self._call(name, sig, e, s))
            eb.brk, eb.nxt = brk, nxt
            body = self.gen(s.body, eb, lambda e, i: e.nxt(e, i), "    ")
            binders = " ".join("(%s : %s)" % (l, TY[k]) for _, l, k in sig)
            if self.spec.get("fl"):
                binders = "(fl : α → α) " + binders
            out = "Nat" if self.out_nat else "α"
            self.defs.append("def %s %s : List α → List %s\n  | [] =>\n%s\n  | %s :: xs' =>\n%s\n"
                             % (name, binders, out, empty, el, body))
        name, sig0 = self.loops[key]
        if [(p, k) for p, _, k in sig0] != [(p, k) for p, _, k in sig]:
            raise TE(s, "the loop is reached with different sets of bound variables")
        return "%s%s %s" % (ind, self._call(name, sig0, env, s), env.cur)

    @staticmethod
    def _drop_loop_locals(e, sig):
        keep = {p for p, _, _ in sig}
        e.locals = [x for x in e.locals if x[0] in keep]
        e.kinds = {p: v for p, v in e.kinds.items() if p in keep or any(p == q[0] for q in e.params) or p == e.seq}
        return e

    def _call(self, name, sig, env, node):
        args = []
        for p, _, k in sig:
            if p not in env.kinds or env.kinds[p][1] != k:
                raise TE(node, "variable %r is not bound (as %s) where the loop continues" % (p, k))
            args.append(env.kinds[p][0])
        return " ".join([name] + (["fl"] if self.spec.get("fl") else []) + args)

    # ---------------- stream expressions ----------------
    def stream(self, n, env):
        if isinstance(n, ast.Name):
            if n.id == env.seq:
                return env.cur
            raise TE(n, "name %r used as a stream" % n.id)
        if isinstance(n, ast.Call) and isinstance(n.func, ast.Name) and n.func.id == "thub":
            if len(n.args) == 2 and not n.keywords and isinstance(n.args[1], ast.Constant) and type(n.args[1].value) is int \
                    and n.args[1].value >= 1:
                return self.stream(n.args[0], env)
            raise TE(n, "thub(...) shape")
        if isinstance(n, ast.Call) and isinstance(n.func, ast.Name) and n.func.id == "abs" and len(n.args) == 1 and not n.keywords:
            return "(%s.map absG)" % self.stream(n.args[0], env)
        if isinstance(n, ast.BinOp) and isinstance(n.op, ast.Pow) and isinstance(n.right, ast.Constant) and n.right.value == 2 \
                and type(n.right.value) is int:
            return "(%s.map fun x => x * x)" % self.stream(n.left, env)

        def zero_kw(c):
            if len(c.args) != 1 or len(c.keywords) != 1 or c.keywords[0].arg != "zero":
                raise TE(c, "filter call must be f(<stream>, zero=<number>)")
            return self.ex(c.keywords[0].value, env)
        if isinstance(n, ast.Call) and isinstance(n.func, ast.Call) and isinstance(n.func.func, ast.Name):
            f = n.func
            if f.func.id == "lowpass" and len(f.args) == 1 and not f.keywords and isinstance(f.args[0], ast.Name) \
                    and env.kinds.get(f.args[0].id, (0, 0))[1] == "lowpass" and len(n.args) == 1 and not n.keywords:
                return "(frun b a 0 %s)" % self.stream(n.args[0], env)
            if f.func.id == "maverage" and len(f.args) == 1 and not f.keywords and isinstance(f.args[0], ast.Name) \
                    and env.kinds.get(f.args[0].id, (0, 0))[1] == "nat":
                # StrategyDict call = its default strategy = the first registered one: `deque` (Gen.C20Defaults.strategies);
                # the translated `maverage.deque` of this very file
                return "(maverage_deque %s %s %s)" % (env.kinds[f.args[0].id][0], zero_kw(n), self.stream(n.args[0], env))
        if isinstance(n, ast.Call) and isinstance(n.func, ast.Name) and env.kinds.get(n.func.id, (0, 0))[1] == "zfir":
            return "(frun %s [] %s %s)" % (env.kinds[n.func.id][0], zero_kw(n), self.stream(n.args[0], env))
        raise TE(n, "stream expression outside the vocabulary: %s" % ast.dump(n)[:100])

    def _zfir(self, v, env):
        """`(1 - z ** -lag).linearize()` -> lagNum lag"""
        if (isinstance(v, ast.Call) and isinstance(v.func, ast.Attribute) and v.func.attr == "linearize" and not v.args
                and not v.keywords):
            p = v.func.value
            if (isinstance(p, ast.BinOp) and isinstance(p.op, ast.Sub) and isinstance(p.left, ast.Constant) and p.left.value == 1
                    and type(p.left.value) is int and isinstance(p.right, ast.BinOp) and isinstance(p.right.op, ast.Pow)
                    and isinstance(p.right.left, ast.Name) and p.right.left.id == "z" and isinstance(p.right.right, ast.UnaryOp)
                    and isinstance(p.right.right.op, ast.USub) and isinstance(p.right.right.operand, ast.Name)
                    and env.kinds.get(p.right.right.operand.id, (0, 0))[1] == "nat"):
                return "(lagNum %s)" % env.kinds[p.right.right.operand.id][0]
        return None

    # ---------------- plain functions returning a Stream ----------------
    def ret(self, stmts, env, ind):
        if not stmts:
            raise TE(self.fn, "a path ends without return / raise")
        s, rest = stmts[0], stmts[1:]
        if isinstance(s, ast.If):
            t = s.test
            if isinstance(t, ast.Compare) and len(t.ops) == 1 and isinstance(t.ops[0], (ast.Is, ast.IsNot)) \
                    and isinstance(t.comparators[0], ast.Constant) and t.comparators[0].value is None:
                if not isinstance(t.left, ast.Name) or env.kinds.get(t.left.id, (0, 0))[1] != "opt":
                    raise TE(s, "`is None` test of something that is not an optional parameter on this path")
                p = t.left.id
                a, b = (s.body, s.orelse) if isinstance(t.ops[0], ast.Is) else (s.orelse, s.body)
                return "%s(match %s with\n%s  | none =>\n%s\n%s  | some %s =>\n%s)" % (
                    ind, p, ind, self.ret(a + rest, env.set_kind(p, "none"), ind + "    "), ind, p,
                    self.ret(b + rest, env.set_kind(p, "num"), ind + "    "))
            return "%sif %s then\n%s\n%selse\n%s" % (ind, self.cond(t, env), self.ret(s.body + rest, env, ind + "  "), ind,
                                                    self.ret(s.orelse + rest, env, ind + "  "))
        if isinstance(s, ast.Raise):
            x = s.exc
            if isinstance(x, ast.Call):
                x = x.func
            if not isinstance(x, ast.Name) or s.cause is not None:
                raise TE(s, "raise shape")
            return '%s.error "%s"' % (ind, x.id)
        if isinstance(s, ast.Return):
            v = s.value
            if isinstance(v, ast.Call) and isinstance(v.func, ast.Name) and v.func.id == "Stream" and len(v.args) == 1 and not v.keywords:
                a = v.args[0]
                if isinstance(a, ast.Name) and a.id == env.seq:
                    return "%s.ok %s" % (ind, env.cur)
                if isinstance(a, ast.GeneratorExp) and len(a.generators) == 1 and not a.generators[0].ifs \
                        and isinstance(a.generators[0].target, ast.Name) and isinstance(a.generators[0].iter, ast.Name) \
                        and a.generators[0].iter.id == env.seq and not a.generators[0].is_async:
                    e, l = env.bind(a.generators[0].target.id, "num", s)
                    return "%s.ok (%s.map fun %s => %s)" % (ind, env.cur, l, self.ex(a.elt, e))
            raise TE(s, "return other than Stream(<input>) / Stream(<e> for el in <input>)")
        raise TE(s, "statement outside the vocabulary: %s" % type(s).__name__)

    # ---------------- whole functions ----------------
    def translate(self):
        spec, fn = self.spec, self.fn
        env = Env(self)
        mode = spec["mode"]
        _check_decorators(fn, True)
        body = _strip_doc(fn.body)
        lets = ""
        inner = fn
        extra = ""
        if mode == "closure":
            for p in _plain_params(fn):
                env.add_param(p, spec["kinds"].get(p, "num"))
            # straight-line assignments, then the inner def, then `return inner`
            k = 0
            while k < len(body) and isinstance(body[k], ast.Assign):
                s = body[k]
                if len(s.targets) != 1 or not isinstance(s.targets[0], ast.Name):
                    raise TE(s, "assignment target is not a single name")
                zf = self._zfir(s.value, env)
                if zf is not None:
                    env, l = env.bind(s.targets[0].id, "zfir", s)
                    lets += "  let %s : List α := %s\n" % (l, zf)
                else:
                    val = self.ex(s.value, env)
                    env, l = env.bind(s.targets[0].id, "num", s)
                    lets += "  let %s : α := %s\n" % (l, val)
                k += 1
            if not (len(body) == k + 2 and isinstance(body[k], ast.FunctionDef) and isinstance(body[k + 1], ast.Return)
                    and isinstance(body[k + 1].value, ast.Name) and body[k + 1].value.id == body[k].name):
                raise TE(fn, "closure shape: assignments; def inner; return inner")
            inner = body[k]
            _check_decorators(inner, False)
            body = _strip_doc(inner.body)
        params = _plain_params(inner)
        if spec["seq"] not in params:
            raise TE(inner, "input parameter %r not found" % spec["seq"])
        env.seq = spec["seq"]
        env.cur = spec["seq"]
        for p in params:
            if p == spec["seq"]:
                continue
            kind = spec["kinds"].get(p, "num")
            if kind == "lowpass":
                env.kinds[p] = (p, "lowpass")      # not a Lean parameter: stands for the pair (b, a)
                extra = "(b a : List α) "
            else:
                env.add_param(p, kind)
        is_gen = any(isinstance(x, (ast.Yield, ast.YieldFrom)) for x in ast.walk(inner))
        if mode == "ret":
            text = self.ret(body, env, "  ")
            rty = "Except String (List α)"
        elif is_gen:
            if mode == "stream":
                raise TE(inner, "generator where a stream expression is expected")
            text = self.gen(body, env, lambda e, i: i + "[]", "  ")
            rty = "List %s" % ("Nat" if self.out_nat else "α")
        else:
            if mode == "gen":
                raise TE(inner, "not a generator any more")
            if len(body) != 1 or not isinstance(body[0], ast.Return) or body[0].value is None:
                raise TE(inner, "stream function must be a single return")
            text = "  " + self.stream(body[0].value, env)
            rty = "List α"
        # zfir locals are lists; they are not loop state here
        binders = " ".join("(%s : %s)" % (l, TY[k]) for _, l, k in env.params)
        fl = "(fl : α → α) " if spec.get("fl") else ""
        head = "def %s %s%s%s%s(%s : List α) : %s :=\n" % (spec["lean"], fl, extra, binders, " " if binders else "", spec["seq"], rty)
        return "".join(d + "\n" for d in self.defs) + head + lets + text + "\n"


def translate_sources(sources):
    """sources: {file name: text} -> Lean text of Gen/C20Src.lean"""
    trees = {}
    out = ["/- GENERATED by harness/props/c20_tr.py from audiolazy/lazy_analysis.py and lazy_itertools.py (function bodies",
           "   read with `ast`; locals renamed v1, v2, ...).  Do not edit: rewritten on every check. -/",
           "import ALV.Model.C20", "namespace ALV.Gen.C20", "open ALV.C20", "variable {α : Type}", ""]
    for spec in FUNCS:
        if spec["file"] not in trees:
            with warnings.catch_warnings():
                warnings.simplefilter("ignore")      # invalid escape sequences in the docstrings of the source
                trees[spec["file"]] = ast.parse(sources[spec["file"]])
        fn = find_function(trees[spec["file"]], spec)
        try:
            text = FnTranslator(spec, fn).translate()
        except TranslationError as e:
            raise TranslationError("%s (%s): %s" % (spec["key"], spec["file"], e))
        sec = spec["lean"]
        out += ["/-! `%s` (%s) — model `%s` -/" % (spec["key"], spec["file"], spec["model"]),
                "section %s" % sec, "variable %s" % spec["section"], "", text.rstrip("\n"), "", "end %s" % sec, ""]
    out += ["end ALV.Gen.C20", ""]
    return "\n".join(out)


def read_sources():
    return {f: _src(f) for f in sorted({s["file"] for s in FUNCS})}


def committed_text():
    import subprocess
    r = subprocess.run(["git", "-C", common.VERIF, "show", "HEAD:lean/" + GEN_REL.replace(os.sep, "/")],
                       capture_output=True, text=True, timeout=30)
    return r.stdout if r.returncode == 0 and r.stdout else None


def regenerate(eng=None):
    """Rewrite lean/ALV/Gen/C20Src.lean.  On a translation failure the last COMMITTED file is put back (so that the build
    speaks about the last translatable state) and the error propagates (= broken obligation)."""
    path = os.path.join(common.LEAN, GEN_REL)
    try:
        text = translate_sources(read_sources())
    except Exception:
        try:
            good = committed_text()
            if good and (not os.path.exists(path) or open(path).read() != good):
                with open(path, "w") as f:
                    f.write(good)
        except Exception:
            pass
        raise
    old = open(path).read() if os.path.exists(path) else None
    if old != text:
        os.makedirs(os.path.dirname(path), exist_ok=True)
        with open(path, "w") as f:
            f.write(text)
        return "rewritten (%d bytes)" % len(text)
    return "unchanged (%d bytes)" % len(text)


# ------------------------------------------------------------------------------------------------------------
# self test: deliberately edited copies of the source text
# ------------------------------------------------------------------------------------------------------------
# (name, file, old text, new text, semantic?) — semantic edits must change the Gen text or fail to translate;
# the harmless ones must reproduce it byte for byte
EDITS = [
    ("clip: `el < high` -> `el <= high`", "lazy_analysis.py", "el if el < high else high", "el if el <= high else high", True),
    ("clip: error test `high < low` -> `high > low`", "lazy_analysis.py", "if high < low:", "if high > low:", True),
    ("clip: limits swapped in the two-sided branch", "lazy_analysis.py", "(low if el < low else el)", "(low if el < high else el)", True),
    ("zcross: crossing test `<` -> `>`", "lazy_analysis.py", "if el * last_sign < neg_hyst:", "if el * last_sign > neg_hyst:", True),
    ("zcross: sign constant -1 -> 1 in the second loop", "lazy_analysis.py",
     "      last_sign = -1 if el < 0 else 1\n      yield 1", "      last_sign = 1 if el < 0 else 1\n      yield 1", True),
    ("zcross: `break` dropped", "lazy_analysis.py", "# Define the first sign\n        break", "# Define the first sign\n        pass", True),
    ("zcross: yield and test reordered in the first loop", "lazy_analysis.py",
     "      yield 0\n      if (el > hysteresis) or (el < neg_hyst): # Ignores hysteresis region\n"
     "        last_sign = -1 if el < 0 else 1 # Define the first sign\n        break",
     "      if (el > hysteresis) or (el < neg_hyst): # Ignores hysteresis region\n"
     "        last_sign = -1 if el < 0 else 1 # Define the first sign\n        break\n      yield 0", True),
    ("unwrap: `d0 = d1` dropped", "lazy_analysis.py", "    yield d1 + delta\n    d0 = d1", "    yield d1 + delta", True),
    ("unwrap: `% -step` -> `% step`", "lazy_analysis.py", "(d_diff) % -step", "(d_diff) % step", True),
    ("unwrap: threshold `>` -> `>=`", "lazy_analysis.py", "if abs(d_diff) > max_delta:", "if abs(d_diff) >= max_delta:", True),
    ("unwrap: key=abs dropped from min", "lazy_analysis.py", ", key=lambda x: abs(x))", ")", True),
    ("maverage.deque: append before the new value is computed (statements reordered)", "lazy_analysis.py",
     "      new_value = el * size_inv\n      data.append(new_value)\n      mean_value += new_value",
     "      new_value = el * size_inv\n      mean_value += new_value\n      data.append(mean_value)", True),
    ("maverage.deque: initial deque filled with zero instead of zero * size_inv", "lazy_analysis.py",
     "deque((zero * size_inv for _ in xrange(size))", "deque((zero for _ in xrange(size))", True),
    ("maverage.deque: maxlen=size - 1", "lazy_analysis.py", "maxlen=size)", "maxlen=size - 1)", True),
    ("accumulate.func: `+=` -> `-=`", "lazy_itertools.py", "    sum_data += el", "    sum_data -= el", True),
    ("accumulate.func: first item not yielded", "lazy_itertools.py", "    return\n  yield sum_data\n  for el in iterator:",
     "    return\n  for el in iterator:", True),
    ("amdf: abs dropped", "lazy_analysis.py", "maverage(size)(abs(filt(sig, zero=zero)), zero=zero)",
     "maverage(size)(filt(sig, zero=zero), zero=zero)", True),
    ("amdf: lag filter `1 - z ** -lag` -> `1 + z ** -lag`", "lazy_analysis.py", "filt = (1 - z ** -lag)", "filt = (1 + z ** -lag)", True),
    ("envelope.abs: thub dropped AND abs -> square", "lazy_analysis.py", "return lowpass(cutoff)(abs(thub(sig, 1)))",
     "return lowpass(cutoff)(sig ** 2)", True),
    # harmless rewrites: same Gen text
    ("harmless: local `d_diff` renamed, comment and blank line added", "lazy_analysis.py", "d_diff", "dd", False),
    ("harmless: loop target renamed in accumulate.func", "lazy_itertools.py",
     "  for el in iterator:\n    sum_data += el", "  for item in iterator:  # next one\n\n    sum_data += (item)", False),
]


def selftest(sources=None):
    """-> list of (name, ok, detail)"""
    sources = sources or read_sources()
    base = translate_sources(sources)
    committed = committed_text()
    res = []
    for name, fname, old, new, semantic in EDITS:
        if sources[fname].count(old) < 1:
            # on the committed state of the repo every site exists; on an edited repo (the check then fails through
            # src_*_is_model / the byte comparison anyway) an edit whose site is gone is skipped
            clean = committed is not None and base == committed
            res.append((name, not clean, "edit site not found in the source" + (" (the self test needs updating)" if clean else
                                                                                  ": skipped, the source differs from the committed translation")))
            continue
        ed = dict(sources)
        ed[fname] = sources[fname].replace(old, new) if not semantic else sources[fname].replace(old, new, 1)
        try:
            t = translate_sources(ed)
            if semantic:
                res.append((name, t != base, "different Gen text" if t != base else "SAME Gen text: the translator does not see this edit"))
            else:
                res.append((name, t == base, "same Gen text" if t == base else "Gen text differs for a harmless rewrite"))
        except TranslationError as e:
            res.append((name, semantic, "TranslationError: %s" % str(e)[:140]))
    return base, res


if __name__ == "__main__":
    import sys
    if len(sys.argv) > 1 and sys.argv[1] == "selftest":
        b, r = selftest()
        for x in r:
            print(x)
    else:
        sys.stdout.write(translate_sources(read_sources()))
