"""C11, round 3 — the float regime and the call shapes of parcor / parcor_stable.

entry "fparcor": `list(parcor(ZFilter(num)))` and `parcor_stable(ZFilter([1], num))` on plain int /
float coefficients.  The Lean side runs the SAME loop as the theorems (ALV.C11.parcorFixedG, proved equal
to parcorFixed for sq = k*k) on binary64 bit patterns with `k ** 2` = libm pow, operation order of the code:
the comparison impl <-> twin is BIT FOR BIT (no tolerance).  The exact specification on the rational
values of the same coefficients is compared with a tolerance only where the recursion is well conditioned.

entry "flevinson" (round 4): `levinson_durbin(r, order)` on float autocorrelation data.  The Lean side runs the
recursion of the theorems (ALV.C11.levinsonG, proved equal to ALV.C11.levinson for the left-fold sum on any
carrier and for CPython's compensated sum over any field) on binary64 bit patterns with `sum` = CPython >= 3.12's
Neumaier summation: numerator and `error` are compared BIT FOR BIT; the exact recursion on the rational values
of the same numbers is compared with a tolerance where it is well conditioned.

entry "apply" (round 4): the call EXPRESSIONS `parcor(*args, **kwargs)` / `parcor_stable(*args, **kwargs)`: zero to
two positional arguments, keywords `fir_filt` / `filt` / a foreign name, objects of four kinds (a constructed
ZFilter with Laurent numerator / denominator; int / bool / Fraction; a Stream; float / complex / None / str / list /
tuple / dict / Poly); observed: which exception and WHEN (by the call expression or by the first next()), the
yields, the verdict - against ALV.C11.parcorApply / stableApply.

entry "call": any ZFilter(num, den) with Laurent numerator / denominator (negative powers, missing power 0,
leading / trailing zeros, constant / zero / feedback denominators), built from dicts, lists or z-expressions,
called positionally or by keyword.
"""
import struct
import common
from common import err_kind, enc, encl, dec, decl, close_list
from fractions import Fraction as F

ENTRIES = ("fparcor", "call", "flevinson", "apply")
TOL = F(1, 10**9)
EPS = F(1, 10**16)
SAFETY = 1000


def bits(x):
    return struct.unpack("<Q", struct.pack("<d", float(x)))[0]


def unbits(b):
    return struct.unpack("<d", struct.pack("<Q", b))[0]


def inexact_recip(g):
    g = float(g)
    return g != 0 and g * (1 / g) != 1.0


# ----------------------------------------------------------------------------------------------
# generation
# ----------------------------------------------------------------------------------------------
def _pmul_int(a, b):
    out = [0] * (len(a) + len(b) - 1)
    for i, x in enumerate(a):
        for j, y in enumerate(b):
            out[i + j] += x * y
    return out


def _step_up(ks, one):
    a = [one]
    for k in ks:
        ext = a + [0 * one]
        a = [x + k * y for x, y in zip(ext, ext[::-1])]
    return a


BAD_INTS = [g for g in range(1, 301) if inexact_recip(g)]      # 49, 98, 103, 107, ...


def case_f(num, how):
    return {"entry": "fparcor", "num": list(num), "how": how}


def gen_float(rng, n):
    out = []
    for _ in range(n):
        order = rng.choice([1, 2, 3, 3, 4, 4, 5, 6, 7, 8])
        t = rng.random()
        if t < 0.40:
            # integer denominator  c * prod (b_i - a_i z^-1): poles a_i / b_i known by construction, leading
            # coefficient c * prod b_i (e.g. 98 = 2*7*7: 98 * (1/98) != 1.0)
            f = [rng.choice([1, 1, 1, 2, 3, 7, 49, 103, 107])]
            for _ in range(order):
                b = rng.choice([1, 2, 3, 4, 5, 7, 7, 9, 10])
                a = rng.randint(-b + 1, b - 1) if rng.random() < .8 else rng.randint(-2 * b, 2 * b)
                f = _pmul_int(f, [b, -a])
            if f[-1] == 0:
                f[-1] = 1
            out.append(case_f(f, "int-poles"))
        elif t < 0.55:
            # leading int 1..300 (most of them with an inexact reciprocal), reflection vector chosen
            g = rng.choice(BAD_INTS) if rng.random() < .7 else rng.randint(1, 300)
            ks = [F(rng.randint(-9, 9), 10) for _ in range(order)]
            if ks[-1] == 0:
                ks[-1] = F(3, 10)
            a = _step_up(ks, F(1))
            out.append(case_f([g] + [float(g * x) for x in a[1:]], "int-lead"))
        elif t < 0.85:
            # random float lead, float step-up of a float reflection vector (|k| < 1 mostly)
            lim = 0.95 if rng.random() < .7 else 1.3
            ks = [rng.uniform(-lim, lim) for _ in range(order)]
            a = _step_up(ks, 1.0)
            g = rng.choice([1.0, rng.uniform(0.05, 20), -rng.uniform(0.05, 20), float(rng.choice(BAD_INTS))])
            out.append(case_f([g * x for x in a], "float-stepup"))
        elif t < 0.93:
            # near-critical in floats: one reflection coefficient within 1e-3 .. 1e-15 of +-1
            ks = [rng.uniform(-0.9, 0.9) for _ in range(order)]
            e = rng.randint(3, 15)
            ks[rng.randrange(order)] = rng.choice([1, -1]) * (1 + rng.choice([1, -1]) * 10.0 ** -e)
            if rng.random() < .15:
                ks[rng.randrange(order)] = rng.choice([1.0, -1.0])
            a = _step_up(ks, 1.0)
            g = rng.choice([1.0, 1.0, rng.uniform(0.05, 20), float(rng.choice(BAD_INTS))])
            out.append(case_f([g * x for x in a], "float-near-critical"))
        else:
            # raw coefficients (any conditioning: only the bit-exact twin judges these)
            g = rng.randint(1, 300)
            f = [g] + [rng.randint(-g, g) for _ in range(order)]
            if f[-1] == 0:
                f[-1] = 1
            if rng.random() < .5:
                f = [float(x) for x in f]
            out.append(case_f(f, "raw"))
    return out


def case_flev(r, order, how):
    return {"entry": "flevinson", "r": [float(x) for x in r], "order": order, "how": how}


def _acorr_from_ks(ks, r0):
    """float autocorrelation whose (exact) Levinson recursion has reflection coefficients close to ks"""
    r, a, e = [r0], [1.0], r0
    for m, k in enumerate(ks, 1):
        acc = sum(a[i] * r[m - i] for i in range(1, m))
        r.append(-k * e - acc)
        ext = a + [0.0]
        a = [x + k * y for x, y in zip(ext, ext[::-1])]
        e = e * (1 - k * k)
    return r


def gen_flev(rng, n):
    out = []
    for _ in range(n):
        order = rng.choice([1, 2, 3, 3, 4, 5, 6, 8])
        t = rng.random()
        if t < 0.45:
            # a positive definite autocorrelation: reflection coefficients chosen in (-0.95, 0.95)
            ks = [rng.uniform(-0.95, 0.95) for _ in range(order)]
            r = _acorr_from_ks(ks, rng.choice([1.0, 2.0, rng.uniform(0.1, 50)]))
            how = "float-from-ks"
        elif t < 0.60:
            # autocorrelation of a short random block (what lpc.autocor hands over)
            blk = [rng.uniform(-1, 1) for _ in range(rng.randint(order + 1, order + 12))]
            r = [sum(blk[i] * blk[i + l] for i in range(len(blk) - l)) for l in range(order + 1)]
            how = "float-acorr-of-block"
        elif t < 0.72:
            # integral-valued floats (exact products, sums below 2^53)
            r = [float(rng.randint(20, 60))] + [float(rng.randint(-9, 9)) for _ in range(order)]
            how = "float-integral"
        elif t < 0.82:
            # near-singular: one reflection coefficient within 1e-3 .. 1e-12 of +-1
            ks = [rng.uniform(-0.9, 0.9) for _ in range(order)]
            ks[rng.randrange(order)] = rng.choice([1, -1]) * (1 - 10.0 ** -rng.randint(3, 12))
            r = _acorr_from_ks(ks, 1.0)
            how = "float-near-singular"
        elif t < 0.90:
            # really singular in binary64: r = [c, c] / [c, -c] (k = -+1 at step 1) or r0 = 0
            c = rng.choice([1.0, 2.5, rng.uniform(0.1, 9)])
            r = rng.choice([[c, c], [c, -c], [0.0, c], [c, -c, c, -c]]) + [rng.uniform(-1, 1) for _ in range(order)]
            how = "float-singular"
        else:
            r = [rng.uniform(-3, 3) for _ in range(order + 1)]              # raw (indefinite): only the twin judges
            how = "raw"
        u = rng.random()
        if u < 0.7:
            r, o = r[:order + 1], order
        elif u < 0.85:
            o = max(1, order - rng.choice([1, 2]))                           # order below len(r) - 1
        else:
            o = order + rng.choice([1, 2])                                   # zero extension (appended int 0)
        out.append(case_flev(r, o, how))
    return out


RATIONAL_SPELL = ["int", "bool", "fraction"]
OTHER_SPELL = ["float", "complex", "none", "str", "list", "tuple", "dict", "poly"]


def _rand_obj(rng):
    t = rng.random()
    if t < 0.6:
        order = rng.choice([0, 1, 2, 3])
        u = rng.random()
        if u < 0.6:
            ks = [F(rng.randint(1, 4) * rng.choice([1, -1]), 5) for _ in range(order)]
            if rng.random() < .15 and ks:
                ks[rng.randrange(order)] = F(rng.choice([1, -1]))                 # ParCorError
            g = _rq(rng, 0)
            num = [g * x for x in _step_up(ks, F(1))]
        else:
            num = [_rq(rng, 0.1) for _ in range(order + 1)]
        v = rng.random()
        if v < 0.6:
            den = [_rq(rng, 0)]
        elif v < 0.8:
            den = [F(rng.randint(1, 5)), _rq(rng, 0)] + [_rq(rng, 0) for _ in range(rng.randint(0, 1))]   # feedback
        else:
            den = [F(0)] * rng.randint(1, 2) + [F(rng.randint(1, 4))]
        nl = rng.choice([0, 0, 0, 1, -1, 2])
        dl = rng.choice([0, 0, 0, 1, -1]) if rng.random() < .7 else nl
        return {"kind": "filt", "num_lo": nl, "num": encl(num), "den_lo": dl, "den": encl(den)}
    if t < 0.75:
        return {"kind": "rational", "spell": rng.choice(RATIONAL_SPELL)}
    if t < 0.82:
        return {"kind": "stream"}
    return {"kind": "other", "spell": rng.choice(OTHER_SPELL)}


def gen_apply(rng, n):
    out = []
    for _ in range(n):
        o, o2 = _rand_obj(rng), _rand_obj(rng)
        shape = rng.choice(["pos"] * 6 + ["kw-fir_filt"] * 3 + ["kw-filt"] * 3 +
                           ["kw-foreign", "none", "pos-pos", "pos+kw", "kw+kw"])
        if shape == "pos":
            args, kw = [o], []
        elif shape.startswith("kw-"):
            args, kw = [], [{"name": {"kw-fir_filt": "fir_filt", "kw-filt": "filt", "kw-foreign": "filter"}[shape], "obj": o}]
        elif shape == "none":
            args, kw = [], []
        elif shape == "pos-pos":
            args, kw = [o, o2], []
        elif shape == "pos+kw":
            args, kw = [o], [{"name": rng.choice(["fir_filt", "filt"]), "obj": o2}]
        else:
            args, kw = [], [{"name": "fir_filt", "obj": o}, {"name": "filt", "obj": o2}]
        out.append({"entry": "apply", "args": args, "kwargs": kw, "shape": shape})
    return out


def _build_obj(o):
    from audiolazy import ZFilter, Stream, Poly
    k = o["kind"]
    if k == "filt":
        num, den = decl(o["num"]), decl(o["den"])
        return ZFilter(dict((o["num_lo"] + i, x) for i, x in enumerate(num)),
                       dict((o["den_lo"] + i, x) for i, x in enumerate(den)))
    if k == "rational":
        return {"int": 3, "bool": True, "fraction": F(3, 2)}[o["spell"]]
    if k == "stream":
        return Stream([3, 1])          # FINITE: a changed parcor_stable that unpacks / iterates its argument must end
    return {"float": 2.5, "complex": 1j, "none": None, "str": "ab", "list": [1, 0.5], "tuple": (1,),
            "dict": {0: 1}, "poly": Poly([1, 2])}[o["spell"]]


class _Hang(BaseException):
    pass


def _watchdog(seconds, fn, *a):
    """run fn(*a) under an alarm: a call that does not come back (e.g. a changed parcor_stable iterating an endless
    Stream) is an observation {"when": "hang"}, not a hung check eating the machine's memory"""
    import signal
    def on_alarm(signum, frame):
        raise _Hang()
    try:
        old = signal.signal(signal.SIGALRM, on_alarm)
    except ValueError:                      # not the main thread: no watchdog
        return fn(*a)
    signal.setitimer(signal.ITIMER_REAL, seconds)
    try:
        return fn(*a)
    except _Hang:
        return {"when": "hang"}
    finally:
        signal.setitimer(signal.ITIMER_REAL, 0)
        signal.signal(signal.SIGALRM, old)


def _apply_parcor(args, kwargs):
    from audiolazy import parcor
    from audiolazy.lazy_lpc import ParCorError
    try:
        g = parcor(*args, **kwargs)
    except Exception as ex:
        return {"when": "call", "err": err_kind(ex)}
    ks, raised = [], False
    try:
        for k in g:
            ks.append(k)
    except ParCorError:
        raised = True
    except Exception as ex:
        return {"when": "next" if not ks else "mid-iteration", "err": err_kind(ex)}
    return {"when": "gen", "ks": encl(ks), "raised": raised, "float": any(isinstance(k, float) for k in ks)}


def _apply_stable(args, kwargs):
    from audiolazy import parcor_stable
    try:
        return {"when": "verdict", "verdict": bool(parcor_stable(*args, **kwargs))}
    except Exception as ex:
        return {"when": "call", "err": err_kind(ex)}


def case_call(num_lo, num, den_lo, den, build="dict", kw=False, spell="fraction"):
    c = {"entry": "call", "num_lo": num_lo, "num": encl(num), "den_lo": den_lo, "den": encl(den),
         "build": build, "kw": kw}
    if spell != "fraction":
        c["spell"] = spell
    return c


def _spell(xs, how):
    """numeric spelling of integer-valued coefficients: Fraction (default), plain int, bool where 0 / 1"""
    if how == "int" and all(x.denominator == 1 for x in xs):
        return [int(x) for x in xs]
    if how == "bool" and all(x.denominator == 1 for x in xs):
        return [bool(x) if x in (0, 1) else int(x) for x in xs]
    return list(xs)


def _rq(rng, zero=0.15):
    if rng.random() < zero:
        return F(0)
    return F(rng.randint(-8, 8) or 1, rng.choice([1, 2, 3, 4, 5]))


def gen_call(rng, n):
    out = []
    for _ in range(n):
        t = rng.random()
        if t < 0.55:
            den = [F(rng.randint(-6, 6) or 2, rng.choice([1, 2, 5]))]            # a constant
        elif t < 0.7:
            den = [F(rng.randint(1, 5)), _rq(rng, 0)] + [_rq(rng) for _ in range(rng.randint(0, 2))]   # feedback
        elif t < 0.8:
            den = [F(0)] * rng.randint(1, 2) + [F(rng.randint(1, 4))]           # a pure delay: shifted away
        elif t < 0.9:
            den = [F(rng.randint(1, 4))] + [F(0)] * rng.randint(1, 2)           # trailing zeros: compacted
        elif t < 0.95:
            den = [F(0)] * rng.randint(1, 2) + [F(2), F(1, rng.randint(2, 5))]
        else:
            den = [F(0)] * rng.randint(0, 2)                                    # the zero polynomial
        order = rng.choice([0, 1, 2, 3, 4])
        u = rng.random()
        if u < 0.5:
            ks = [F(rng.randint(-4, 4), 5) for _ in range(order)]
            g = _rq(rng, 0)
            num = [g * x for x in _step_up(ks, F(1))]
        else:
            num = [_rq(rng) for _ in range(order + 1)]
        num_lo = rng.choice([0, 0, 0, 0, 1, -1, 2, -2])
        den_lo = rng.choice([0, 0, 0, 0, 1, -1, 2, -2])
        if rng.random() < .3:
            num_lo = den_lo = rng.choice([-2, -1, 1, 2])          # a common shift
        build = rng.choice(["dict", "dict", "zexpr", "list"])
        if build == "list" and (num_lo != 0 or den_lo != 0):
            build = "dict"
        spell = "fraction"
        if rng.random() < .25:
            spell = rng.choice(["int", "bool"])
            num = [F(rng.choice([1, 1, 0, 2, -1, 3])) for _ in num]
            den = [F(round(x)) for x in den]
        out.append(case_call(num_lo, num, den_lo, den, build, rng.random() < .3, spell))
    return out


def generate(rng, tier, scale=1):
    quick = tier == "quick"
    n = (260 if quick else 3500) * scale
    cases = gen_float(rng, n) + gen_call(rng, (160 if quick else 1500) * scale)
    cases += gen_flev(rng, (200 if quick else 3000) * scale)
    cases += gen_apply(rng, (220 if quick else 2500) * scale)
    if scale == 1:
        cases.append(case_flev([12.0, 6.0, 0.0, -3.0, -6.0, -3.0, 0.0, 2.0, 4.0, 2.0], 3, "doc"))
        cases.append(case_flev([1.0, 2.0, 3.0, 4.0, 5.0, 3.0, 2.0, 1.0], 7, "doc"))
        cases.append(case_flev([0.1, 0.2, 0.3], 2, "doc"))
        cases.append(case_flev([1.0, 1.0, 1.0], 2, "float-singular"))
    if scale == 1:
        # every int lead 1..300 with a fixed, well conditioned order-3 pole set (1/2, 1/7, 3/7 scaled)
        for g in (range(1, 301) if not quick else BAD_INTS[:12] + [1, 2, 16]):
            a = _step_up([F(-1, 2), F(1, 3), F(-1, 5), F(2, 7)], F(1))
            cases.append(case_f([g] + [float(g * x) for x in a[1:]], "int-lead"))
    return cases


# ----------------------------------------------------------------------------------------------
# the real code
# ----------------------------------------------------------------------------------------------
def _drain(gen):
    from audiolazy.lazy_lpc import ParCorError
    out, raised = [], False
    try:
        for k in gen:
            out.append(k)
    except ParCorError:
        raised = True
    return out, raised


def impl(c):
    from audiolazy import ZFilter, parcor, parcor_stable, z
    e = c["entry"]
    if e == "fparcor":
        num = list(c["num"])
        o = {}
        try:
            ks, raised = _drain(parcor(ZFilter(list(num))))
            o["parcor"] = {"bits": [bits(k) for k in ks], "raised": raised,
                           "types": sorted(set(type(k).__name__ for k in ks))}
        except Exception as ex:
            o["parcor"] = {"err": err_kind(ex)}
        try:
            o["stable"] = bool(parcor_stable(ZFilter([1], list(num))))
        except Exception as ex:
            o["stable"] = {"err": err_kind(ex)}
        return o
    if e == "flevinson":
        from audiolazy import levinson_durbin
        from audiolazy.lazy_lpc import ParCorError
        try:
            f = levinson_durbin(list(c["r"]), c["order"])
        except ParCorError:
            return {"err": "ParCorError"}
        except Exception as ex:
            return {"err": err_kind(ex)}
        a = list(f.numerator)
        return {"a": [bits(x) for x in a], "error": bits(f.error),
                "types": sorted(set(type(x).__name__ for x in a + [f.error]))}
    if e == "apply":
        try:
            args = [_build_obj(o) for o in c["args"]]
            kwargs = dict((p["name"], _build_obj(p["obj"])) for p in c["kwargs"])
        except Exception as ex:
            return {"construct_err": err_kind(ex)}
        o = {"parcor": _watchdog(5, _apply_parcor, args, kwargs)}
        # fresh objects for the second call (a Stream argument is consumed by the first)
        args = [_build_obj(o_) for o_ in c["args"]]
        kwargs = dict((p["name"], _build_obj(p["obj"])) for p in c["kwargs"])
        o["stable"] = _watchdog(5, _apply_stable, args, kwargs)
        return o
    if e == "call":
        num, den = _spell(decl(c["num"]), c.get("spell")), _spell(decl(c["den"]), c.get("spell"))
        nl, dl = c["num_lo"], c["den_lo"]
        build = c.get("build", "dict")
        try:
            if build == "list":
                filt = ZFilter(list(num), list(den))
            elif build == "zexpr" and num and den:
                filt = sum(x * z ** -(nl + i) for i, x in enumerate(num)) / \
                       sum(x * z ** -(dl + i) for i, x in enumerate(den))
            else:
                filt = ZFilter(dict((nl + i, x) for i, x in enumerate(num)),
                               dict((dl + i, x) for i, x in enumerate(den)))
        except Exception as ex:
            return {"construct_err": err_kind(ex)}
        o = {}
        try:
            ks, raised = _drain(parcor(fir_filt=filt) if c.get("kw") else parcor(filt))
            o["parcor"] = {"ks": encl(ks), "raised": raised, "float": any(isinstance(k, float) for k in ks)}
        except Exception as ex:
            o["parcor"] = {"err": err_kind(ex)}
        try:
            o["stable"] = bool(parcor_stable(filt=filt) if c.get("kw") else parcor_stable(filt))
        except Exception as ex:
            o["stable"] = {"err": err_kind(ex)}
        o["denpoly"] = encl(list(filt.denpoly.values()))
        return o
    raise ValueError("unknown entry " + e)


def request(c):
    if c["entry"] == "fparcor":
        return {"entry": "fparcor", "bits": [bits(x) for x in c["num"]]}
    if c["entry"] == "apply":
        strip = lambda o: {k: v for k, v in o.items() if k != "spell"}
        return {"entry": "apply", "args": [strip(o) for o in c["args"]],
                "kwargs": [{"name": p["name"], "obj": strip(p["obj"])} for p in c["kwargs"]]}
    if c["entry"] == "flevinson":
        return {"entry": "flevinson", "bits": [bits(x) for x in c["r"]], "order": c["order"]}
    return {k: v for k, v in c.items() if k not in ("build", "kw", "spell")}


# ----------------------------------------------------------------------------------------------
# comparison
# ----------------------------------------------------------------------------------------------
def _float_err(ks):
    """estimated absolute error of a binary64 step-down whose exact reflection coefficients are `ks` (last
    first): eps * n * (largest intermediate coefficient) * prod max(1, 1/|1-|k||) * safety"""
    if not ks:
        return F(0)
    amp, big, a = F(1), F(1), [F(1)]
    for k in reversed(ks):
        if abs(k) == 1:
            return F(1)
        amp *= max(F(1), 1 / abs(1 - abs(k)))
        ext = a + [F(0)]
        a = [x + k * y for x, y in zip(ext, ext[::-1])]
        big = max(big, max(abs(x) for x in a))
    return EPS * len(ks) * big * amp * SAFETY


def compare(c, io, drv):
    e = c["entry"]
    out = []
    if e == "fparcor":
        tw = drv["twin"]
        if not drv["input_finite"] or not tw["finite"] or not drv["twin_mul"]["finite"]:
            io["compared"] = "not compared (non-finite)"
            return out
        p = io["parcor"]
        if "err" in p or isinstance(io["stable"], dict):
            out.append(("model", "impl raised %r / %r on a float filter" % (p.get("err"), io["stable"])))
            out.append(("spec", "impl raised on a float filter with a non-zero leading coefficient"))
            return out
        # 1. bit for bit against the twin (same loop as the theorems, k ** 2 = libm pow)
        io["compared"] = "bit-exact twin"
        same = p["bits"] == tw["bits"] and p["raised"] == tw["raised"]
        io["twin_mul_same"] = drv["twin_mul"]["bits"] == tw["bits"]
        if not same:
            out.append(("model", "parcor on floats %r raised=%s; binary64 twin %r raised=%s" % (
                [unbits(b) for b in p["bits"]], p["raised"], [unbits(b) for b in tw["bits"]], tw["raised"])))
        if io["stable"] != drv["twin_stable"]:
            out.append(("model", "parcor_stable on floats %s; binary64 twin %s" % (io["stable"], drv["twin_stable"])))
        # 2. against the exact specification on the same numbers, where the recursion is well conditioned
        ex = decl(drv["exact"]["ks"])
        bound = _float_err(ex)
        io["judged_vs_exact"] = False
        if not drv["exact"]["raised"] and bound <= TOL / 10:
            io["judged_vs_exact"] = True
            got = [F(unbits(b)) for b in p["bits"]]
            if p["raised"] or not close_list(got, ex, TOL):
                out.append(("spec", "parcor on floats yields %r raised=%s; exact reflection coefficients %r" % (
                    [unbits(b) for b in p["bits"]], p["raised"], [float(k) for k in ex])))
            if all(abs(abs(k) - 1) > 10 * TOL for k in ex) and io["stable"] != drv["exact_stable"]:
                out.append(("spec", "parcor_stable on floats %s but the exact verdict is %s" % (
                    io["stable"], drv["exact_stable"])))
        return out
    if e == "flevinson":
        tw = drv["twin"]
        if not drv["input_finite"] or ("err" not in tw and not tw["finite"]):
            io["compared"] = "not compared (non-finite)"
            return out
        io["compared"] = "bit-exact twin"
        io["fold_same"] = drv["twin_fold"] == tw
        if "err" in io or "err" in tw:
            if io.get("err") != tw.get("err"):
                out.append(("model", "levinson_durbin on floats: impl %r, binary64 twin %r" % (
                    io.get("err", "returns"), tw.get("err", "returns"))))
            if "err" in io and io["err"] != "ParCorError":
                out.append(("spec", "levinson_durbin on floats raised " + io["err"]))
            return out
        # 1. bit for bit: Poly keeps no zero coefficient, the twin's list is dense
        ta = list(tw["a"])
        while len(ta) > 1 and ta[-1] == 0:
            ta.pop()
        ia = [0 if unbits(b) == 0 else b for b in io["a"]]
        if ia != ta or io["error"] != tw["error"]:
            out.append(("model", "levinson_durbin on floats %r error %r; binary64 twin %r error %r" % (
                [unbits(b) for b in io["a"]], unbits(io["error"]), [unbits(b) for b in tw["a"]], unbits(tw["error"]))))
        # 2. against the exact recursion on the same numbers, where it is well conditioned
        ex = drv["exact"]
        io["judged_vs_exact"] = False
        if "err" not in ex:
            ks = decl(ex["ks"])
            r0 = abs(F(c["r"][0])) if c["r"] else F(1)
            scale_ = max([abs(F(x)) for x in c["r"]] + [F(1)]) / min(r0, F(1)) if r0 else None
            if scale_ is not None and all(abs(1 - k * k) > F(1, 20) for k in ks) and \
                    _float_err(ks[::-1]) * scale_ * len(c["r"]) <= TOL / 10:
                io["judged_vs_exact"] = True
                ga = [F(unbits(b)) for b in io["a"]]
                xa = decl(ex["a"])
                n = max(len(ga), len(xa))
                if not close_list(ga + [F(0)] * (n - len(ga)), xa + [F(0)] * (n - len(xa)), TOL):
                    out.append(("spec", "levinson_durbin on floats: numerator %r, exact %r" % (
                        [unbits(b) for b in io["a"]], [float(x) for x in xa])))
                rel = TOL * max(F(1), abs(dec(ex["spec_error"])))
                if abs(F(unbits(io["error"])) - dec(ex["spec_error"])) > rel:
                    out.append(("spec", "error %r is not r0*prod(1-k^2) = %r" % (unbits(io["error"]), float(dec(ex["spec_error"])))))
        return out
    if e == "apply":
        if "construct_err" in io:
            io["compared"] = "not compared (an argument could not be constructed)"
            return out
        io["compared"] = "exact"
        for fn in ("parcor", "stable"):
            i, m = io[fn], drv[fn]
            if i["when"] == "gen" and m["when"] == "gen":
                tol = 0
                if i["float"]:
                    ks = decl(m["ks"])
                    if any(abs(abs(k) - 1) < F(1, 10**6) for k in ks) or _float_err(ks) > TOL / 10:
                        io["compared"] = "not compared (float leak, ill conditioned)"
                        continue
                    tol = TOL
                if not (i["raised"] == m["raised"] and close_list(decl(i["ks"]), decl(m["ks"]), tol)):
                    out.append(("model", "%s(*args, **kwargs) yields %r raised=%s; model %r" % (fn, i["ks"], i["raised"], m)))
                    out.append(("spec", "%s through the call expression: wrong coefficients" % fn))
            elif {k: v for k, v in i.items() if k != "float"} != m:
                out.append(("model", "%s(*args, **kwargs): impl %r, model %r" % (fn, i, m)))
                if i.get("err") == "ParCorError" or (m["when"] in ("gen", "verdict")) != (i["when"] in ("gen", "verdict")):
                    out.append(("spec", "%s through the call expression: %r, expected %r" % (fn, i, m)))
        return out
    if e == "call":
        mp, ms = drv["parcor"], drv["stable"]
        if "construct_err" in io:
            io["compared"] = "constructor raised"
            if not (isinstance(ms, dict) and ms.get("err") == io["construct_err"] and mp.get("err") == io["construct_err"]):
                out.append(("model", "ZFilter(...) raised %s; model: %r" % (io["construct_err"], ms)))
            return out
        if isinstance(ms, dict):
            return [("model", "model: the construction raises %r, impl built a filter" % (ms,))]
        if io["denpoly"] != drv["shifted_den"]:
            out.append(("model", "denpoly after the constructor %r; model %r" % (io["denpoly"], drv["shifted_den"])))
        p = io["parcor"]
        io["compared"] = "exact"
        if "err" in p or "err" in mp:
            if p.get("err") != mp.get("err"):
                out.append(("model", "parcor: impl %r model %r" % (p.get("err", "no error"), mp.get("err", "no error"))))
            if p.get("err") == "ParCorError":
                out.append(("spec", "ParCorError outside the loop"))
        else:
            tol = 0
            if p["float"]:
                # Poly's float zero: an absent power is read back as `0.`
                tol = TOL
                io["compared"] = "tol 1e-9"
                sp = decl(drv["spec_parcor"]["ks"])
                if any(abs(abs(k) - 1) < F(1, 10**6) for k in sp + decl(mp["ks"])) or _float_err(sp) > TOL / 10:
                    io["compared"] = "not compared (float leak, ill conditioned)"
                    tol = None
            if tol is not None:
                if not (p["raised"] == mp["raised"] and close_list(decl(p["ks"]), decl(mp["ks"]), tol)):
                    out.append(("model", "parcor yields %r raised=%s; model %r" % (p["ks"], p["raised"], mp)))
                s = drv["spec_parcor"]
                if not (p["raised"] == s["raised"] and close_list(decl(p["ks"]), decl(s["ks"]), tol)):
                    out.append(("spec", "parcor yields %r raised=%s; spec %r" % (p["ks"], p["raised"], s)))
                if not p["raised"]:
                    # rebuilding (Props.C11.call_roundtrip): lead * step-up of the yields (read backwards) is the
                    # numerator after the constructor's shift, zeros compacted - non-monic, Laurent-shifted input
                    f = decl(drv["causal_num"])
                    while f and f[-1] == 0:
                        f.pop()
                    reb = [f[0] * x for x in _step_up([F(k) for k in decl(p["ks"])][::-1], F(1))] if f else []
                    io["rebuilt"] = True
                    if len(reb) != len(f) or not close_list(reb, f, tol):
                        out.append(("spec", "lead * step-up of the yielded coefficients %r does not rebuild the shifted "
                                            "numerator %r" % (encl(reb)[:8], encl(f)[:8])))
        if isinstance(io["stable"], dict):
            out.append(("model", "parcor_stable raised %r" % (io["stable"],)))
            out.append(("spec", "parcor_stable raised %r" % (io["stable"],)))
        elif io["compared"] != "not compared (float leak, ill conditioned)" or not p.get("float"):
            if io["stable"] != ms:
                out.append(("model", "parcor_stable=%s model=%s" % (io["stable"], ms)))
            if io["stable"] != drv["spec_stable"]:
                out.append(("spec", "parcor_stable=%s but the specification on the shifted denominator says %s" % (
                    io["stable"], drv["spec_stable"])))
        return out
    return [("model", "unknown entry")]


def nontrivial(c, io):
    if c["entry"] == "fparcor":
        return len(c["num"]) >= 2 and io.get("compared") == "bit-exact twin"
    if c["entry"] == "flevinson":
        return c["order"] >= 1 and io.get("compared") == "bit-exact twin"
    if c["entry"] == "apply":
        return "construct_err" not in io
    return "construct_err" not in io


def tally(eng, c, io):
    e = c["entry"]
    eng.count("compared:" + e, io.get("compared", "error branch"))
    if e == "fparcor":
        num = c["num"]
        eng.count("float_order", len(num) - 1)
        eng.count("float_how", c.get("how", "?"))
        eng.count("float_lead", "lead==1" if num[0] == 1 else
                  "lead*(1/lead)!=1.0" if inexact_recip(num[0]) else "lead*(1/lead)==1.0")
        eng.count("float_lead_type", type(num[0]).__name__)
        eng.count("float_judged_vs_exact", io.get("judged_vs_exact"))
        eng.count("float_pow_vs_mul_run", "same" if io.get("twin_mul_same", True) else "DIFFERENT (k**2 != k*k on a yielded k)")
        p = io.get("parcor", {})
        if "err" not in p:
            eng.count("float_parcor_branch", "ParCorError" if p.get("raised") else "completed")
            eng.count("float_stable", io.get("stable"))
    elif e == "apply":
        eng.count("apply_shape", c.get("shape", "?"))
        for o in c["args"] + [p["obj"] for p in c["kwargs"]]:
            eng.count("apply_object", o["kind"] + (":" + o["spell"] if "spell" in o else ""))
        if "construct_err" in io:
            eng.count("apply_parcor", "constructor:" + io["construct_err"])
            return
        for fn in ("parcor", "stable"):
            i = io[fn]
            eng.count("apply_" + fn, i["when"] + (":" + i["err"] if "err" in i else
                                                  ":ParCorError" if i.get("raised") else ""))
    elif e == "flevinson":
        eng.count("flev_order", c["order"])
        eng.count("flev_how", c.get("how", "?"))
        eng.count("flev_outcome", io.get("err", "returned"))
        eng.count("flev_order_vs_len", "order>=len(r)" if c["order"] >= len(c["r"]) else
                  "order=len(r)-1" if c["order"] == len(c["r"]) - 1 else "order<len(r)-1")
        eng.count("flev_judged_vs_exact", io.get("judged_vs_exact"))
        eng.count("flev_compensated_vs_fold_run", "same" if io.get("fold_same", True) else
                  "DIFFERENT (compensated sum != left fold)")
    else:
        eng.count("call_build", c.get("build", "dict") + ("+kw" if c.get("kw") else ""))
        eng.count("call_spelling", c.get("spell", "fraction"))
        eng.count("call_shift", "num_lo=%s den_lo=%s" % (("0" if c["num_lo"] == 0 else "<0" if c["num_lo"] < 0 else ">0"),
                                                        ("0" if c["den_lo"] == 0 else "<0" if c["den_lo"] < 0 else ">0")))
        if "construct_err" in io:
            eng.count("call_outcome", "constructor:" + io["construct_err"])
            return
        p = io["parcor"]
        eng.count("call_outcome", "parcor:" + (p["err"] if "err" in p else "ParCorError" if p["raised"] else "completed"))
        eng.count("call_stable", io["stable"] if not isinstance(io["stable"], dict) else "err")
        eng.count("call_rebuilt_checked", "%s lead%s1 shift%s0" % (
            bool(io.get("rebuilt")), "==" if decl(c["num"])[:1] == [F(1)] else "!=",
            "==" if c["num_lo"] == c["den_lo"] == 0 else "!="))


# ----------------------------------------------------------------------------------------------
# shrinking / neighbours / classification
# ----------------------------------------------------------------------------------------------
def shrink(c):
    e = c["entry"]
    if e == "fparcor":
        num = list(c["num"])
        for i in range(1, len(num)):
            v = num[:i] + num[i + 1:]
            if len(v) >= 2 and v[-1] != 0:
                yield case_f(v, c.get("how", "?"))
        for i in range(len(num)):
            for y in (0, 1, round(num[i]), round(num[i], 3), round(num[i], 1)):
                if y != num[i] and not (i in (0, len(num) - 1) and y == 0) and len(repr(y)) < len(repr(num[i])):
                    yield case_f(num[:i] + [y] + num[i + 1:], c.get("how", "?"))
    elif e == "apply":
        simple = {"kind": "filt", "num_lo": 0, "num": ["2", "1"], "den_lo": 0, "den": ["1"]}
        for i, o in enumerate(c["args"]):
            if o != simple:
                yield dict(c, args=c["args"][:i] + [simple] + c["args"][i + 1:])
            if o["kind"] == "filt" and (o["num_lo"] or o["den_lo"]):
                yield dict(c, args=c["args"][:i] + [dict(o, num_lo=0, den_lo=0)] + c["args"][i + 1:])
        for i, p in enumerate(c["kwargs"]):
            if p["obj"] != simple:
                yield dict(c, kwargs=c["kwargs"][:i] + [{"name": p["name"], "obj": simple}] + c["kwargs"][i + 1:])
            if len(c["kwargs"]) > 1:
                yield dict(c, kwargs=c["kwargs"][:i] + c["kwargs"][i + 1:])
    elif e == "flevinson":
        r, o = list(c["r"]), c["order"]
        if o > 1:
            yield case_flev(r, o - 1, c.get("how", "?"))
            yield case_flev(r[:o], o - 1, c.get("how", "?"))
        if len(r) > o + 1:
            yield case_flev(r[:o + 1], o, c.get("how", "?"))
        for i in range(len(r)):
            for y in (0.0, 1.0, float(round(r[i])), round(r[i], 3), round(r[i], 1)):
                if y != r[i] and len(repr(y)) < len(repr(r[i])):
                    yield case_flev(r[:i] + [y] + r[i + 1:], o, c.get("how", "?"))
    elif e == "call":
        num, den = decl(c["num"]), decl(c["den"])
        if c.get("spell"):
            yield case_call(c["num_lo"], num, c["den_lo"], den, c.get("build", "dict"), c.get("kw"))
        if c.get("kw"):
            yield case_call(c["num_lo"], num, c["den_lo"], den, c.get("build", "dict"), False)
        if c.get("build") != "dict":
            yield case_call(c["num_lo"], num, c["den_lo"], den, "dict", c.get("kw"))
        if c["num_lo"] != 0 or c["den_lo"] != 0:
            yield case_call(0, num, 0, den, c.get("build", "dict"), c.get("kw"))
            yield case_call(c["num_lo"] - c["den_lo"], num, 0, den, "dict", c.get("kw"))
        for i in range(len(num)):
            yield case_call(c["num_lo"], num[:i] + num[i + 1:], c["den_lo"], den, c.get("build", "dict"), c.get("kw"))
        for i in range(len(den)):
            if len(den) > 1:
                yield case_call(c["num_lo"], num, c["den_lo"], den[:i] + den[i + 1:], c.get("build", "dict"), c.get("kw"))
        for i in range(len(num)):
            for y in (F(0), F(1), F(1, 2)):
                if y != num[i]:
                    yield case_call(c["num_lo"], num[:i] + [y] + num[i + 1:], c["den_lo"], den, c.get("build", "dict"), c.get("kw"))


def neighbours(c):
    for s in shrink(c):
        yield s
    if c["entry"] == "fparcor":
        num = list(c["num"])
        for g in (1, 2, 49, 98, 103):
            yield case_f([g * float(x) / float(num[0]) for x in num], "neighbour")


def classify(c, io, drv):
    e = c["entry"]
    if e == "fparcor":
        return "fparcor:float-coefficients-differ-from-exact"
    if e == "apply":
        return "apply:%s/%s" % (io.get("parcor", {}).get("err") or io.get("parcor", {}).get("when"),
                                io.get("stable", {}).get("err") or io.get("stable", {}).get("when"))
    if e == "flevinson":
        return "flevinson:%s" % (io.get("err") or "float-result-differs-from-exact")
    p = io.get("parcor", {})
    return "call:%s" % (p.get("err") or "wrong-coefficients-or-verdict")


def extra_checks(eng):
    """the squaring function of the twin is the one CPython uses: libm pow on a fixed table"""
    import random
    rng = random.Random(20260929)
    xs = [rng.uniform(-3, 3) for _ in range(4000)] + [float(i) for i in range(-20, 21)] + \
         [1 - 2.0 ** -53, 1 + 2.0 ** -52, -1 + 2.0 ** -53, 1e-160, 1e150, 0.1, 1 / 3.0]
    try:
        r = eng.driver.batch([{"id": "C11", "entry": "fpow", "bits": [bits(x) for x in xs]}])[0]
        r = r.get("ok", r)
        pw = [bits(x ** 2) if x ** 2 != 0 else 0 for x in xs]
        ml = [bits(x * x) if x * x != 0 else 0 for x in xs]
        ok = r["pow"] == pw and r["mul"] == ml
        ndiff = sum(1 for a, b in zip(pw, ml) if a != b)
        eng.count("libm_pow_vs_mul", "k**2 != k*k on %d of %d table entries" % (ndiff, len(xs)))
        yield ("float-twin-pow-is-cpython-pow", ok,
               "Float.pow(k, 2) / k*k of the driver differ from CPython's k ** 2 / k * k on the fixed table")
        # 1 - k**2 == 0 only for |k| == 1 (the ParCorError test is an exact one in floats, too)
        edge = [1 - 2.0 ** -53, 1 + 2.0 ** -52, -(1 - 2.0 ** -53), -(1 + 2.0 ** -52)]
        yield ("float-1-minus-k2-zero-only-at-unit", all(1 - k ** 2 != 0 for k in edge) and 1 - 1.0 ** 2 == 0,
               "1 - k ** 2 == 0.0 for a float k next to 1")
    except Exception as ex:
        yield ("float-twin-pow-is-cpython-pow", False, "driver fpow failed: %r" % (ex,))
    # the decoder / encoder of bit patterns: identity on every finite pattern and the infinities, -0.0 -> +0.0
    try:
        pats = [bits(x) for x in xs[:600]] + [0, 1 << 63, 1, (1 << 63) | 1, 0x7ff0000000000000, 0xfff0000000000000,
                                              0x000fffffffffffff, 0x0010000000000000, 0x7fefffffffffffff, bits(1.0), bits(-1.0)]
        r = eng.driver.batch([{"id": "C11", "entry": "fbits", "bits": pats}])[0]
        r = r.get("ok", r)
        want = [0 if b == (1 << 63) else b for b in pats]
        wfin = [abs(unbits(b)) != float("inf") for b in pats]
        yield ("float-bits-roundtrip", r["bits"] == want and r["finite"] == wfin,
               "F64.ofBits / F64.bits / F64.isFinite of the driver are not the identity / isfinite on the table")
    except Exception as ex:
        yield ("float-bits-roundtrip", False, "driver fbits failed: %r" % (ex,))
    # the summation function of the Levinson twin is the builtin sum of THIS interpreter on floats
    try:
        ls = [[rng.uniform(-1, 1) * 10.0 ** rng.randint(-3, 3) for _ in range(rng.randint(1, 30))] for _ in range(1500)]
        ls += [[1e16, 1.0, -1e16], [1.0, 1e100, 1.0, -1e100], [0.1] * 10, [-0.0, 0.0], [1e308, 1e308, -1e308], [3.0]]
        r = eng.driver.batch([{"id": "C11", "entry": "fsum", "lists": [[bits(x) for x in l] for l in ls]}])[0]
        r = r.get("ok", r)
        nz = lambda v: bits(v) if v != 0 else 0
        want = [nz(sum(l)) for l in ls]
        def fold(l):
            s_ = 0.0
            for x in l:
                s_ = s_ + x
            return s_
        wfold = [nz(fold(l)) for l in ls]
        fin = [i for i, l in enumerate(ls) if sum(l) == sum(l) and abs(sum(l)) != float("inf")]
        ok = all(r["sum"][i] == want[i] and r["fold"][i] == wfold[i] for i in fin)
        eng.count("builtin_sum_vs_left_fold", "sum(l) != left fold on %d of %d table entries" % (
            sum(1 for i in fin if want[i] != wfold[i]), len(fin)))
        yield ("float-twin-sum-is-cpython-sum", ok,
               "sumPyG F64.isFinite / lsum of the driver differ from the builtin sum / the left fold on the fixed table")
    except Exception as ex:
        yield ("float-twin-sum-is-cpython-sum", False, "driver fsum failed: %r" % (ex,))
