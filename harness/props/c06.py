"""C06 — time-varying coefficients are sampled once per output sample.

Tie (DESIGN.md 3.2 / section 7 C06):
  (i)   T3: `lazy_filters._exec_eval` is wrapped from here (no repo change) to capture the source
        that `LinearFilter.__call__` generates for Stream coefficients; the source is parsed with
        `ast` into the canonical IR (C04's, extended by the summands `next(b{k}) * d{k}` /
        `-next(a{k}) * m{k}` and the argument list) and compared STRUCTURALLY with the IR of the
        Lean `compileTV` for the same coefficients;
  (ii)  I/O differential in exact arithmetic (Fraction samples, Fraction stream items, integer
        constants) against the Lean model (`callTV`: the generated loop run with one iterator per
        coefficient argument, incl. the variable-gain rewriting) and the Lean spec (`specCallTV`:
        the time-varying difference equation over unbounded histories);
  (iii) pull counts: every coefficient source and the input are counting iterators; the outputs are
        consumed one at a time and after output k every source must have been pulled exactly k
        times (`reads_once`), the final counts are compared with the iterator positions of the model;
  (v)   entry "call2": two-call histories on the SAME filter object (first output consumed to its end,
        then the object is called again with its own input / memory / zero): the Lean model `callTwice`
        (the code as it is: iterators as the first call left them; a Stream-gain call deletes
        `denpoly[0]` of the object) and the contract `specCallTwice` (coefficient streams continued);
  (vi)  entry "hub" (harness/props/c06hub.py): leaves are real `Stream(itertools.repeat(c, n))`, `count`, `islice`,
        generator, list iterator, counting source, raising source, ControlStream; each used m >= 2 times by
        `Poly.__mul__` / `Poly.__truediv__` / the Stream-gain rewriting, or stored directly twice; the Lean machine
        `ALV.C06.Hub.callH` (tee groups with shared buffers) predicts outputs, the pulls of every SOURCE after every
        output, the pulls when the generator has ended, and 0 pulls when `filt(x)` returns;
  (iv)  entry "expr": the filter is built by an expression tree over `z**-k`, numbers and Streams
        with + - * / (ZFilter / Poly arithmetic, thub bookkeeping inside `Poly.__mul__`); the Lean
        model evaluates the same tree with the C07 `Poly` model instantiated at stream coefficients.
"""
import ast
import json
import re
import warnings
from fractions import Fraction

import common
from common import enc, dec, err_kind
from props.c04 import val, tag, exact, Unparsed, _var, _is_const, _flat_sum, _mem_obj, _memory
from props.c04 import _fold as _fold_c04
from props import c06hub as hub
from props import c06_tr as tr


def _fold(node):
    """constant expression of the generated source -> exact rational.  C04's folder works over the
    Gaussian rationals since round 3; the C06 model is over the rationals, so a constant with an
    imaginary part is outside what this slice parses."""
    g = _fold_c04(node)
    if hasattr(g, "im"):
        if g.im != 0:
            raise Unparsed("complex constant in a time-varying filter loop")
        return g.re
    return g

ID = "C06"
RULE = ("random causal filter shapes (numerator order 0..4, denominator order 0..4) in which every coefficient is "
        "independently an integer constant (0, +1, -1, other) or a Stream fed by a counting source (finite: shorter "
        "than / equal to / longer than the input, empty; periodic with period 1..4; RAISING: ValueError instead of the "
        "end), the gain a0 being 1, -1, another constant or a Stream (variable-gain path); built from dicts, dense "
        "lists, Poly objects, from `Stream*z**-k` / `z**-k*Stream` sums and quotients, from the LinearFilter base class, "
        "with a numerator / denominator Poly divided by a Stream or by a Poly (one term, none, several), with the "
        "gain assigned on the built object (`filt.denpoly[0] = 0 | number | Stream`), and (entry expr) from expression "
        "trees with + - * / over such filters; the coefficient iterable handed in as Stream, plain generator, list, "
        "tuple, StreamTeeHub or ControlStream; Fraction inputs of length 0..12 (quick) / 0..40 (thorough); zero value 0 "
        "or not, spelled Fraction / int / float / bool or left to its default; memory None, list / tuple / deque / "
        "generator / Stream / iterator shorter than, equal to or longer than needed, endless generator, callable; "
        "call shape keyword / positional / mixed / memory=None explicit; a malformed stream (negative delays, zero "
        "inside a Stream gain); two-call histories (entry call2): the same shapes with the input split at a random "
        "point into the inputs of two successive calls of one filter object, the second with its own memory / zero "
        "value, incl. histories whose first call is refused (non-causal).  A case is non-trivial when the impl "
        "yields at least one sample or raises; distinct = distinct JSON case")
TRUSTED = [
    "hand-written Lean model ALV/Model/C06.lean of LinearFilter.__call__ with Stream coefficients (modelled, not "
    "verified: a Stream as the list of items it delivers, one iterator per coefficient argument of the exec'd "
    "generator, Stream operators as map/zipWith, Poly arithmetic as the C07 model at the coefficient type "
    "`Coef`); inside Lean the model is proved equal to the specification, so the only unproved link is "
    "model <-> /repo, measured by this tie",
    "translator T3 in harness/props/c06.py (ast-parser of the generated generator source, built on C04's) — "
    "self-tested on seeded source edits (extra check) and cross-checked by the I/O differential on every case",
    "two-call histories: what a call leaves in the filter object (`objAfter`: polynomials untouched; constant gain: "
    "every coefficient Stream where the generated loop left its iterator (`advance`); Stream gain: every Stream the "
    "object holds one item further per output, the extra item a failed last evaluation may have taken being "
    "unobservable) is modelled by hand from LinearFilter.__call__ and measured by the entry call2 of this tie "
    "(outputs / error of the second call, powers of denpoly after the first call, pull counts over both calls)",
    "a coefficient iterable that raises is not an `Except`-valued stream in Lean: the model sees the items delivered "
    "before; that the exception reaches the caller after exactly the model's outputs, is not swallowed, and that the "
    "finished generator then stops, is checked on the impl observation only (harness code)",
    "float regime of a call (zero spelled int / bool / float or left to its default 0.0, integer Poly divisor): "
    "outputs are compared with relative tolerance 1e-6 against the exact model (source IR, pull counts, lengths "
    "and error kinds stay exact)",
    "itertools.tee / StreamTeeHub: in the list model (entries call / call2 / expr) the copies are independent "
    "iterators over the same items; in the machine ALV/Model/C06Hub.lean (entry hub) a tee group is a shared buffer "
    "with one position per copy over its upstream, Poly.__mul__ / __truediv__ / the Stream-gain rewriting allocate "
    "the groups; proved there: buffer length = max over copies for any nesting / interleaving, source pulls = buffer "
    "length and every copy reads the source's items in order for a hub directly over a source, exactly one pull per "
    "output for loops over such hubs; for NESTED hubs (hub over a product over hub copies: products of products, the "
    "Stream-gain path on Stream coefficients) that the source is pulled once per sample is measured by the entry hub "
    "on the real objects (pull counts read off itertools.repeat / count / list_iterator themselves), not proved",
    "builders mulHub / divHub / gainHub: hand-written, AND regenerated from the source on every run by the translator "
    "harness/props/c06_tr.py (ast -> lean/ALV/Gen/C06Src.lean; theorems src_mulHub_is_model, src_divHub_is_model, "
    "src_divTermHub_is_model, src_gainHub_is_model).  The translator trusts: (1) the Python subset semantics it assumes "
    "— statements run in order, a list comprehension / generator expression over iteritems(d) visits the items in "
    "dictionary order, nested `for` loops, `k in d` / `d[k] op= v` / `d[k] = v` on an OrderedDict, operands evaluated "
    "left to right, `x *= y` on a Poly is `x = x * y` (Poly has no __imul__), OrderedDict(pairs) keeps the pairs when "
    "the keys are distinct (only `k` / `k ± name` keys are admitted); (2) the vocabulary mapping of "
    "lean/ALV/Model/C06HubSrc.lean — thub(v, n) = the number itself or a tee group of n copies, every evaluation of an "
    "operator on a hub takes the next copy and IndexError when none is left, Stream op Stream / number = HC.op, "
    "Poly(d, zero=...) drops zero terms, Poly(x) of a coefficient, p[k] = 0 deletes / p[k] = 1 replaces in place or "
    "appends, p[k] of a missing power is zero, s.copy() = tee group of two whose copy 0 replaces s; (3) the leading "
    "`if not isinstance(other, Poly): other = Poly(other)` coercion and the isinstance dispatch of __truediv__ are "
    "matched literally, not modelled (the Lean definitions take the operands already as polynomials / coefficient).  "
    "Self-tested on every run (extra check translator-selftest: 10 deliberate edits seen, 5 harmless rewrites give the "
    "same text, the committed file is reproduced byte for byte)",
    "hand-written PE.build / callH / loopH (order of the next calls in one evaluation, what a failed evaluation leaves "
    "pulled) and the dispatch between the three builders: modelled from lazy_poly.py / lazy_filters.py, tied by "
    "outputs, per-output pull traces and final pull counts of the entry hub",
]
ASSUMPTIONS = [
    "a generator whose coefficient iterator meets StopIteration ENDS (D13 repaired in /repo: try / except "
    "StopIteration around the generated expression; the wrapper is peeled off textually before T3 parses)",
    "exact regime only: integer constants, Fraction stream items and samples (a non-integer Fraction constant is "
    "formatted as 'p/q' into the exec'd source and becomes a float: that is C04's float regime)",
    "a non-Stream iterable as the GAIN (generator, list) is outside the property (the code raises "
    "UnboundLocalError: it is neither the variable-gain path nor a constant); such cases are not generated",
    "a filter object whose gain was deleted (`filt.denpoly[0] = 0`) is outside the property: only the model's "
    "answer (ZeroDivisionError before anything is read, theorem no_gain_raises) is compared",
    "every Stream object is used once in the expression that builds the filter (the library's own rule: 'after "
    "declaring z as function of x and y, you should not use x and y anymore'); sharing goes through the "
    "library's thub / copy, which is what Poly.__mul__ and ZFilter.__add__ do internally.  What happens when the "
    "rule is broken — the same Stream object stored directly in m coefficients — is stated and tied too (theorem "
    "shared_stream_object, entry hub shape 'twice': m pulls per sample, the coefficients get interleaved items)",
    "the all-zero filter (no numerator, no feedback) with a Stream gain yields the zero value once per input "
    "without ever reading the gain stream (C04's clause for the all-zero filter); model and spec follow the code; "
    "Lean states the corner exactly: allzero_stream_gain / allzero_stream_gain_shape / "
    "allzero_stream_gain_not_shortest, and call_ends_with_shortest excludes that object and nothing else",
    "two-call histories: the first output is consumed to its end before the second call (interleaved consumption of "
    "two outputs that share coefficient iterators is outside the property); the contract for the second call is the "
    "same difference equation with every coefficient stream continued where the first call stopped reading",
    "a zero inside a Stream gain (a0[n] = 0) is outside the property (the equation does not determine y[n]); the "
    "tie only checks that the outputs before it agree and that ZeroDivisionError is raised there",
]
MANIFEST = {
    "technique": "Lean 4 refinement proof (generated time-varying loop with one iterator per coefficient argument = "
                 "difference equation with the n-th coefficient values over unbounded histories = the indexed "
                 "sentence of the property; variable-gain rewriting; ZFilter / Poly arithmetic and whole expression "
                 "trees read at time n = arithmetic of fractions of Laurent polynomials on the n-th items) + "
                 "translator tie T3 + translator c06_tr (Poly.__mul__, Poly.__truediv__ and the Stream-gain block of "
                 "LinearFilter.__call__ are re-read with ast on every run and written as Lean definitions "
                 "ALV.Gen.C06.mulHub / divHub / divTermHub / gainHub, proved equal to the hand-written hub model: "
                 "src_*_is_model) + exact I/O and pull-count differential over call shapes, memory kinds, "
                 "coefficient iterable kinds, raising sources and two-call histories",
    "note": "71 theorems; the hub builders are regenerated from the source (lean/ALV/Gen/C06Src.lean, counted hubs: "
            "no hub runs out of copies).  callTwice_eq_specCallTwice is proved for every two-call history (incl. those whose first "
            "output was ended by a coefficient stream).  PENDING: hub_nested_reads_once_PENDING (reads-once for NESTED "
            "hubs on the whole call; proved for hubs directly over their source, the max-over-copies invariant for any "
            "nesting; the statement is evaluated on every generated input of the entry hub).  The tee / thub bookkeeping is an operational "
            "machine (ALV.C06.Hub: sources, tee groups with shared buffers, Poly.__mul__ / __truediv__ / Stream-gain "
            "rewriting allocate the hubs) with theorems hub_advances_max_over_copies, hub_copy_is_real_copy, "
            "hub_finite_repeat, hub_reads_once(_per_sample), shared_stream_object, call_reads_nothing, hub_loop_step, "
            "tied on real itertools leaves by the entry hub.  The filter arithmetic clause is proved "
            "for every ZFilter operator on filter objects (zfilter_*_elementwise, exact up to the normalisation "
            "delay) and for every expression tree of any depth (expr_elementwise, expr_freeze, "
            "expr_constant_streams, expr_reads_once).  Two-call model follows the repaired code (D16, D13 fixed in "
            "/repo).  Known finding D22: Poly / one-term Poly with a Stream coefficient shares the Stream among all "
            "quotient coefficients (proposed_fixes/D22-poly-div-one-term-stream.diff)",
}

# ---------------------------------------------------------------------------------------------
# counting sources
# ---------------------------------------------------------------------------------------------
class Src(object):
    """iterator over the items of a source description, counting the items it delivers"""

    def __init__(self, desc):
        self.vals = [val(v) for v in desc["vals"]]
        self.periodic = desc["kind"] == "periodic"
        self.raising = desc["kind"] == "raising"     # the element after the last one RAISES (not StopIteration)
        self.pulls = 0
        self.attempts = 0

    def __iter__(self):
        return self

    def __next__(self):
        self.attempts += 1
        if self.periodic:
            v = self.vals[self.pulls % len(self.vals)]
        else:
            if self.pulls >= len(self.vals):
                if self.raising:
                    raise ValueError("coefficient source failed")
                raise StopIteration
            v = self.vals[self.pulls]
        self.pulls += 1
        return v

    next = __next__


def src_items(desc, n):
    """the items the source delivers, as a list long enough for n outputs"""
    vals = desc["vals"]
    if desc["kind"] == "periodic":
        return [vals[i % len(vals)] for i in range(n + 3)]
    return list(vals)


def src_len(desc):
    return None if desc["kind"] == "periodic" else len(desc["vals"])


def is_src(c):
    return isinstance(c, dict) and "src" in c


# ---------------------------------------------------------------------------------------------
# T3: generated source -> canonical IR (time-varying)
# ---------------------------------------------------------------------------------------------
_ARG = re.compile(r"^([ab])(\d+)$")


def _next_call(node):
    """next(b3) -> ('b', 3)"""
    if (isinstance(node, ast.Call) and isinstance(node.func, ast.Name) and node.func.id == "next"
            and len(node.args) == 1 and not node.keywords and isinstance(node.args[0], ast.Name)):
        m = _ARG.match(node.args[0].id)
        if m:
            return m.group(1), int(m.group(2))
    return None


def _atom(node):
    if isinstance(node, ast.Name):
        return ["var"] + _var(node)
    if isinstance(node, ast.UnaryOp) and isinstance(node.op, ast.USub) and isinstance(node.operand, ast.Name):
        return ["neg"] + _var(node.operand)
    if isinstance(node, ast.BinOp) and isinstance(node.op, ast.Mult) and isinstance(node.right, ast.Name):
        nx = _next_call(node.left)
        if nx is not None:
            return ["next", nx[0], nx[1]] + _var(node.right)
        if isinstance(node.left, ast.UnaryOp) and isinstance(node.left.op, ast.USub):
            nx = _next_call(node.left.operand)
            if nx is not None:
                return ["negnext", nx[0], nx[1]] + _var(node.right)
        return ["mul", enc(_fold(node.left))] + _var(node.right)
    raise Unparsed("not a summand: " + ast.dump(node)[:100])


def _expr(src, node):
    seg = ast.get_source_segment(src, node) or ""
    if isinstance(node, ast.UnaryOp) and isinstance(node.op, ast.USub) and seg.startswith("-(") and seg.endswith(")"):
        gain = ["negone"]
        body = node.operand
    elif isinstance(node, ast.BinOp) and isinstance(node.op, ast.Div):
        chain = []
        body = node
        while isinstance(body, ast.BinOp) and isinstance(body.op, ast.Div) and _is_const(body.right):
            chain.append(enc(_fold(body.right)))
            body = body.left
        chain.reverse()
        if not seg.startswith("(") or not chain:
            raise Unparsed("division without a parenthesised sum / constant gain: " + seg[:80])
        gain = ["div", chain[0]] if len(chain) == 1 else ["divchain"] + chain
    else:
        gain = ["one"]
        body = node
    return [_atom(t) for t in _flat_sum(body)], gain


def parse_source(src):
    """source of the generated `gen` -> canonical IR (same JSON shape as the Lean driver prints)"""
    try:
        mod = ast.parse(src)
        if len(mod.body) != 1 or not isinstance(mod.body[0], ast.FunctionDef) or mod.body[0].name != "gen":
            raise Unparsed("expected a single function gen")
        fn = mod.body[0]
        names = [a.arg for a in fn.args.args]
        if names[:3] != ["seq", "memory", "zero"] or fn.args.vararg or fn.args.kwarg or fn.args.kwonlyargs:
            raise Unparsed("arguments %r" % (names,))
        bargs, aargs = [], []
        for nm_ in names[3:]:
            m = _ARG.match(nm_)
            if not m:
                raise Unparsed("argument %r" % nm_)
            if m.group(1) == "b":
                if aargs:
                    raise Unparsed("b argument after an a argument: %r" % (names,))
                bargs.append(int(m.group(2)))
            else:
                aargs.append(int(m.group(2)))
        body = list(fn.body)
        nm = nd = 0
        if body and isinstance(body[0], ast.Assign) and isinstance(body[0].value, ast.Name) and body[0].value.id == "memory":
            tgt = body[0].targets
            if len(tgt) != 1 or not isinstance(tgt[0], ast.Tuple):
                raise Unparsed("memory unpacking")
            vs = [_var(e) for e in tgt[0].elts]
            if vs != [["m", i + 1] for i in range(len(vs))]:
                raise Unparsed("memory unpacked into %r" % (vs,))
            nm = len(vs)
            body.pop(0)
        if body and isinstance(body[0], ast.Assign) and isinstance(body[0].value, ast.Name) and body[0].value.id == "zero":
            vs = [_var(e) for e in body[0].targets]
            if vs != [["d", i + 1] for i in range(len(vs))]:
                raise Unparsed("zero assigned to %r" % (vs,))
            nd = len(vs)
            body.pop(0)
        if len(body) != 1 or not isinstance(body[0], ast.For) or body[0].orelse:
            raise Unparsed("expected exactly one for loop (got %s)" % [type(b).__name__ for b in body])
        loop = body[0]
        if not (isinstance(loop.iter, ast.Name) and loop.iter.id == "seq" and isinstance(loop.target, ast.Name)):
            raise Unparsed("loop header")
        st = loop.body
        if loop.target.id != "d0":
            if nm or nd or len(st) != 1 or not isinstance(st[0], ast.Expr) or not isinstance(st[0].value, ast.Yield):
                raise Unparsed("constant loop shape")
            if bargs or aargs:
                raise Unparsed("constant loop with coefficient arguments")
            zv = st[0].value.value
            if isinstance(zv, ast.Constant) and isinstance(zv.value, bool):
                return {"kind": "const", "zero": int(zv.value)}      # zero=False / zero=True formatted into the source
            return {"kind": "const", "zero": enc(_fold(zv))}
        if len(st) < 2 or not isinstance(st[0], ast.Assign) or len(st[0].targets) != 1 or _var(st[0].targets[0]) != ["m", 0]:
            raise Unparsed("first statement is not m0 = …")
        if not (isinstance(st[1], ast.Expr) and isinstance(st[1].value, ast.Yield)
                and isinstance(st[1].value.value, ast.Name) and st[1].value.value.id == "m0"):
            raise Unparsed("second statement is not yield m0")
        ssum, gain = _expr(src, st[0].value)
        shifts = []
        for s in st[2:]:
            if not isinstance(s, ast.Assign) or len(s.targets) != 1:
                raise Unparsed("shift statement")
            shifts.append(_var(s.targets[0]) + _var(s.value))
        return {"kind": "loop", "nm": nm, "nd": nd, "sum": ssum, "gain": gain, "shifts": shifts,
                "bargs": bargs, "aargs": aargs}
    except Unparsed as e:
        return {"kind": "unparsed", "why": str(e)}
    except SyntaxError as e:
        return {"kind": "unparsed", "why": "SyntaxError: %s" % e}


def strip_try(src):
    """The repair proposed for D13 wraps `m0 = …` in `try: … except StopIteration: return`.
    T3 compares the loop body; that wrapper (exactly that handler, nothing else) is peeled off,
    textually, so that the parenthesisation of the expression stays what the code wrote."""
    lines = src.split("\n")
    out, i, changed = [], 0, False
    while i < len(lines):
        line = lines[i]
        if line.strip() == "try:":
            ind = len(line) - len(line.lstrip())
            j = i + 1
            while j < len(lines) and (len(lines[j]) - len(lines[j].lstrip())) > ind:
                j += 1
            body = lines[i + 1:j]
            if (body and j + 1 < len(lines) and lines[j] == " " * ind + "except StopIteration:"
                    and lines[j + 1].strip() == "return"
                    and (len(lines[j + 1]) - len(lines[j + 1].lstrip())) > ind
                    and (j + 2 >= len(lines) or (len(lines[j + 2]) - len(lines[j + 2].lstrip())) <= ind)):
                extra = (len(body[0]) - len(body[0].lstrip())) - ind
                if all(b.startswith(" " * (ind + extra)) for b in body):
                    out.extend(b[extra:] for b in body)
                    i = j + 2
                    changed = True
                    continue
        out.append(line)
        i += 1
    return ("\n".join(out), True) if changed else (src, False)


# ---------------------------------------------------------------------------------------------
# the real code
# ---------------------------------------------------------------------------------------------
UNCOUNTED = ("list", "tuple", "control")       # coefficient kinds that bypass the counting source


def _coef_obj(c, srcs, descs=None):
    """a coefficient of the case -> the Python object handed to the library: a number, or an iterable of
    the kind the source description asks for (`as`): Stream (default), plain generator, list, tuple,
    StreamTeeHub with one copy, ControlStream (an endless constant)"""
    from audiolazy import Stream, thub, ControlStream
    if is_src(c):
        src = srcs[c["src"]]
        how = (descs[c["src"]].get("as", "stream") if descs else "stream")
        if how == "gen":
            return (v for v in src)
        if how == "list":
            return [val(v) for v in src_items(descs[c["src"]], descs[c["src"]].get("_n", 0))]
        if how == "tuple":
            return tuple(val(v) for v in src_items(descs[c["src"]], descs[c["src"]].get("_n", 0)))
        if how == "thub":
            return thub(Stream(src), 1)
        if how == "control":
            return ControlStream(val(descs[c["src"]]["vals"][0]))
        return Stream(src)
    return val(c)


def _zero_obj(c):
    """the zero value in the spelling the case asks for"""
    z = val(c["zero"])
    sp = c.get("zspell", "frac")
    if sp == "int" and z.denominator == 1:
        return int(z)
    if sp == "float":
        return float(z)
    if sp == "bool" and z in (0, 1):
        return bool(z)
    return z


def _call_kwargs(c, sec=None):
    """positional / keyword arguments of `filt(seq, memory=None, zero=0.)` in the shape the case asks for"""
    d = sec if sec is not None else c
    zero = _zero_obj(dict(c, zero=d["zero"]))
    mem = _mem_obj(_mem_norm(d.get("mem")))
    shape = c.get("shape", "kw")
    if shape == "pos":                    # filt(seq, memory, zero)
        return [mem, zero], {}
    if shape == "posmem":                 # filt(seq, memory, zero=zero)
        return [mem], {"zero": zero}
    if shape == "nozero":                 # zero left to its default 0.0 (only generated with zero == 0)
        return ([], {}) if mem is None else ([], {"memory": mem})
    kw = {"zero": zero}                   # "kw": filt(seq, zero=zero[, memory=memory]) — memory omitted when None
    if mem is not None or shape == "kwnone":
        kw["memory"] = mem
    return [], kw


def _mem_norm(m):
    if m is not None and "kind" not in m:
        return dict(m, kind="iter")
    return m


def _mem_req(m):
    m = _mem_norm(m)
    mm = {"kind": m["kind"]}
    if "vals" in m:
        mm["vals"] = [exact(v) for v in m["vals"]]
    for f in ("base", "step"):
        if f in m:
            mm[f] = exact(m[f])
    if "form" in m:
        mm["form"] = m["form"]
    return mm


def floaty(c):
    """the impl itself injects floats: a float zero value, the default zero 0.0, or an int / bool zero value
    (Python's int / int is a float: `(-m1) / (5)` with m1 = zero = 7)"""
    return (c.get("zspell") in ("float", "int", "bool") or c.get("shape") == "nozero"
            or any(not is_src(v) for _, v in (c.get("numpdiv") or [])))      # int / int constants are floats


def _build_call(c, srcs):
    from audiolazy import ZFilter, LinearFilter, z
    descs = [dict(d, _n=len(c["xs"])) for d in c.get("srcs", [])]
    num = [(k, _coef_obj(v, srcs, descs)) for k, v in c["num"]]
    den = [(k, _coef_obj(v, srcs, descs)) for k, v in c["den"]]
    route = c.get("route", "dict")
    if route == "list":
        # ZFilter(list, list): dense coefficient lists from delay 0 (only generated for such shapes)
        dn, dd = dict(num), dict(den)
        return ZFilter([dn.get(k, 0) for k in range(max(dn) + 1)] if dn else [],
                       [dd.get(k, 0) for k in range(max(dd) + 1)])
    if route == "poly":
        from audiolazy import Poly
        return ZFilter(Poly(dict(num)), Poly(dict(den)))
    if c.get("numpdiv") is not None:
        # Poly.__truediv__ by a Poly: one term (every coefficient / that term, powers shifted), none
        # (ZeroDivisionError), several (NotImplementedError)
        from audiolazy import Poly
        pd_ = Poly(dict((k, _coef_obj(v, srcs, descs)) for k, v in c["numpdiv"]))
        return (LinearFilter if route == "linear" else ZFilter)(Poly(dict(num)) / pd_, Poly(dict(den)))
    if route == "zexpr":
        # Stream*z**-k sums: ZFilter.__rmul__ / __radd__ / __add__ / __truediv__, Poly.__mul__ with thub
        n = sum(v * z ** -k for k, v in num) if num else ZFilter([0])
        d = sum(v * z ** -k for k, v in den)
        return n / d
    if route == "zmul":
        # z**-k * coefficient (ZFilter.__mul__ with a non-filter operand)
        n = sum(z ** -k * v for k, v in num) if num else ZFilter([0])
        d = sum(z ** -k * v for k, v in den)
        return n / d
    cls = LinearFilter if route == "linear" else ZFilter
    if c.get("numdiv") is not None or c.get("dendiv") is not None:
        # Poly.__truediv__ by a Stream: thub(other, len(self)), every coefficient / its own copy
        from audiolazy import Poly, Stream
        pn, pd = Poly(dict(num)), Poly(dict(den))
        if c.get("numdiv") is not None:
            pn = pn / Stream(srcs[c["numdiv"]["src"]])
        if c.get("dendiv") is not None:
            pd = pd / Stream(srcs[c["dendiv"]["src"]])
        return cls(pn, pd)
    return cls(dict(num), dict(den))


def _build_expr(t, srcs):
    """expression tree -> the real object (number, Stream or ZFilter)"""
    from audiolazy import Stream, z
    op = t[0]
    if op == "z":
        return z ** -t[1]
    if op == "c":
        return val(t[1])
    if op == "s":
        return Stream(srcs[t[1]])
    if op == "neg":
        return -_build_expr(t[1], srcs)
    a, b = _build_expr(t[1], srcs), _build_expr(t[2], srcs)
    if op == "add":
        return a + b
    if op == "sub":
        return a - b
    if op == "mul":
        return a * b
    if op == "div":
        return a / b
    raise ValueError("unknown op " + op)


def _coef_obs(v):
    from collections.abc import Iterable
    return "S" if isinstance(v, Iterable) else enc(v)


def impl(c):
    if c["entry"] == "hub":
        return hub.impl(c)
    import audiolazy.lazy_filters as lf
    from audiolazy.lazy_stream import MemoryLeakWarning
    srcs = [Src(d) for d in c.get("srcs", [])]
    xin = Src({"kind": "finite", "vals": c["xs"]})
    captured = []
    orig = lf._exec_eval

    def spy(data, expr):
        captured.append(data)
        return orig(data, expr)

    obs = {}
    stage = "init"
    lf._exec_eval = spy
    filt = res = it = None
    with warnings.catch_warnings(record=True) as wlist:
        warnings.simplefilter("always")
        try:
            filt = _build_expr(c["tree"], srcs) if c["entry"] == "expr" else _build_call(c, srcs)
            obs["numdict"] = [[k, _coef_obs(v)] for k, v in sorted(filt.numdict.items())]
            obs["dendict"] = [[k, _coef_obs(v)] for k, v in sorted(filt.dendict.items())]
            obs["pulls_at_build"] = [s.attempts for s in srcs]
            if c.get("setden0") is not None:
                # the user assigns the gain on the object (`Poly.__setitem__`; 0 deletes the entry)
                descs_ = [dict(d, _n=len(c["xs"])) for d in c.get("srcs", [])]
                filt.denpoly[0] = _coef_obj(c["setden0"], srcs, descs_)
                obs["dendict"] = [[k, _coef_obs(v)] for k, v in sorted(filt.dendict.items())]
            stage = "call"
            args, kw = _call_kwargs(c)
            res = filt(xin, *args, **kw)
            obs["pulls_at_call"] = [s.attempts for s in srcs] + [xin.attempts]
            stage = "iter"
            it = iter(res)
            out, trace = [], []
            while True:
                try:
                    y = next(it)
                except StopIteration:
                    break
                out.append(y)
                trace.append([s.pulls for s in srcs] + [xin.pulls])
            obs["out"] = [enc(y) for y in out]
        except Exception as e:
            if stage == "iter":
                obs["out"] = [enc(y) for y in out]
                # the caller goes on reading after the exception: a generator that raised is finished
                try:
                    y = next(it)
                    obs["after_err"] = "value"
                except StopIteration:
                    obs["after_err"] = "stop"
                except Exception as e2:
                    obs["after_err"] = err_kind(e2)
            obs["err"] = err_kind(e)
            obs["stage"] = stage
            obs["msg"] = str(e)[:80]
        finally:
            lf._exec_eval = orig
        if stage == "iter":
            obs["trace"] = trace
            obs["pulls"] = [s.pulls for s in srcs]
            obs["xpulls"] = xin.pulls
            obs["float_out"] = any(isinstance(y, float) for y in out)
            src_text = captured[-1] if captured else None
            obs["src"] = src_text
            if src_text is None:
                obs["ir"] = {"kind": "unparsed", "why": "no source captured"}
            else:
                body, wrapped = strip_try(src_text)
                obs["ir"] = parse_source(body)
                obs["wrapped"] = wrapped
            obs["n_exec"] = len(captured)
        if c["entry"] == "call2" and filt is not None:
            # the SAME filter object, called again after the first output was consumed to its end
            sec = c["second"]
            xin2 = Src({"kind": "finite", "vals": sec["xs"]})
            s2, out2, stage2 = {}, [], "call"
            try:
                obs["dendict_after"] = [[k, _coef_obs(v)] for k, v in sorted(filt.dendict.items())]
                args2, kw2 = _call_kwargs(c, sec)
                res2 = filt(xin2, *args2, **kw2)
                stage2 = "iter"
                for y in res2:
                    out2.append(y)
                s2["out"] = [enc(y) for y in out2]
                del res2
            except Exception as e:
                s2 = {"err": err_kind(e), "stage": stage2, "msg": str(e)[:80], "out": [enc(y) for y in out2]}
            s2["pulls"] = [s.pulls for s in srcs]
            s2["xpulls"] = xin2.pulls
            obs["second"] = s2
        del filt, res, it
    obs["leaks"] = sum(1 for w in wlist if issubclass(w.category, MemoryLeakWarning))
    return obs


def _coef_req(c, v, n):
    if is_src(v):
        return {"s": [exact(x) for x in src_items(c["srcs"][v["src"]], n)]}
    return exact(v)


def _tree_req(c, t, n):
    op = t[0]
    if op == "z":
        return ["z", t[1]]
    if op == "c":
        return ["c", exact(t[1])]
    if op == "s":
        return ["s", [exact(x) for x in src_items(c["srcs"][t[1]], n)]]
    return [op] + [_tree_req(c, u, n) for u in t[1:]]


def request(c):
    if c["entry"] == "hub":
        return hub.request(c)
    n = len(c["xs"]) + (len(c["second"]["xs"]) if c["entry"] == "call2" else 0)
    r = {"entry": c["entry"], "zero": exact(c["zero"]), "xs": [exact(x) for x in c["xs"]]}
    if c["entry"] == "call2":
        sec = c["second"]
        r["second"] = {"zero": exact(sec["zero"]), "xs": [exact(x) for x in sec["xs"]]}
        if sec.get("mem") is not None:
            r["second"]["mem"] = _mem_req(sec["mem"])
    if c["entry"] == "expr":
        r["tree"] = _tree_req(c, c["tree"], n)
    else:
        r["num"] = [[k, _coef_req(c, v, n)] for k, v in c["num"]]
        r["den"] = [[k, _coef_req(c, v, n)] for k, v in c["den"]]
        for f in ("numdiv", "dendiv", "setden0"):
            if c.get(f) is not None:
                r[f] = _coef_req(c, c[f], n)
        if c.get("numpdiv") is not None:
            r["numpdiv"] = [[k, _coef_req(c, v, n)] for k, v in c["numpdiv"]]
    if c.get("mem") is not None:
        r["mem"] = _mem_req(c["mem"])
    return r


# ---------------------------------------------------------------------------------------------
# comparison
# ---------------------------------------------------------------------------------------------
def _coef_shape(j):
    return "S" if isinstance(j, dict) else j


def _d13(c, io, ref):
    """impl died with RuntimeError inside the generator exactly where `ref` (model / spec outputs)
    ends because a coefficient stream ended before the input"""
    return (io.get("err") == "RuntimeError" and io.get("stage") == "iter" and "out" in ref
            and len(ref["out"]) < len(c["xs"]))


_TOL = [0]            # tolerance of the case under comparison (0 = exact; floats injected by the impl: 1e-6)


def _same(xs, ys):
    return len(xs) == len(ys) and all(common.close(dec(a), dec(b), _TOL[0]) for a, b in zip(xs, ys))


def _raising(c):
    """(source index, number of items before it raises) of the sources that raise instead of ending"""
    return [(i, len(d["vals"])) for i, d in enumerate(c.get("srcs", [])) if d["kind"] == "raising"]


D22_SIG = "call:Poly/one-term-Poly-with-Stream-coefficient:the-Stream-is-shared-by-all-quotient-coefficients(no-thub)"


def _d22(c):
    """Poly(num) / Poly({d: Stream}) with at least two stored numerator terms"""
    pd_ = c.get("numpdiv")
    if not pd_ or c["entry"] != "call":
        return False
    stored = {}
    for k, v in pd_:
        stored[k] = v
    stored = {k: v for k, v in stored.items() if is_src(v) or val(v) != 0}
    if len(stored) != 1 or not is_src(list(stored.values())[0]):
        return False
    nst = {}
    for k, v in c["num"]:
        nst[k] = v
    return sum(1 for v in nst.values() if is_src(v) or val(v) != 0) >= 2


def _pure_d13(probs):
    return (len(probs) == 2 and probs[0][0] == "model" and probs[0][1].startswith("RuntimeError (PEP 479)")
            and probs[1][0] == "spec" and probs[1][1].startswith("RuntimeError instead of the end"))


_VERDICT = {}          # case key -> was its mismatch exactly the known defect D13?


def _ckey(c):
    return json.dumps({k: v for k, v in c.items() if k != "_noD13"}, sort_keys=True)


def compare(c, io, drv):
    if c["entry"] == "hub":
        return hub.compare(c, io, drv)
    _TOL[0] = 1e-6 if floaty(c) else 0
    try:
        probs = _compare(c, io, drv)
    finally:
        _TOL[0] = 0
    if probs and len(_VERDICT) < 200000:
        _VERDICT[_ckey(c)] = _pure_d13(probs)
    if c.get("_noD13") and _pure_d13(probs):
        # a shrinking candidate of a failure that is NOT the known defect D13: do not let the
        # minimisation drift into D13 (which would then be reported as the known finding)
        return []
    return probs


def _obs_same(obs, ref):
    """second-call observation of the impl against a Lean observation {"err"} | {"out"}"""
    if "err" in ref:
        return obs.get("err") == ref["err"] and obs.get("stage") == "call"
    return "err" not in obs and _same(obs["out"], ref["out"])


def _obs_show(o):
    if "err" in o:
        return "%s at stage %s (%s) after %d outputs" % (o["err"], o.get("stage", "call"), o.get("msg", ""), len(o.get("out", [])))
    return "%r" % ([str(dec(y)) for y in o["out"][:8]],)


def _compare2(c, io, drv):
    """two calls of the same filter object"""
    model, spec = drv["model"], drv["spec"]
    c1 = dict(c, entry="call")
    out = list(_compare(c1, io, {"model": model["first"], "spec": spec["first"]}))
    if out or "second" not in io:
        return out              # the first call already disagrees / the constructor raised: no object
    s2, m2, p2 = io["second"], model["second"], spec["second"]
    ok_spec, ok_model = _obs_same(s2, p2), _obs_same(s2, m2)
    if not ok_spec:
        out.append(("spec", "second call of the same filter object: impl %s; the property (same difference equation, "
                            "coefficient streams continued after the %d outputs of the first call) gives %s" % (
                                _obs_show(s2), len(io.get("out", [])), _obs_show(p2))))
        if not ok_model:
            out.append(("model", "second call of the same filter object: impl %s, model %s" % (_obs_show(s2), _obs_show(m2))))
    elif not ok_model:
        out.append(("model", "second call of the same filter object: impl %s, model %s" % (_obs_show(s2), _obs_show(m2))))
    if "dendict_after" in io:
        if [k for k, _ in io["dendict_after"]] != [k for k, _ in io["dendict"]]:
            out.append(("model", "the first call changed the powers of denpoly: %r -> %r" % (io["dendict"], io["dendict_after"])))
    if ok_spec and "out" in s2:
        n1, n2, L1, L2 = len(c["xs"]), len(c["second"]["xs"]), len(io.get("out", [])), len(s2["out"])
        if L1 == n1 and L2 == n2:
            used = _used_sources(c1, io, model["first"])
            bad = [(i, p) for i, p in enumerate(s2["pulls"]) if i in used and p != L1 + L2]
            if bad or s2["xpulls"] != L2:
                out.append(("spec", "after two calls with %d + %d outputs the pull counts are %r (source, pulls), second "
                                    "input %d: every coefficient source must have been read once per output" % (
                                        L1, L2, bad, s2["xpulls"])))
    return out


D16_SIG = "call2:stream-gain:second-call-raises-ZeroDivisionError:first-call-deleted-denpoly[0]"


def _classify2(c, io, drv):
    model, spec = drv.get("model", {}), drv.get("spec", {})
    c1 = dict(c, entry="call")
    d1 = {"model": model.get("first", {}), "spec": spec.get("first", {})}
    if "second" not in io or _compare(c1, io, d1):
        return "call2:first-call:" + classify(c1, io, d1)
    probs = _compare2(c, io, drv)
    s2, m2, p2 = io["second"], model["second"], spec["second"]
    if (model.get("gainpath") and s2.get("err") == "ZeroDivisionError" and s2.get("stage") == "call"
            and m2.get("err") == "ZeroDivisionError" and "out" in p2 and [k for k, _ in probs] == ["spec"]
            and any(k == 0 for k, _ in io.get("dendict", []))
            and not any(k == 0 for k, _ in io.get("dendict_after", [[0, 0]]))):
        return D16_SIG
    if "err" in s2:
        kind = "raises-%s-at-%s" % (s2["err"], s2.get("stage"))
    elif "out" in p2 and len(s2["out"]) != len(p2["out"]):
        kind = "output-length"
    elif any("pull counts" in d for k, d in probs):
        kind = "pull-counts"
    else:
        kind = "output-values"
    return "call2:second-call:%s:expected-%s" % (kind, p2.get("err", "output"))


def _compare(c, io, drv):
    if c["entry"] == "call2":
        return _compare2(c, io, drv)
    out = []
    model, spec = drv["model"], drv["spec"]
    n = len(c["xs"])
    # --- errors before any output is asked for -------------------------------------------------
    if "err" in io and io.get("stage") != "iter":
        if model.get("err") != io["err"]:
            out.append(("model", "impl raised %s (%s: %s), model says %s" % (
                io["err"], io.get("stage"), io.get("msg"), model.get("err", "no error"))))
        if spec.get("err") != io["err"]:
            out.append(("spec", "impl raised %s (%s: %s), the property says %s" % (
                io["err"], io.get("stage"), io.get("msg"), spec.get("err", "no error"))))
        return out
    if "err" in model:
        out.append(("model", "model raises %s, impl ran" % model["err"]))
    if "err" in spec:
        out.append(("spec", "the property demands %s (negative delay / empty denominator), impl ran and gave %r" % (
            spec["err"], io.get("out", [])[:6])))
    if out:
        return out
    # --- a zero inside a Stream gain: outside the property, prefix + error kind only -----------------
    z0 = model.get("a0zero")
    if z0 is not None and z0 <= len(model["out"]) and z0 < n and model["ir"]["kind"] != "const":
        got = io.get("out", [])
        if not _same(got[:z0], model["out"][:z0]) or len(got) > max(z0, len(model["out"])):
            out.append(("model", "outputs before the zero of the gain stream differ: %r, model %r" % (got[:z0 + 1], model["out"][:z0])))
        if len(model["out"]) > z0 and not (io.get("err") == "ZeroDivisionError" and len(got) == z0):
            out.append(("model", "gain stream is 0 at sample %d: expected ZeroDivisionError after %d outputs, impl: %s after %d" % (
                z0, z0, io.get("err", "no error"), len(got))))
        return out
    # --- coefficients the filter object holds ---------------------------------------------------
    for name, pairs in (("numdict", model["num0"]), ("dendict", model["den0"])):
        want = sorted([k, _coef_shape(v)] for k, v in pairs)
        got = [[k, v] for k, v in io[name]]
        if [(k, v if v == "S" else dec(v)) for k, v in got] != [(k, v if v == "S" else dec(v)) for k, v in want]:
            out.append(("model", "%s of the filter object is %r, model %r" % (name, got, want)))
    # --- nothing is read before the first output is asked for (lazy) -------------------------------
    if any(io.get("pulls_at_call", [])):
        out.append(("model", "sources read before the first output was asked for: %r" % (io["pulls_at_call"],)))
    # --- T3 -----------------------------------------------------------------------------------
    if io["ir"] != model["ir"]:
        out.append(("model", "generated source differs from compileTV: impl IR %r, model IR %r; source:\n%s" % (
            io["ir"], model["ir"], io.get("src"))))
    # --- outputs ------------------------------------------------------------------------------
    got = io["out"]
    rz = _raising(c)
    L0 = len(model["out"])
    used0 = _used_sources(c, io, model) | ({i for i, d in enumerate(c.get("srcs", [])) if d.get("as", "stream") in UNCOUNTED}
                                            if c["entry"] != "expr" else set())
    # a raising source must raise when it is what ends the output (no other used source ends there too)
    must_raise = [i for i, ln in rz if i in used0 and ln == L0 and L0 < n and not any(
        j != i and j in used0 and src_len(d) == L0 for j, d in enumerate(c.get("srcs", [])))]
    if "err" in io and io["err"] == "ValueError" and "coefficient source failed" in io.get("msg", "") and rz:
        # (a) an element operation of a coefficient stream raised in the middle
        if not (_same(got, model["out"]) and L0 < n and any(ln == L0 for _, ln in rz)):
            out.append(("model", "a coefficient source raised after %d outputs (%r); the model (the source as a stream of "
                                 "%r items) yields %d outputs %r" % (len(got), got[:8], [ln for _, ln in rz], L0, model["out"][:8])))
            out.append(("spec", "a coefficient source raised after %d outputs, the outputs before that point are not the "
                                "%d outputs of the difference equation" % (len(got), L0)))
        elif io.get("after_err") != "stop":
            out.append(("model", "after the exception of a coefficient source the caller read on and got %s: the generated "
                                 "generator is finished by the exception (next() must raise StopIteration)" % io.get("after_err")))
    elif "err" in io:
        # died while iterating
        if _d13(c, io, model) and _same(got, model["out"]):
            out.append(("model", "RuntimeError (PEP 479) where the model's generator ends: a coefficient stream ended "
                                 "after %d outputs, before the input (%d items)" % (len(got), n)))
        else:
            out.append(("model", "impl raised %s after %d outputs (%s), model yields %d outputs" % (
                io["err"], len(got), io.get("msg"), len(model["out"]))))
        if _d13(c, io, spec) and _same(got, spec["out"]):
            out.append(("spec", "RuntimeError instead of the end of the output: a coefficient stream ended after %d "
                                "outputs, before the input (%d items); the outputs before are right" % (len(got), n)))
        else:
            out.append(("spec", "impl raised %s after %d outputs (%s), the property gives %d outputs" % (
                io["err"], len(got), io.get("msg"), len(spec["out"]))))
    else:
        d = _diff(got, model["out"])
        if d:
            out.append(("model", "output differs from model: " + d))
        d = _diff(got, spec["out"])
        if d:
            out.append(("spec", "output violates the time-varying difference equation: " + d))
        if must_raise and not d:
            out.append(("model", "coefficient source %d raises ValueError at its item %d, which output %d needs, but the "
                                 "output just ended: the exception was swallowed" % (must_raise[0], L0, L0)))
    # --- reads: once per output, per source --------------------------------------------------------
    used = _used_sources(c, io, model)
    for k, row in enumerate(io.get("trace", []), 1):
        bad = [(i, p) for i, p in enumerate(row[:-1]) if i in used and p != k] + ([("x", row[-1])] if row[-1] != k else [])
        if bad:
            out.append(("spec", "after output %d the pull counts are %r (source, pulls): every coefficient source and "
                                "the input must have been read exactly %d times" % (k, bad, k)))
            break
    L = len(got)
    if "pulls" in io and not any(k == "spec" for k, _ in out):
        for i, p in enumerate(io["pulls"]):
            if i not in used:
                if p != 0:
                    out.append(("model", "source %d is not a coefficient of the filter but was read %d times" % (i, p)))
                continue
            if c["entry"] == "expr" and "err" in io:
                continue          # which tee copy is ahead when the generator dies is not modelled
            if not (L <= p <= L + 1) or (L == n and p != L):
                out.append(("spec", "source %d was read %d times for %d outputs (input of %d items)" % (i, p, L, n)))
        if not (L <= io["xpulls"] <= L + 1):
            out.append(("spec", "the input was read %d times for %d outputs" % (io["xpulls"], L)))
        # positions of the model's iterators (no algebra between the source and the loop argument)
        if c["entry"] == "call" and not model.get("gainpath") and not any(k == "spec" for k, _ in out):
            want = _model_positions(c, model)
            if want is not None and want != io["pulls"]:
                out.append(("model", "final pull counts %r, model iterator positions %r" % (io["pulls"], want)))
    if io.get("leaks") and not any(d.get("as") == "thub" for d in c.get("srcs", [])):
        # (a hub the CASE itself hands in as a coefficient may legitimately stay unused: all-zero filter, replaced gain)
        out.append(("model", "%d MemoryLeakWarning(s): a StreamTeeHub was built with more copies than were used "
                             "(model: hub size = number of uses)" % io["leaks"]))
    return out


def _diff(got, want):
    if len(got) != len(want):
        return "length %d instead of %d (got %r, want %r)" % (len(got), len(want), got[:8], want[:8])
    for i, (g, w) in enumerate(zip(got, want)):
        g, w = dec(g), dec(w)
        if isinstance(g, float) or not common.close(g, w, _TOL[0]):
            return "y[%d] = %s instead of %s" % (i, g, w)
    return None


def _used_sources(c, io, model):
    """indices of the (counting) sources that are coefficients of the filter the loop is generated from"""
    return {i for i in _used_sources_all(c, io, model)
            if c["srcs"][i].get("as", "stream") not in UNCOUNTED}


def _used_sources_all(c, io, model):
    if model.get("ir", {}).get("kind") == "const":
        return set()          # the all-zero filter: `for unused in seq: yield zero` reads no coefficient
    if c["entry"] == "expr":
        # a Stream multiplied into a term that the arithmetic dropped (`f * 0`) is no coefficient any
        # more: such a source is never read at all; every other one is read once per output
        return {i for i, p in enumerate(io.get("pulls", [])) if p != 0}
    dn = dict((k, v) for k, v in c["den"])
    used = {v["src"] for _, v in c["num"] + c["den"] if is_src(v)}
    if c.get("setden0") is not None:
        # the assigned gain replaces the delay-0 coefficient of the normalised denominator
        stored = [k for k, v in dn.items() if is_src(v) or val(v) != 0]
        if stored and is_src(dn[min(stored)]):
            used.discard(dn[min(stored)]["src"])
        if is_src(c["setden0"]):
            used.add(c["setden0"]["src"])
    if c.get("numpdiv") is not None and any(is_src(v) or val(v) != 0 for _, v in c["num"]):
        used |= {v["src"] for _, v in c["numpdiv"] if is_src(v)}     # (the empty dividend has no coefficient to divide)
    for f, side in (("numdiv", "num"), ("dendiv", "den")):
        # dividing the empty polynomial asks for no copy of the divisor (thub(other, 0))
        if c.get(f) is not None and any(is_src(v) or val(v) != 0 for _, v in c[side]):
            used.add(c[f]["src"])
    return used


def _tree_sources(t):
    if t[0] == "s":
        return [t[1]]
    if t[0] in ("z", "c"):
        return []
    return [s for u in t[1:] for s in _tree_sources(u)]


def _model_positions(c, model):
    """final pulls per source predicted by the model's iterator positions (entry call, no gain path)"""
    # delays after normalisation: the model lists [delay, consumed] in ascending delay; the case lists
    # sources by raw power; both ascending in the same order
    if (c.get("numdiv") is not None or c.get("dendiv") is not None or c.get("numpdiv") is not None
            or c.get("setden0") is not None or any(d.get("as", "stream") in UNCOUNTED for d in c.get("srcs", []))):
        return None
    pos = {}
    nsrc = sorted((k, v["src"]) for k, v in c["num"] if is_src(v))
    dsrc = sorted((k, v["src"]) for k, v in c["den"] if is_src(v))
    if len(nsrc) != len(model["bpos"]) or len(dsrc) != len(model["apos"]):
        return None
    for (_, s), (_, p) in zip(nsrc, model["bpos"]):
        pos[s] = p
    for (_, s), (_, p) in zip(dsrc, model["apos"]):
        pos[s] = p
    return [pos.get(i, 0) for i in range(len(c.get("srcs", [])))]


def nontrivial(c, io):
    if c["entry"] == "hub":
        return hub.nontrivial(c, io)
    return "err" in io or bool(io.get("out"))


# ---------------------------------------------------------------------------------------------
# classification (known findings)
# ---------------------------------------------------------------------------------------------
def classify(c, io, drv):
    if c["entry"] == "hub":
        return hub.classify(c, io, drv)
    _TOL[0] = 1e-6 if floaty(c) else 0
    try:
        return _classify(c, io, drv)
    finally:
        _TOL[0] = 0


def _classify(c, io, drv):
    if c["entry"] == "call2":
        return _classify2(c, io, drv)
    if _d22(c) and io.get("stage", "iter") == "iter" and "out" in drv.get("spec", {}) and io.get("ir") == drv.get("model", {}).get("ir"):
        # the generated source is right, one Stream object sits behind several loop arguments
        pd_src = [v["src"] for _, v in c["numpdiv"] if is_src(v)][0]
        k = len(io.get("out", []))
        if io.get("pulls", [0] * (pd_src + 1))[pd_src] > k:
            return D22_SIG
    model, spec = drv.get("model", {}), drv.get("spec", {})
    e = c["entry"]
    if "err" in io and io.get("stage") != "iter":
        return "%s:raises-%s-at-%s:expected-%s" % (e, io["err"], io.get("stage"), spec.get("err", "output"))
    if "err" in spec:
        return "%s:runs:expected-%s" % (e, spec["err"])
    probs = _compare(c, io, drv)
    spec_probs = [d for k, d in probs if k == "spec"]
    model_probs = [d for k, d in probs if k == "model"]
    if "err" in io:
        if (_d13(c, io, spec) and _same(io.get("out", []), spec["out"]) and len(spec_probs) == 1
                and len(model_probs) == 1 and model_probs[0].startswith("RuntimeError (PEP 479)")):
            return "call:coefficient-stream-ends-before-input:RuntimeError-instead-of-end-of-output"
        return "%s:raises-%s-while-iterating:%s" % (
            e, io["err"], "outputs-so-far-right" if _same(io.get("out", []), spec.get("out", [])[:len(io.get("out", []))])
            else "outputs-so-far-wrong")
    parts = []
    if any("generated source differs" in d for d in model_probs):
        ir, mir = io.get("ir", {}), model.get("ir", {})
        if ir.get("kind") != mir.get("kind"):
            parts.append("ir-kind-%s-vs-%s" % (ir.get("kind"), mir.get("kind")))
        else:
            parts.append("ir-" + "+".join(f for f in ("nm", "nd", "sum", "gain", "shifts", "zero", "bargs", "aargs")
                                          if ir.get(f) != mir.get(f)))
    if any("output violates" in d for d in spec_probs):
        parts.append("output-length" if len(io.get("out", [])) != len(spec.get("out", [])) else "output-values")
    if any("pull counts" in d or "was read" in d for d in spec_probs):
        parts.append("pull-counts")
    if any("MemoryLeakWarning" in d for d in model_probs):
        parts.append("thub-leak")
    if any("of the filter object" in d for d in model_probs):
        parts.append("coefficients")
    return "%s:" % e + ("+".join(parts) or "other")


# ---------------------------------------------------------------------------------------------
# generation
# ---------------------------------------------------------------------------------------------
INT_POOL = [0, 1, 1, -1, -1, 2, -2, 3, -3, 5]
SVAL_POOL = ["0/1", "1/1", "-1/1", "1/2", "-1/2", "1/3", "-2/3", "3/2", "2/1", "-3/1", "5/4", "1/1", "2/1"]
GVAL_POOL = ["1/1", "-1/1", "1/2", "-1/2", "2/1", "3/1", "-3/2", "2/3", "5/1", "-2/1"]


def _sample(rng):
    return tag(Fraction(rng.randint(-9, 9), rng.choice([1, 1, 2, 3, 4])))


def _source(rng, n, pool, early=None):
    """a source description; `early`: force a finite source shorter than the input"""
    r = rng.random()
    if early is True or (early is None and r < 0.22):
        ln = rng.choice([0, 1, max(0, n - 1), max(0, n - 2), rng.randint(0, max(0, n - 1))]) if n else 0
        return {"kind": "finite", "vals": [rng.choice(pool) for _ in range(ln)]}
    if r < 0.5:
        ln = rng.choice([n, n, n + 1, n + 3])
        return {"kind": "finite", "vals": [rng.choice(pool) for _ in range(ln)]}
    period = rng.choice([1, 1, 2, 3, 4])
    return {"kind": "periodic", "vals": [rng.choice(pool) for _ in range(period)]}


def _call_case(rng, max_len, p_stream=0.45, malformed=False):
    n = rng.choice([0, 1, 2, 3, 5, rng.randint(0, max_len)])
    lb = rng.choice([0, 1, 1, 2, 3, rng.randint(0, 5)])
    la = rng.choice([1, 1, 2, 3, rng.randint(1, 5)])
    srcs = []
    end_early = rng.random() < 0.3

    def coef(pool):
        if rng.random() < p_stream:
            srcs.append(_source(rng, n, pool, early=None if end_early else False))
            return {"src": len(srcs) - 1}
        return rng.choice(INT_POOL)

    num = [[k, coef(SVAL_POOL)] for k in range(lb)]
    den = [[k, coef(SVAL_POOL)] for k in range(la)]
    # the gain
    kind = rng.choice(["one", "one", "negone", "other", "stream", "stream"])
    if kind == "stream":
        g = _source(rng, n, GVAL_POOL, early=None if end_early else False)
        if malformed and g["vals"]:
            g["vals"][rng.randrange(len(g["vals"]))] = "0/1"
        if is_src(den[0][1]):
            srcs[den[0][1]["src"]] = g
        else:
            srcs.append(g)
            den[0][1] = {"src": len(srcs) - 1}
    else:
        if is_src(den[0][1]):
            # replace the Stream drawn for a0 by a constant and drop its source
            idx = den[0][1]["src"]
            srcs.pop(idx)
            for lst in (num, den):
                for kv in lst:
                    if is_src(kv[1]) and kv[1]["src"] > idx:
                        kv[1] = {"src": kv[1]["src"] - 1}
        den[0][1] = {"one": 1, "negone": -1, "other": rng.choice([2, -2, 3, -3, 5])}[kind]
    route = rng.choice(["dict", "dict", "zexpr", "zexpr", "zmul", "linear"])
    # sparse: drop constant zeros from the dict sometimes, common delay shift, a negative delay when malformed
    if rng.random() < 0.5:
        num = [kv for kv in num if is_src(kv[1]) or kv[1] != 0]
        den = [kv for kv in den if is_src(kv[1]) or kv[1] != 0]
    off = rng.choice([0, 0, 0, 1, 2])
    noff = off + (rng.choice([-1, -2]) if malformed and rng.random() < 0.5 else 0)
    num = [[k + noff, v] for k, v in num]
    den = [[k + off, v] for k, v in den]
    if off and rng.random() < 0.5:
        den.append([off - 1, 0])               # an explicit zero below the gain: dropped by Poly
    rng.shuffle(num)
    rng.shuffle(den)
    lm = max([k for k, _ in den]) - min([k for k, _ in den])
    mem = None
    if rng.random() < 0.25:
        mem = {"vals": [_sample(rng) for _ in range(lm + rng.choice([0, 0, 1]))]}
    case = {"entry": "call", "route": route, "num": num, "den": den, "srcs": srcs,
            "mem": mem, "zero": rng.choice(["0/1", "0/1", "0/1", "7/1", "-2/1"]),
            "xs": [_sample(rng) for _ in range(n)]}
    if route in ("dict", "linear") and rng.random() < 0.3:
        for f in ("numdiv", "dendiv"):
            if rng.random() < 0.6:
                srcs.append(_source(rng, n, GVAL_POOL, early=None if end_early else False))
                case[f] = {"src": len(srcs) - 1}
    return case


SAFE_ROUTES = ("dict", "linear", "list", "poly")     # no arithmetic on the coefficient object itself


def _decorate(rng, c, history=False):
    """dimensions of the call the first rounds never drew: memory kinds (short, longer, callable, endless
    generator, tuple / deque / Stream …), call shapes (positional, keyword, omitted), spellings of the zero
    value (Fraction / int / float / bool), kinds of coefficient iterables (generator, list, tuple, thub,
    ControlStream), a coefficient source that RAISES in the middle, an assigned gain on the built object,
    a numerator divided by a Poly"""
    n = len(c["xs"])
    lm = max([k for k, _ in c["den"]]) - min([k for k, _ in c["den"]])
    if rng.random() < 0.35:
        c["mem"] = _memory(rng, lm, "frac")
    if history and rng.random() < 0.3:
        c["second"]["mem"] = _memory(rng, lm, "frac")
    if rng.random() < 0.1:
        c["zero"] = "1/1"
    zero_is_0 = val(c["zero"]) == 0 and (not history or val(c["second"]["zero"]) == 0)
    r = rng.random()
    c["shape"] = ("kw" if r < 0.5 else "pos" if r < 0.65 else "posmem" if r < 0.75 else "kwnone" if r < 0.85
                  else "nozero" if zero_is_0 else "pos")
    r = rng.random()
    c["zspell"] = "frac" if r < 0.5 else "int" if r < 0.7 else "bool" if r < 0.88 else "float"
    if history:
        return c
    # route variety for plain shapes
    if c["route"] == "dict" and c.get("numdiv") is None and c.get("dendiv") is None:
        ks = [k for k, _ in c["num"] + c["den"]]
        dense_ok = (min(k for k, _ in c["den"]) == 0 and all(k >= 0 for k in ks) and len(set(k for k, _ in c["num"])) == len(c["num"])
                    and len(set(k for k, _ in c["den"])) == len(c["den"]))
        r = rng.random()
        if r < 0.12 and dense_ok:
            c["route"] = "list"
        elif r < 0.24:
            c["route"] = "poly"
    plain = c.get("numdiv") is None and c.get("dendiv") is None
    # kinds of coefficient iterables
    if c["route"] in SAFE_ROUTES and plain:
        stored = [k for k, v in c["den"] if is_src(v) or val(v) != 0]
        gain_src = None
        if stored:
            g = dict((k, v) for k, v in c["den"])[min(stored)]
            gain_src = g["src"] if is_src(g) else None
        for i, d in enumerate(c["srcs"]):
            if rng.random() < 0.45:
                if i == gain_src:
                    d["as"] = "thub"
                else:
                    kinds = ["gen", "thub", "list", "tuple"] + (["control"] if d["kind"] == "periodic" and len(d["vals"]) == 1 else [])
                    d["as"] = rng.choice(kinds)
    # a coefficient source that raises instead of ending
    fin = [i for i, d in enumerate(c["srcs"]) if d["kind"] == "finite" and d.get("as", "stream") not in UNCOUNTED]
    if fin and rng.random() < 0.12:
        i = rng.choice(fin)
        d = c["srcs"][i]
        if len(d["vals"]) >= n and n > 0 and rng.random() < 0.7:
            d["vals"] = d["vals"][:rng.randint(0, n - 1)]
        d["kind"] = "raising"
    # the gain assigned on the built object
    if plain and c["route"] in ("dict", "linear", "zexpr", "zmul") and rng.random() < 0.07:
        r = rng.random()
        if r < 0.5:
            c["setden0"] = 0
        elif r < 0.75:
            c["setden0"] = rng.choice([1, -1, 2, -3])
        else:
            c["srcs"].append(_source(rng, n, GVAL_POOL, early=False))
            c["setden0"] = {"src": len(c["srcs"]) - 1}
    # the numerator divided by a Poly
    elif (plain and c["route"] in ("dict", "linear") and rng.random() < 0.12
          and all(d.get("as", "stream") in ("stream", "thub") for d in c["srcs"]) and not _raising(c)):
        r = rng.random()
        d = rng.choice([0, 0, 1, -1])
        if r < 0.15:
            c["numpdiv"] = rng.choice([[], [[d, 0]]])
        elif r < 0.3:
            c["numpdiv"] = [[d, 2], [d + 1, 1]]
        elif r < 0.65:
            c["numpdiv"] = [[d, rng.choice([2, -1, 1, -2, 4])]]       # quotients of integers that are exact floats
        else:
            c["srcs"].append(_source(rng, n, GVAL_POOL, early=False))
            c["numpdiv"] = [[d, {"src": len(c["srcs"]) - 1}]]
    return c


def _call2_case(rng, max_len):
    """a two-call history: a call case whose sources are sized against the whole history, the input
    split into the inputs of the two calls"""
    c = _call_case(rng, max_len)
    for f in ("numdiv", "dendiv"):
        c.pop(f, None)
    c = _renumber(c)
    xs = c["xs"]
    n1 = rng.choice([len(xs) // 2, len(xs) // 2, rng.randint(0, len(xs)), rng.randint(0, len(xs))])
    lm = max([k for k, _ in c["den"]]) - min([k for k, _ in c["den"]])
    mem2 = None
    if rng.random() < 0.25:
        mem2 = {"vals": [_sample(rng) for _ in range(lm + rng.choice([0, 0, 1]))]}
    return dict(c, entry="call2", xs=xs[:n1],
                second={"xs": xs[n1:], "zero": rng.choice(["0/1", "0/1", c["zero"], "7/1"]), "mem": mem2})


def _call2_refused(rng, max_len):
    """a history whose FIRST call raises (a numerator term below the lowest denominator power: ValueError
    "Non-causal filter") — a failed call must leave no trace: the second call raises the same way and no
    source has been read"""
    c = _call2_case(rng, max_len)
    lo = min(k for k, _ in c["den"] if is_src(_) or _ != 0) if any(is_src(v) or v != 0 for _, v in c["den"]) else 0
    d = rng.choice([1, 2])
    if c["num"] and rng.random() < 0.7:
        sh = min(k for k, _ in c["num"]) - (lo - d)
        c["num"] = [[k - sh, v] for k, v in c["num"]]
        if not any(is_src(v) or v != 0 for k, v in c["num"] if k < lo):
            c["num"].append([lo - d, rng.choice([1, -2, 3])])
    else:
        c["num"] = c["num"] + [[lo - d, rng.choice([1, -2, 3])]]
    c["route"] = rng.choice(["dict", "dict", "linear", "poly"])
    return c


def _num_tree(rng, srcs, n, pool, allow_const=True):
    """a tree that evaluates to a number or a Stream"""
    r = rng.random()
    if allow_const and r < 0.3:
        return ["c", rng.choice([1, -1, 2, -2, 3])]
    if r < 0.8 or len(srcs) >= 5:
        srcs.append(_source(rng, n, pool, early=False if rng.random() < 0.8 else None))
        return ["s", len(srcs) - 1]
    op = rng.choice(["add", "sub", "mul", "neg"])
    if op == "neg":
        return ["neg", _num_tree(rng, srcs, n, pool, False)]
    a = _num_tree(rng, srcs, n, pool, False)
    b = _num_tree(rng, srcs, n, pool, True)
    return [op, a, b] if rng.random() < 0.5 else [op, b, a]


def _term(rng, srcs, n, kmin=0):
    k = rng.randint(kmin, kmin + 2)
    form = rng.random()
    if form < 0.2:
        return ["z", k]
    cf = _num_tree(rng, srcs, n, SVAL_POOL)
    return ["mul", cf, ["z", k]] if form < 0.7 else ["mul", ["z", k], cf]


def _fir(rng, srcs, n, lead=None):
    """a sum of terms; `lead`: the delay-0 term (a tree) that keeps a quotient causal"""
    t = lead if lead is not None else _term(rng, srcs, n)
    for _ in range(rng.choice([0, 1, 1, 2]) if lead is None else rng.choice([1, 1, 2])):
        op = rng.choice(["add", "add", "sub"])
        t = [op, t, _term(rng, srcs, n, 1 if lead is not None else 0)]
    return t


def _filter_tree(rng, srcs, n, depth):
    r = rng.random()
    if depth == 0 or r < 0.25:
        return _fir(rng, srcs, n)
    if r < 0.45:
        # a recursive filter: numerator / (a0 + …), a0 a non-zero number or a non-zero Stream
        if rng.random() < 0.35 and len(srcs) < 5:
            srcs.append(_source(rng, n, GVAL_POOL, early=False if rng.random() < 0.8 else None))
            lead = ["s", len(srcs) - 1]
        else:
            lead = ["c", rng.choice([1, 1, -1, 2, -3])]
        return ["div", _filter_tree(rng, srcs, n, depth - 1), _fir(rng, srcs, n, lead=lead)]
    if r < 0.8:
        op = rng.choice(["add", "sub", "mul", "mul"])
        return [op, _filter_tree(rng, srcs, n, depth - 1), _filter_tree(rng, srcs, n, depth - 1)]
    f = _filter_tree(rng, srcs, n, depth - 1)
    form = rng.random()
    if form < 0.15:
        return ["neg", f]
    if form < 0.5:
        cf = _num_tree(rng, srcs, n, SVAL_POOL)
        return rng.choice([["mul", cf, f], ["mul", f, cf], ["add", f, cf], ["add", cf, f], ["sub", f, cf], ["sub", cf, f]])
    if len(srcs) < 5:
        srcs.append(_source(rng, n, GVAL_POOL, early=False if rng.random() < 0.8 else None))
        return rng.choice([["div", f, ["s", len(srcs) - 1]], ["mul", ["s", len(srcs) - 1], f]])
    return ["mul", ["c", rng.choice([2, -1, 3])], f]


def _expr_case(rng, max_len):
    n = rng.choice([0, 1, 2, 3, 5, rng.randint(0, max_len)])
    srcs = []
    tree = _filter_tree(rng, srcs, n, rng.choice([1, 1, 2, 2, 3]))
    c = {"entry": "expr", "tree": tree, "srcs": srcs, "mem": None,
         "zero": rng.choice(["0/1", "0/1", "0/1", "7/1"]), "xs": [_sample(rng) for _ in range(n)]}
    if rng.random() < 0.3:
        # call shape / spelling of the zero value / a leaf source that raises in the middle
        r = rng.random()
        c["shape"] = "pos" if r < 0.4 else "kwnone" if r < 0.6 else "nozero" if val(c["zero"]) == 0 else "posmem"
        c["zspell"] = rng.choice(["frac", "int", "bool", "float"])
        fin = [d for d in srcs if d["kind"] == "finite"]
        if fin and rng.random() < 0.4:
            d = rng.choice(fin)
            if len(d["vals"]) >= n and n > 0:
                d["vals"] = d["vals"][:rng.randint(0, n - 1)]
            d["kind"] = "raising"
    return c


def generate(rng, tier, scale=1):
    quick = tier == "quick"
    cases = []
    max_len = 12 if quick else 40
    if scale == 1:
        cases.extend(_fixed_cases())
        cases.extend(hub.fixed_cases())
    for _ in range((700 if quick else 12000) * scale):
        cases.append(hub.gen_case(rng, max_len))
    for _ in range((900 if quick else 18000) * scale):
        cases.append(_call_case(rng, max_len))
    for _ in range((900 if quick else 18000) * scale):
        cases.append(_decorate(rng, _call_case(rng, max_len)))
    for _ in range((150 if quick else 2000) * scale):
        cases.append(_call_case(rng, max_len, malformed=True))
    for _ in range((1200 if quick else 20000) * scale):
        cases.append(_expr_case(rng, 8 if quick else 16))
    for _ in range((400 if quick else 7000) * scale):
        cases.append(_call2_case(rng, max_len))
    for _ in range((250 if quick else 4000) * scale):
        cases.append(_decorate(rng, _call2_case(rng, max_len), history=True))
    for _ in range((60 if quick else 800) * scale):
        cases.append(_call2_refused(rng, max_len))
    return cases


def _fixed_cases():
    """small universe: one stream coefficient in every position of small shapes, every gain kind,
    source ending before / with / after the input"""
    cases = []
    xs = ["1/1", "2/1", "-3/2", "5/1", "1/3"]
    for lb in range(0, 3):
        for la in range(1, 4):
            for pos in range(lb + la):
                for kind, vals in (("finite", ["2/1", "-1/2", "3/1"]), ("finite", ["1/2", "3/1", "-2/1", "1/1", "5/1", "7/1"]),
                                   ("periodic", ["2/1", "-1/3"]), ("periodic", ["3/1"])):
                    for a0 in (1, -1, 2):
                        num = [[k, [1, -1, 2][k % 3]] for k in range(lb)]
                        den = [[k, a0 if k == 0 else [1, 3, -1][k % 3]] for k in range(la)]
                        tgt = num if pos < lb else den
                        tgt[pos if pos < lb else pos - lb][1] = {"src": 0}
                        cases.append({"entry": "call", "route": "dict" if (lb + la + pos) % 2 else "zexpr",
                                      "num": num, "den": den, "srcs": [{"kind": kind, "vals": vals}],
                                      "mem": None, "zero": "0/1", "xs": xs})
    # two-call histories: a constant gain with Stream coefficients, a Stream gain, the all-zero filter with a Stream gain
    long_ = {"kind": "finite", "vals": ["2/1", "3/1", "4/1", "5/1", "6/1", "7/1", "8/1", "9/1"]}
    per = {"kind": "periodic", "vals": ["1/1", "1/2"]}
    for route in ("dict", "zexpr", "linear"):
        for n1 in (0, 2, 3):
            sec = {"xs": xs[n1:], "zero": "0/1", "mem": None}
            cases.append({"entry": "call2", "route": route, "num": [[0, 1], [1, {"src": 0}]], "den": [[0, 2], [1, {"src": 1}]],
                          "srcs": [long_, per], "mem": None, "zero": "0/1", "xs": xs[:n1], "second": sec})
            cases.append({"entry": "call2", "route": route, "num": [[0, 1], [1, 1]], "den": [[0, {"src": 0}], [1, {"src": 1}]],
                          "srcs": [long_, per], "mem": None, "zero": "0/1", "xs": xs[:n1], "second": sec})
            cases.append({"entry": "call2", "route": route, "num": [[0, {"src": 1}]], "den": [[0, {"src": 0}]],
                          "srcs": [long_, per], "mem": None, "zero": "0/1", "xs": xs[:n1], "second": sec})
    cases.append({"entry": "call2", "route": "dict", "num": [], "den": [[0, {"src": 0}]], "srcs": [long_],
                  "mem": None, "zero": "7/1", "xs": xs[:2], "second": {"xs": xs[2:], "zero": "7/1", "mem": None}})
    return cases


# ---------------------------------------------------------------------------------------------
# evidence histograms
# ---------------------------------------------------------------------------------------------
def tally(eng, c, io):
    if c["entry"] == "hub":
        return hub.tally(eng, c, io)
    eng.count("entry", c["entry"])
    eng.count("route", c.get("route", "expr"))
    eng.count("len_x", min(len(c["xs"]), 16))
    eng.count("n_sources", len(c.get("srcs", [])))
    for d in c.get("srcs", []):
        ln = src_len(d)
        n = len(c["xs"])
        eng.count("source_kind", "periodic(p=%d)" % len(d["vals"]) if ln is None else (
            "finite:empty" if ln == 0 else "finite:shorter" if ln < n else "finite:equal" if ln == n else "finite:longer"))
    eng.count("zero", "zero=0" if val(c["zero"]) == 0 else "zero!=0")
    m = _mem_norm(c.get("mem"))
    if m is None:
        eng.count("memory", "none")
    else:
        lm_ = (max([k for k, _ in c["den"]]) - min([k for k, _ in c["den"]])) if c.get("den") else 0
        if m["kind"] == "iter":
            ln = len(m["vals"])
            eng.count("memory", "iterable(%s):%s" % (m.get("as", "list"), "short(left-padded)" if ln < lm_ else "exact" if ln == lm_ else "longer"))
        elif m["kind"] == "gen":
            eng.count("memory", "endless-generator")
        else:
            eng.count("memory", "callable(%s)" % m.get("form"))
    eng.count("call_shape", c.get("shape", "kw"))
    eng.count("zero_spelling", "%s(%s)" % (c.get("zspell", "frac"), type(_zero_obj(c)).__name__))
    for d in c.get("srcs", []):
        eng.count("coefficient_iterable_kind", d.get("as", "stream"))
    if _raising(c):
        eng.count("raising_source", "impl-raised-mid-stream:next-after=%s" % io.get("after_err") if io.get("err") == "ValueError" and io.get("stage") == "iter"
                  else "not-reached(other-end-first)")
    if c.get("setden0") is not None:
        eng.count("assigned_gain", "deleted(0)" if c["setden0"] == 0 else "stream" if is_src(c["setden0"]) else "constant")
    if c.get("numpdiv") is not None:
        eng.count("poly_div_poly", "%d-term-divisor%s" % (len(c["numpdiv"]), ":stream" if any(is_src(v) for _, v in c["numpdiv"]) else ""))
    if "err" in io:
        eng.count("impl_error", "%s@%s" % (io["err"], io.get("stage")))
        if io.get("stage") != "iter":
            eng.count("branch", "error-before-output")
            return
    ir = io.get("ir", {})
    eng.count("ir_kind", ir.get("kind"))
    eng.count("loop_wrapped_in_try", bool(io.get("wrapped")))
    if ir.get("kind") == "loop":
        eng.count("gain_branch", ir["gain"][0])
        for a in ir["sum"]:
            eng.count("atom_branch", "%s:%s" % (a[-2], a[0]))
        eng.count("stream_args", "b=%d,a=%d" % (len(ir["bargs"]), len(ir["aargs"])))
        eng.count("order_den", min(ir["nm"], 9))
        eng.count("order_num", min(ir["nd"], 9))
    if c["entry"] == "call2" and "second" in io:
        s2 = io["second"]
        eng.count("second_call", ("%s@%s" % (s2["err"], s2.get("stage"))) if "err" in s2 else (
            "empty-input" if not c["second"]["xs"] else "ended-by-input" if len(s2["out"]) == len(c["second"]["xs"])
            else "ended-by-coefficient-stream"))
        eng.count("first_call_of_history", "ended-by-input" if len(io.get("out", [])) == len(c["xs"]) else "ended-by-coefficient-stream")
    if c["entry"] in ("call", "call2"):
        a0 = [v for k, v in c["den"] if k == min(kk for kk, _ in c["den"])]
        eng.count("gain_kind", "stream(variable-gain path)" if a0 and is_src(a0[0]) else "constant")
    n, L = len(c["xs"]), len(io.get("out", []))
    eng.count("ended_by", "input" if L == n else "coefficient-stream")
    eng.count("outputs", min(L, 16))
    eng.count("float_in_output", bool(io.get("float_out")))


# ---------------------------------------------------------------------------------------------
# shrinking / neighbours
# ---------------------------------------------------------------------------------------------
def _renumber(c):
    """drop the sources no coefficient refers to"""
    if c["entry"] not in ("call", "call2"):
        return c
    used = sorted({v["src"] for _, v in c["num"] + c["den"] + (c.get("numpdiv") or []) if is_src(v)}
                  | {c[f]["src"] for f in ("numdiv", "dendiv", "setden0") if is_src(c.get(f))})
    if used == list(range(len(c["srcs"]))):
        return c
    ren = {old: new for new, old in enumerate(used)}
    f = lambda lst: [[k, {"src": ren[v["src"]]} if is_src(v) else v] for k, v in lst]
    out = dict(c, num=f(c["num"]), den=f(c["den"]), srcs=[c["srcs"][i] for i in used])
    if c.get("numpdiv") is not None:
        out["numpdiv"] = f(c["numpdiv"])
    for g in ("numdiv", "dendiv", "setden0"):
        if is_src(c.get(g)):
            out[g] = {"src": ren[c[g]["src"]]}
    return out


def _early(c):
    n = len(c["xs"])
    return any(d["kind"] == "finite" and len(d["vals"]) < n for d in c.get("srcs", []))


def shrink(c):
    if c["entry"] == "hub":
        for cand in hub.shrink(c):
            yield cand
        return
    verdict = _VERDICT.get(_ckey(c))
    mark = bool(c.get("_noD13")) or (verdict is False) or (verdict is None and not _early(c))
    for cand in _shrink(c):
        yield dict(cand, _noD13=True) if mark else cand


def _shrink(c):
    xs = c["xs"]
    if c["entry"] == "call2":
        sec = c["second"]
        if sec["xs"]:
            yield dict(c, second=dict(sec, xs=sec["xs"][:-1]))
            for i, x in enumerate(sec["xs"]):
                if val(x) != 1:
                    yield dict(c, second=dict(sec, xs=sec["xs"][:i] + ["1/1"] + sec["xs"][i + 1:]))
        if sec.get("mem") is not None:
            yield dict(c, second=dict(sec, mem=None))
        if val(sec["zero"]) != 0:
            yield dict(c, second=dict(sec, zero="0/1"))
    if xs:
        yield dict(c, xs=xs[:-1])
        for i, x in enumerate(xs):
            if val(x) != 1:
                yield dict(c, xs=xs[:i] + ["1/1"] + xs[i + 1:])
    if c.get("mem") is not None:
        yield dict(c, mem=None)
    if val(c["zero"]) != 0:
        yield dict(c, zero="0/1")
    for i, d in enumerate(c.get("srcs", [])):
        vals = d["vals"]
        if len(vals) > (1 if d["kind"] == "periodic" else 0):
            yield dict(c, srcs=c["srcs"][:i] + [dict(d, vals=vals[:-1])] + c["srcs"][i + 1:])
        if d["kind"] == "periodic":
            yield dict(c, srcs=c["srcs"][:i] + [{"kind": "finite", "vals": src_items(
                d, len(xs) + (len(c["second"]["xs"]) if c["entry"] == "call2" else 0))}] + c["srcs"][i + 1:])
        for j, v in enumerate(vals):
            if val(v) != 1:
                yield dict(c, srcs=c["srcs"][:i] + [dict(d, vals=vals[:j] + ["1/1"] + vals[j + 1:])] + c["srcs"][i + 1:])
    if c["entry"] in ("call", "call2"):
        for side in ("num", "den"):
            ps = c[side]
            for i, (k, v) in enumerate(ps):
                if not (side == "den" and len(ps) == 1):
                    yield _renumber(dict(c, **{side: ps[:i] + ps[i + 1:]}))
                if is_src(v):
                    yield _renumber(dict(c, **{side: ps[:i] + [[k, 1]] + ps[i + 1:]}))
                elif v not in (0, 1):
                    yield dict(c, **{side: ps[:i] + [[k, 1]] + ps[i + 1:]})
        if c.get("route") != "dict" and c.get("numdiv") is None and c.get("dendiv") is None:
            yield dict(c, route="dict")
        for g in ("numdiv", "dendiv"):
            if c.get(g) is not None:
                yield _renumber({k: v for k, v in c.items() if k != g})
    else:
        for t in _tree_shrinks(c["tree"], c["srcs"]):
            yield dict(c, tree=t)


def _is_filter(t):
    if t[0] == "z":
        return True
    if t[0] in ("c", "s"):
        return False
    return any(_is_filter(u) for u in t[1:])


def _const_only(t):
    if t[0] == "c":
        return True
    if t[0] in ("z", "s"):
        return False
    return all(_const_only(u) for u in t[1:])


def _valid_tree(t, srcs):
    """stays inside the property and the exact regime: a non-filter divisor is a Stream leaf without
    a zero item (no division by a plain number: 1/int is a float in Python; no 1/0 inside a Stream)"""
    if t[0] in ("z", "c", "s"):
        return True
    if t[0] == "div" and not _is_filter(t[2]):
        if t[2][0] != "s" or any(val(v) == 0 for v in srcs[t[2][1]]["vals"]):
            return False
    return all(_valid_tree(u, srcs) for u in t[1:])


def _tree_shrinks_raw(t):
    if t[0] in ("z", "c", "s"):
        if t[0] == "c" and val(t[1]) not in (0, 1):
            yield ["c", 1]
        if t[0] == "z" and t[1] > 0:
            yield ["z", t[1] - 1]
        return
    for u in t[1:]:
        yield u
    for i in range(1, len(t)):
        for u in _tree_shrinks_raw(t[i]):
            yield t[:i] + [u] + t[i + 1:]


def _tree_shrinks(t, srcs):
    for u in _tree_shrinks_raw(t):
        if _is_filter(u) and _valid_tree(u, srcs):
            yield u


def neighbours(c):
    if c["entry"] == "hub":
        for cand in hub.neighbours(c):
            yield cand
        return
    base = dict(c, xs=c["xs"] if c["xs"] else ["1/1", "2/1", "-3/2"])
    yield base
    yield dict(base, xs=["1/1", "2/1", "-3/2", "5/1", "1/3", "-2/1"], zero="0/1", mem=None)
    for i, d in enumerate(c.get("srcs", [])):
        n = len(base["xs"])
        yield dict(base, srcs=c["srcs"][:i] + [{"kind": "periodic", "vals": d["vals"] or ["1/2"]}] + c["srcs"][i + 1:])
        yield dict(base, srcs=c["srcs"][:i] + [{"kind": "finite", "vals": (d["vals"] * (n + 1))[:max(0, n - 1)] or []}] + c["srcs"][i + 1:])
    if c["entry"] == "call":
        for side in ("num", "den"):
            ps = c[side]
            for i, (k, v) in enumerate(ps):
                if not is_src(v):
                    for nv in (-v, 0, 1, -1, v + 1):
                        yield dict(base, **{side: ps[:i] + [[k, nv]] + ps[i + 1:]})


# ---------------------------------------------------------------------------------------------
# translator self-test: T3 must see seeded edits of a generated source
# ---------------------------------------------------------------------------------------------
_SELFTEST_SRC = """def gen(seq, memory, zero, b1, b3, a2):
  m1 , m2 , = memory
  d1 = d2 = d3 = zero
  for d0 in seq:
    m0 = (d0 + next(b1) * d1 + 3 * d2 + next(b3) * d3 + -m1 + -next(a2) * m2) / (2)
    yield m0
    m2 = m1
    m1 = m0
    d3 = d2
    d2 = d1
    d1 = d0"""
_SELFTEST_IR = {"kind": "loop", "nm": 2, "nd": 3,
                "sum": [["var", "d", 0], ["next", "b", 1, "d", 1], ["mul", 3, "d", 2], ["next", "b", 3, "d", 3],
                        ["neg", "m", 1], ["negnext", "a", 2, "m", 2]],
                "gain": ["div", 2],
                "shifts": [["m", 2, "m", 1], ["m", 1, "m", 0], ["d", 3, "d", 2], ["d", 2, "d", 1], ["d", 1, "d", 0]],
                "bargs": [1, 3], "aargs": [2]}
_SELFTEST_EDITS = [
    ("next(b1) * d1", "next(b1) * d2"), ("next(b1) * d1", "next(b3) * d1"), ("next(b3) * d3", "next(b1) * d3"),
    ("-next(a2)", "next(a2)"), ("-next(a2) * m2", "-next(a2) * m1"), ("next(b1) * d1", "-next(b1) * d1"),
    ("next(b1) * d1", "next(b1) * next(b1) * d1"), ("zero, b1, b3, a2", "zero, b3, b1, a2"),
    ("zero, b1, b3, a2", "zero, b1, a2"), (") / (2)", ") / (3)"), ("    m2 = m1\n    m1 = m0", "    m1 = m0\n    m2 = m1"),
    ("    d3 = d2\n", ""), ("yield m0", "yield d0"), ("next(b3) * d3", "b3 * d3"), ("3 * d2", "3 * d1"),
]
_SELFTEST_WRAPPED = """def gen(seq, memory, zero, b1):
  d1 = zero
  for d0 in seq:
    try:
      m0 = d0 + next(b1) * d1
    except StopIteration:
      return
    yield m0
    d1 = d0"""


def regenerate(eng=None):
    """translator of the hub programs (harness/props/c06_tr.py): lean/ALV/Gen/C06Src.lean from the source of the repo"""
    return tr.regenerate(eng)


def extra_checks(eng):
    eng.extra["translated"] = {
        "under_the_translator": tr.TRANSLATED,
        "anchored_but_not_translated": [{"function": f, "reason": r} for f, r in tr.NOT_TRANSLATED],
    }
    for item in tr.selftest():
        yield item
    got = parse_source(_SELFTEST_SRC)
    yield ("T3-parser-reference-source", got == _SELFTEST_IR, "parse_source gave %r" % (got,))
    blind = []
    for old, new in _SELFTEST_EDITS:
        assert old in _SELFTEST_SRC, old
        if parse_source(_SELFTEST_SRC.replace(old, new, 1)) == _SELFTEST_IR:
            blind.append((old, new))
    yield ("T3-parser-sees-seeded-edits(%d)" % len(_SELFTEST_EDITS), not blind, "edits not seen: %r" % (blind,))
    body, wrapped = strip_try(_SELFTEST_WRAPPED)
    ir = parse_source(body)
    yield ("T3-parser-peels-the-StopIteration-wrapper-only",
           wrapped and ir.get("kind") == "loop" and ir.get("sum") == [["var", "d", 0], ["next", "b", 1, "d", 1]]
           and not strip_try(_SELFTEST_WRAPPED.replace("StopIteration", "Exception"))[1],
           "%r" % (ir,))
