"""C19 helper module — histories of mutable TableLookup objects (entry "tl_hist").

A case is a sequence of operations on a small heap: python lists, TableLookup objects that refer
to them (two objects may share one list), and open oscillator streams.  Attribute assignments
(`tl.table = ...`, `tl.cycles = ...`), in-place list changes, operators / normalize / harmonize
(new objects) are interleaved with uses (`tl(freq, phase)` read in chunks, several streams alive at
once, `tl[idx]`, `len(tl)`, `tl == other`, the table itself).  The real objects are driven step by
step; every step's observation is compared with the Lean model (`ALV.C19.histModel`: the code as
written, with the length cached by the `table` setter) and with the Lean specification
(`ALV.C19.histSpec`: every use answered from the CURRENT table contents and the CURRENT cycles).
"""
import json, math
from fractions import Fraction
import common
from common import enc, dec, err_kind
from props import c19 as B

F = Fraction
C0 = 1 / (2 * math.pi)
MUT_OPS = ("setTable", "setTableUnsized", "setCycles", "setItem", "append", "pop")
ALLOC_OPS = ("binary", "scalar", "neg", "normalize", "harmonize")
USE_OPS = ("read", "getitem", "len", "eq", "table")


# ----------------------------------------------------------------------------------------------
# cycles: {"c0exp": k} (cycles * 2 * pi == 2**k exactly) or {"v", "t"}
# ----------------------------------------------------------------------------------------------
def cyc_py(cy):
    if "c0exp" in cy:
        return C0 * 2.0 ** cy["c0exp"]
    return B.py(cy["v"], cy["t"])


def cyc_key(cy):
    """exact value of the attribute (what the Lean side stores and compares)"""
    return F(cyc_py(cy))


def cyc_den(cy):
    return F(cyc_py(cy) * 2 * math.pi)          # the expression of TableLookup.__call__


# ----------------------------------------------------------------------------------------------
# a python port of the *shape* of ALV.C19.step, used by the generator and the shrinker only
# (which ids exist, list lengths and contents); never used as an oracle
# ----------------------------------------------------------------------------------------------
class Sim:
    def __init__(self):
        self.lists = []          # lists of Fractions
        self.objs = []           # [tbl, cached_len, cycles_key, broken]
        self.oscs = []           # [tbl] (captured list id)
        self.bad = False         # a reference to something that does not exist

    def step(self, o):
        """returns (allocated lists, objects, streams) of this step"""
        k = o["op"]
        L, O, S = self.lists, self.objs, self.oscs

        def obj(i, even_broken=False):
            if not (0 <= i < len(O)) or not (0 <= O[i][0] < len(L)):
                self.bad = True
                return None
            return O[i] if even_broken or not O[i][3] else None

        def lst(l):
            if not (0 <= l < len(L)):
                self.bad = True
                return None
            return L[l]

        def alloc(xs, c):
            L.append(list(xs))
            O.append([len(L) - 1, len(xs), c, False])
            return (1, 1, 0)

        if k == "newList":
            L.append([dec(x) for x in o["xs"]])
            return (1, 0, 0)
        if k == "new":
            xs = lst(o["l"])
            if xs is None:
                return (0, 0, 0)
            O.append([o["l"], len(xs), cyc_key(o["c"]), False])
            return (0, 1, 0)
        if k == "setTable":
            ob, xs = obj(o["i"], True), lst(o["l"])
            if ob is not None and xs is not None:
                ob[0], ob[1], ob[3] = o["l"], len(xs), False
            return (0, 0, 0)
        if k == "setTableUnsized":
            ob = obj(o["i"], True)
            if ob is not None:
                ob[3] = True
            return (0, 0, 0)
        if k == "setCycles":
            ob = obj(o["i"], True)
            if ob is not None:
                ob[2] = cyc_key(o["c"])
            return (0, 0, 0)
        if k == "setItem":
            xs = lst(o["l"])
            if xs is not None and -len(xs) <= o["k"] < len(xs):
                xs[o["k"]] = B.qv(o["v"])
            return (0, 0, 0)
        if k == "append":
            xs = lst(o["l"])
            if xs is not None:
                xs.append(B.qv(o["v"]))
            return (0, 0, 0)
        if k == "pop":
            xs = lst(o["l"])
            if xs:
                xs.pop()
            return (0, 0, 0)
        if k == "binary":
            a, b = obj(o["i"]), obj(o["j"])
            if a is None or b is None or a[2] != b[2] or a[1] != b[1]:
                return (0, 0, 0)
            f = B._OPS[o["f"]]
            try:
                return alloc([f(x, y) for x, y in zip(L[a[0]], L[b[0]])], a[2])
            except ZeroDivisionError:
                self.bad = True
                return (0, 0, 0)
        if k == "scalar":
            a = obj(o["i"])
            if a is None or o["x"]["t"] == "F":
                return (0, 0, 0)
            f, x = B._OPS[o["f"]], B.qv(o["x"])
            try:
                return alloc([f(x, d) if o["reflected"] else f(d, x) for d in L[a[0]]], a[2])
            except ZeroDivisionError:
                self.bad = True
                return (0, 0, 0)
        if k == "neg":
            a = obj(o["i"])
            return (0, 0, 0) if a is None else alloc([-d for d in L[a[0]]], a[2])
        if k == "normalize":
            a = obj(o["i"])
            if a is None or not L[a[0]]:
                return (0, 0, 0)
            m = max(L[a[0]], key=abs)
            return (0, 0, 0) if m == 0 else alloc([d / m for d in L[a[0]]], a[2])
        if k == "harmonize":
            a = obj(o["i"])
            if a is None:
                return (0, 0, 0)
            t = L[a[0]]
            out = []
            for n in range(a[1]):
                acc = F(0)
                for h in o["harm"]:
                    sl = t[::h["p"] + 1]
                    acc += (sl[n % len(sl)] if sl else 0) * dec(h["a"])
                out.append(acc)
            return alloc(out, a[2])
        if k == "call":
            a = obj(o["i"], True)
            if a is None or cyc_den_of_key(a[2], self) == 0:
                return (0, 0, 0)
            S.append([a[0]])
            return (0, 0, 1)
        if k == "read":
            if not (0 <= o["s"] < len(S)):
                self.bad = True
            return (0, 0, 0)
        if k in ("getitem", "len", "table"):
            obj(o["i"], True)
            return (0, 0, 0)
        if k == "eq":
            obj(o["i"], True), obj(o["j"], True)
            return (0, 0, 0)
        raise ValueError(k)


def cyc_den_of_key(key, sim):
    return 1          # cycles = 0 is never generated


def simulate(ops):
    """(sim after the history, per-op allocation triples)"""
    sim = Sim()
    allocs = [sim.step(o) for o in ops]
    return sim, allocs


# ----------------------------------------------------------------------------------------------
# generator
# ----------------------------------------------------------------------------------------------
def small(rng):
    return F(rng.randint(-32, 32), rng.choice([1, 1, 2, 4]))


def bits_ok(xs, bits=26):
    return all(abs(x.numerator) < 2 ** bits and x.denominator < 2 ** bits and B.is_dyadic(x) for x in xs)


def gen_cycles(rng, exact):
    if exact:
        return {"c0exp": rng.randint(-2, 3)}
    q = F(rng.choice([1, 1, 2, 3, 0.5, 0.7]))
    t = "f"
    if q.denominator == 1:
        t = rng.choice(["i", "f", "I", "X"] + (["b"] if q == 1 else []))
    return {"v": enc(q), "t": t}


def gen_osc_arg(rng, exact, n, p_stream):
    if exact:
        mk = lambda: F(rng.randint(-48, 48), rng.choice([1, 2, 4, 8, 16]))
        return B.gen_arg(rng, mk, n, p_stream, ("Stream", "sub", "thub"))
    return B.float_arg(rng, -3, 3, n, p_stream, ("Stream",))


def gen_hist_case(rng, maxlen, unsafe=False):
    exact = bool(unsafe) or rng.random() < 0.85
    ops = []
    sim = Sim()
    last_mut = {}                      # object id -> it was changed since its last call
    open_reads = {}                    # stream id -> samples still worth reading

    def push(o):
        ops.append(o)
        return sim.step(o)

    def new_list(L=None):
        L = L or rng.choice([1, 2, 3, 4, 4, 5, 8, rng.randint(1, 16)])
        xs = [small(rng) for _ in range(L)]
        push({"op": "newList", "xs": [enc(x) for x in xs],
              "ts": [rng.choice(["i", "f"]) if x.denominator == 1 else "f" for x in xs]})
        if rng.random() < 0.08:
            ts = [B.typ_for(x, rng) for x in xs]
            ops[-1]["ts"] = ["f" if t == "F" else t for t in ts]
        return len(sim.lists) - 1

    def new_obj(l=None, c=None):
        l = new_list() if l is None else l
        push({"op": "new", "l": l, "c": c or gen_cycles(rng, exact)})
        return len(sim.objs) - 1

    def use(i, what=None):
        what = what or rng.choice(["call", "call", "call", "getitem", "len", "table", "eq"])
        if what == "call":
            n = rng.choice([1, 2, 3, 5, 9, 9, 17, 40])
            f = gen_osc_arg(rng, exact, n, 0.3)
            p = gen_osc_arg(rng, exact, n, 0.2)
            dp = "num" in p and dec(p["num"]) == 0 and rng.random() < 0.5
            push({"op": "call", "i": i, "freq": f, "phase": p, "default_phase": dp})
            s = len(sim.oscs) - 1
            first = n if rng.random() < 0.6 else rng.randint(1, n)
            push({"op": "read", "s": s, "k": first})
            if first < n:
                open_reads[s] = n - first
            last_mut.pop(i, None)
        elif what == "getitem":
            L = sim.objs[i][1]
            q = F(rng.randint(-16 * L - 8, 32 * L + 8), 16) if rng.random() < 0.7 else F(rng.randint(-2 * L, 3 * L))
            push({"op": "getitem", "i": i, "idx": B.num(rng, q)})
        elif what == "eq":
            push({"op": "eq", "i": i, "j": rng.randrange(len(sim.objs))})
        else:
            push({"op": what, "i": i})

    new_obj()
    if rng.random() < 0.5:
        use(0, "call")
    target = rng.randint(4, maxlen)
    guard = 0
    while len(ops) < target and guard < 200:
        guard += 1
        nobj, nl = len(sim.objs), len(sim.lists)
        i = rng.randrange(nobj)
        ob = sim.objs[i]
        r = rng.random()
        if r < 0.16:                                              # tl.cycles = ...
            c = gen_cycles(rng, exact)
            push({"op": "setCycles", "i": i, "c": c})
            last_mut[i] = "setCycles"
        elif r < 0.26:                                            # tl.table = ...
            if rng.random() < 0.5 and nl > 1:
                l = rng.randrange(nl)                            # an existing list: shared from now on
            else:
                l = new_list()
            push({"op": "setTable", "i": i, "l": l})
            last_mut[i] = "setTable"
        elif r < 0.36:                                            # in-place, same length
            l = ob[0]
            n = len(sim.lists[l])
            k = rng.randint(-n, n - 1) if rng.random() < 0.9 else rng.choice([n, -n - 1, n + 3])
            v = small(rng)
            push({"op": "setItem", "l": l, "k": k, "v": {"v": enc(v), "t": "i" if v.denominator == 1 and rng.random() < 0.5 else "f"}})
            for j, o2 in enumerate(sim.objs):
                if o2[0] == l:
                    last_mut[j] = "setItem"
            # (a stream that is already open keeps a reference to this list; what it yields after the
            #  list changed in place is not fixed by the property: such streams are not read again)
            for s_ in [s_ for s_ in open_reads if sim.oscs[s_][0] == l]:
                del open_reads[s_]
        elif r < 0.40:                                            # a second object on a list in use
            new_obj(l=rng.randrange(nl), c=rng.choice([None, None, dict(ops_cycles(ops, i))]))
        elif r < 0.44:
            new_obj()
        elif r < 0.66:                                            # operators: new objects
            kind = rng.choice(["binary", "binary", "scalar", "scalar", "neg", "normalize", "harmonize"])
            t = sim.lists[ob[0]]
            if kind == "binary":
                f = rng.choice(["add", "sub", "mul"])
                same = [j for j, o2 in enumerate(sim.objs) if o2[1] == ob[1] and o2[2] == ob[2]]
                if rng.random() < 0.75:
                    if len(same) > 1 or rng.random() < 0.5:
                        j = rng.choice(same)
                    else:
                        j = new_obj(l=new_list(ob[1]), c=dict(ops_cycles(ops, i)))
                else:                                             # incompatible: ValueError
                    other = [j for j in range(nobj) if j not in same]
                    if other:
                        j = rng.choice(other)
                    elif rng.random() < 0.5:
                        j = new_obj(l=new_list(ob[1] + 1), c=dict(ops_cycles(ops, i)))
                    else:
                        j = new_obj(l=new_list(ob[1]))
                t2 = sim.lists[sim.objs[j][0]]
                if not bits_ok([B._OPS[f](x, y) for x, y in zip(t, t2)]):
                    continue
                if rng.random() < 0.5:
                    i, j = j, i                                   # either operand may be the odd one
                    ob, t = sim.objs[i], sim.lists[sim.objs[i][0]]
                a = push({"op": "binary", "f": f, "i": i, "j": j})
            elif kind == "scalar":
                f = rng.choice(["add", "sub", "mul", "div"])
                refl = rng.random() < 0.4
                x = F(2) ** rng.randint(-2, 3) * rng.choice([1, -1]) if f == "div" else small(rng)
                if rng.random() < 0.2:                            # the operand that changes nothing
                    x = F(0) if f in ("add", "sub") else F(1)
                if f == "div" and refl and not all(d != 0 and B.is_dyadic(x / d, 20) for d in t):
                    continue
                tt = "i" if x.denominator == 1 and rng.random() < 0.5 else "f"
                if rng.random() < 0.12:
                    tt = "F"                                      # not int/float/complex: NotImplementedError
                elif rng.random() < 0.1:
                    tt = B.typ_for(x, rng) if B.typ_for(x, rng) != "F" else tt
                res = [B._OPS[f](x, d) if refl else B._OPS[f](d, x) for d in t]
                if not bits_ok(res):
                    continue
                a = push({"op": "scalar", "f": f, "i": i, "x": {"v": enc(x), "t": tt}, "reflected": refl})
            elif kind == "neg":
                a = push({"op": "neg", "i": i})
            elif kind == "normalize":
                m = max(t, key=abs)
                if m != 0 and not bits_ok([d / m for d in t], 20):
                    r3 = rng.random()
                    if r3 < 0.6:                                  # make the largest magnitude a power of two
                        k = rng.randrange(len(t))
                        v = F(2) ** max(0, int(abs(m)).bit_length()) * rng.choice([1, -1])
                        if rng.random() < 0.4 and all(abs(d) <= 1 for j, d in enumerate(t) if j != k):
                            v = F(rng.choice([1, -1]))            # already normalized
                        push({"op": "setItem", "l": ob[0], "k": k, "v": {"v": enc(v), "t": "f"}})
                        for s_ in [s_ for s_ in open_reads if sim.oscs[s_][0] == ob[0]]:
                            del open_reads[s_]
                    elif r3 < 0.8:                                # nothing to normalize: ValueError
                        i = new_obj(l=None)
                        for k in range(len(sim.lists[-1])):
                            push({"op": "setItem", "l": len(sim.lists) - 1, "k": k, "v": {"v": 0, "t": rng.choice("if")}})
                    else:
                        continue
                    t = sim.lists[sim.objs[i][0]]
                    m = max(t, key=abs)
                    if m != 0 and not bits_ok([d / m for d in t], 20):
                        continue
                a = push({"op": "normalize", "i": i})
            else:
                ps = rng.sample(range(0, 5), rng.randint(1, 3))
                harm = [{"p": p, "a": enc(F(rng.randint(-8, 8), 4)), "t": "f"} for p in ps]
                for h in harm:
                    h["t"] = B.typ_for(dec(h["a"]), rng)
                    if h["t"] == "F":
                        # a Fraction amplitude makes a table of Fractions, on which a later `normalize` divides by a
                        # Fraction scalar: NotImplementedError - outside the assumption "normalize on int/float tables"
                        # (the history model does not track item types); amplitudes k/4 are exact floats
                        h["t"] = "f"
                a = push({"op": "harmonize", "i": i, "harm": harm})
                if not bits_ok(sim.lists[-1]):
                    ops.pop()
                    sim2, _ = simulate(ops)
                    sim.lists, sim.objs, sim.oscs = sim2.lists, sim2.objs, sim2.oscs
                    continue
            if a[1]:                                              # a result: use it, edit it, look at the operand
                res = len(sim.objs) - 1
                last_mut[res] = "operator-result"
                r2 = rng.random()
                if r2 < 0.35:
                    push({"op": "setCycles", "i": res, "c": gen_cycles(rng, exact)})
                    last_mut[res] = "setCycles"
                    use(res, "call")
                elif r2 < 0.6:
                    n = len(sim.lists[-1])
                    push({"op": "setItem", "l": len(sim.lists) - 1, "k": rng.randrange(n), "v": {"v": enc(small(rng) * 2), "t": "f"}})
                    push({"op": "table", "i": i})
                    use(i, "call")
                else:
                    use(res)
            else:                                                 # a failing step: nothing may have changed
                failed = ops[-1]
                for who in [i] + ([failed["j"]] if failed["op"] == "binary" else []):
                    push({"op": "table", "i": who})
                    push({"op": "len", "i": who})
                    if rng.random() < 0.4:
                        use(who, rng.choice(["call", "getitem"]))
        elif r < 0.78 and open_reads:                             # an older stream, read after whatever happened
            s = rng.choice(sorted(open_reads))
            k = rng.randint(1, open_reads[s] + 1)
            push({"op": "read", "s": s, "k": k})
            open_reads[s] -= k
            if open_reads[s] <= 0:
                del open_reads[s]
        else:
            muts = sorted(last_mut)
            use(rng.choice(muts) if muts and rng.random() < 0.8 else i)
    # everything changed is used once more, every open stream is read once more
    for i in sorted(last_mut):
        if rng.random() < 0.8:
            use(i, "call")
    for s in sorted(open_reads):
        if rng.random() < 0.7:
            push({"op": "read", "s": s, "k": open_reads[s]})
    if unsafe == "unsized":
        # `tl.table = None`: TypeError, and nothing may have changed
        i = rng.randrange(len(sim.objs))
        push({"op": "setTableUnsized", "i": i})
        for what in rng.sample(["call", "len", "getitem", "table"], 3):
            use(i, what)
        if rng.random() < 0.5:                                   # a proper assignment repairs the object
            push({"op": "setTable", "i": i, "l": rng.randrange(len(sim.lists))})
            use(i, "call")
            use(i, "table")
    elif unsafe:
        i = rng.randrange(len(sim.objs))
        l = sim.objs[i][0]
        if rng.random() < 0.6 or len(sim.lists[l]) < 2:
            push({"op": "append", "l": l, "v": {"v": enc(small(rng)), "t": "f"}})
        else:
            push({"op": "pop", "l": l})
        for what in rng.sample(["call", "len", "getitem", "table"], 3):
            use(i, what)
    return {"entry": "tl_hist", "exact": exact, "ops": ops}


def ops_cycles(ops, i):
    """the cycles description object `i` was given most recently (shape level: only `new` / `setCycles`
    are followed; operator results inherit their operand's)"""
    sim = Sim()
    desc = []
    for o in ops:
        a = sim.step(o)
        if o["op"] == "new":
            desc.append(o["c"])
        elif a[1]:
            desc.append(desc[o["i"]])
        elif o["op"] == "setCycles" and 0 <= o["i"] < len(desc):
            desc[o["i"]] = o["c"]
    return desc[i]


def generate(rng, tier, scale):
    n = (260 if tier == "quick" else 3500) * scale
    maxlen = 14 if tier == "quick" else 26
    cases = []
    for k in range(n):
        c = gen_hist_case(rng, maxlen, unsafe=("resize" if k % 25 == 24 else "unsized" if k % 25 == 12 else False))
        sim, _ = simulate(c["ops"])
        if not sim.bad:
            cases.append(c)
    return cases


# ----------------------------------------------------------------------------------------------
# the real objects
# ----------------------------------------------------------------------------------------------
def impl(c):
    from audiolazy import TableLookup
    lists, objs, oscs = [], [], []
    obs = []
    for o in c["ops"]:
        k = o["op"]
        try:
            if k == "newList":
                lists.append([B.py(v, t) for v, t in zip(o["xs"], o["ts"])])
                r = {"k": "ref", "i": len(lists) - 1}
            elif k == "new":
                objs.append(TableLookup(lists[o["l"]], cyc_py(o["c"])))
                r = {"k": "ref", "i": len(objs) - 1}
            elif k == "setTable":
                objs[o["i"]].table = lists[o["l"]]
                r = {"k": "unit"}
            elif k == "setTableUnsized":
                objs[o["i"]].table = None
                r = {"k": "unit"}
            elif k == "setCycles":
                objs[o["i"]].cycles = cyc_py(o["c"])
                r = {"k": "unit"}
            elif k == "setItem":
                lists[o["l"]][o["k"]] = B.pv(o["v"])
                r = {"k": "unit"}
            elif k == "append":
                lists[o["l"]].append(B.pv(o["v"]))
                r = {"k": "unit"}
            elif k == "pop":
                lists[o["l"]].pop()
                r = {"k": "unit"}
            elif k in ALLOC_OPS:
                a = objs[o["i"]]
                if k == "binary":
                    res = B._OPS[o["f"]](a, objs[o["j"]])
                elif k == "scalar":
                    x = B.pv(o["x"])
                    res = B._OPS[o["f"]](x, a) if o["reflected"] else B._OPS[o["f"]](a, x)
                elif k == "neg":
                    res = -a
                elif k == "normalize":
                    res = a.normalize()
                else:
                    res = a.harmonize({h["p"]: B.py(h["a"], h["t"]) for h in o["harm"]})
                if not isinstance(res, TableLookup):
                    r = {"k": "err", "e": "BAD-RESULT:" + type(res).__name__}
                else:
                    objs.append(res)
                    lists.append(res.table)               # the very list object: aliasing would show
                    r = {"k": "ref", "i": len(objs) - 1}
            elif k == "call":
                a = objs[o["i"]]
                if o.get("default_phase"):
                    s = a(B.mc_build(o["freq"]))
                else:
                    s = a(B.mc_build(o["freq"]), B.mc_build(o["phase"]))
                oscs.append(iter(s))
                r = {"k": "ref", "i": len(oscs) - 1}
            elif k == "read":
                out, end = B.drain(oscs[o["s"]], o["k"])
                r = {"k": "samples", "xs": [enc(x) for x in out], "st": end}
            elif k == "getitem":
                r = {"k": "val", "x": enc(objs[o["i"]][B.pv(o["idx"])])}
            elif k == "len":
                r = {"k": "nat", "n": len(objs[o["i"]])}
            elif k == "eq":
                a, b = objs[o["i"]], objs[o["j"]]
                eq, ne = a == b, a != b
                r = {"k": "bool", "b": eq} if (eq is True or eq is False) and ne is (not eq) else \
                    {"k": "err", "e": "BAD-EQ:%r/%r" % (eq, ne)}
            elif k == "table":
                a = objs[o["i"]]
                r = {"k": "table", "xs": [enc(x) for x in a.table], "c": enc(F(a.cycles))}
            else:
                raise ValueError(k)
        except Exception as e:
            r = {"k": "err", "e": err_kind(e)}
        obs.append(r)
    return {"obs": obs, "out": [o for o in obs if o["k"] == "samples" and o["xs"]]}


def request(c):
    ops, dens = [], {}
    for o in c["ops"]:
        d = {k: v for k, v in o.items() if k not in ("ts", "default_phase")}
        if "c" in o:
            key = cyc_key(o["c"])
            dens[enc(key)] = enc(cyc_den(o["c"]))
            d["c"] = enc(key)
        for k in ("v", "x", "idx"):
            if k in o:
                d[k] = o[k]["v"]
        if o["op"] == "scalar":
            d["known"] = o["x"]["t"] != "F"
        if o["op"] == "call":
            d["freq"], d["phase"] = B.strip_arg(o["freq"]), B.strip_arg(o["phase"])
        if o["op"] == "harmonize":
            d["harm"] = [{"p": h["p"], "a": h["a"]} for h in o["harm"]]
        ops.append(d)
    return {"entry": "tl_hist", "ops": ops, "dens": [[k, v] for k, v in sorted(dens.items(), key=str)]}


def obs_same(a, b, exact):
    if a["k"] != b["k"]:
        return False
    k = a["k"]
    if k == "samples":
        return a["st"] == b["st"] and B.same_vals([dec(x) for x in a["xs"]], [dec(x) for x in b["xs"]], exact)
    if k == "val":
        return B.same_vals([dec(a["x"])], [dec(b["x"])], exact)
    if k == "table":
        return dec(a["c"]) == dec(b["c"]) and B.same_vals([dec(x) for x in a["xs"]], [dec(x) for x in b["xs"]], exact)
    return a == b


def first_diff(c, io, drv, side):
    obs = io.get("obs")
    if obs is None or len(obs) != len(drv[side]):
        return 0
    for t, (a, b) in enumerate(zip(obs, drv[side])):
        if not obs_same(a, b, c["exact"]):
            return t
    return None


def compare(c, io, drv):
    res = []
    ts = first_diff(c, io, drv, "spec")
    for side, kind in (("model", "model"), ("spec", "spec")):
        t = first_diff(c, io, drv, side)
        if side == "model" and t is not None and ts is None and (resized(c["ops"], t) or unsized(c["ops"], t)):
            # after an in-place resize the model (the code as written today, with its cached length,
            # defect D16) and the spec differ; the code as repaired follows the spec: only the spec
            # decides the property there
            continue
        if t is not None:
            res.append((kind, "TableLookup history, step %d %s: impl=%s %s=%s" % (
                t, json.dumps(c["ops"][t]), json.dumps(io["obs"][t]) if io.get("obs") else io, side, json.dumps(drv[side][t]))))
    return res


def context(ops, t):
    """what happened to the object (or the stream's object) used at step t since it was last called"""
    o = ops[t]
    sim = Sim()
    called_at = {}            # stream id -> (object id, step)
    hist = []                 # (step, op, objects affected)
    for u, p in enumerate(ops[:t]):
        before = [tuple(x) for x in sim.objs]
        a = sim.step(p)
        if p["op"] == "call" and a[2]:
            called_at[len(sim.oscs) - 1] = (p["i"], u)
        if p["op"] in ("setCycles", "setTable", "setTableUnsized"):
            hist.append((u, p["op"], {p["i"]}))
        elif p["op"] in ("setItem", "append", "pop"):
            hist.append((u, p["op"], {j for j, x in enumerate(sim.objs) if x[0] == p["l"]}))
        elif a[1] and p["op"] in ALLOC_OPS:
            hist.append((u, "operator-result", {len(sim.objs) - 1}))
        elif p["op"] in ALLOC_OPS:
            hist.append((u, "failed-" + p["op"], {p["i"], p.get("j", p["i"])}))
    if o["op"] == "read":
        i, since = called_at.get(o["s"], (None, 0))
        later = [h for h in hist if h[0] > since and i in h[2]]
        if later:
            return "stream-opened-before-" + later[-1][1]
        earlier = [h for h in hist if h[0] < since and i in h[2]]
        return ("after-" + earlier[-1][1]) if earlier else "fresh-object"
    i = o.get("i")
    earlier = [h for h in hist if i in h[2]]
    return ("after-" + earlier[-1][1]) if earlier else "fresh-object"


def resized(ops, t):
    return any(p["op"] in ("append", "pop") for p in ops[:t])


def unsized(ops, t):
    return any(p["op"] == "setTableUnsized" for p in ops[:t])


def classify(c, io, drv):
    t = first_diff(c, io, drv, "spec")
    if t is None:
        t = first_diff(c, io, drv, "model")
    if t is None:
        return "TableLookup.hist:none"
    if resized(c["ops"], t):
        return "TableLookup.hist:list-resized-in-place:stale-len"
    if unsized(c["ops"], t):
        return "TableLookup.hist:failed-table-assignment:object-changed"
    got = io["obs"][t] if io.get("obs") and t < len(io["obs"]) else {}
    how = got.get("e") or (got.get("st") if got.get("k") == "samples" and got.get("st") not in ("fuel", "stop") else None) or "values"
    return "TableLookup.hist:%s:%s:%s" % (c["ops"][t]["op"], context(c["ops"], t), how)


def nontrivial(c, io):
    return any(o["k"] == "samples" and o["xs"] for o in io.get("obs", []))


def tally(eng, c, io):
    ops = c["ops"]
    eng.count("hist_len", min(len(ops) // 4 * 4, 32))
    eng.count("hist_regime", "exact" if c["exact"] else "float")
    sim = Sim()
    streams = 0
    for t, o in enumerate(ops):
        got = io["obs"][t]
        eng.count("hist_op", o["op"] + (":" + got["e"] if got["k"] == "err" else ""))
        if o["op"] in ("read", "getitem", "len", "table"):
            eng.count("hist_use_context", o["op"] + ":" + context(ops, t))
        if o["op"] == "read":
            eng.count("hist_read_len", min(len(got.get("xs", [])) // 4 * 4, 40))
        if o["op"] in ("new", "setCycles"):
            eng.count("hist_cycles_type", "c0exp" if "c0exp" in o["c"] else o["c"]["t"])
        sim.step(o)
    eng.count("hist_objects", len(sim.objs))
    eng.count("hist_streams", len(sim.oscs))
    shared = len(sim.objs) - len({x[0] for x in sim.objs})
    eng.count("hist_objects_sharing_a_list", min(shared, 3))
    if any(o["op"] in ("append", "pop") for o in ops):
        eng.count("hist_resized_in_place", True)
    if any(o["op"] == "setTableUnsized" for o in ops):
        eng.count("hist_failed_table_assignment", True)


# ----------------------------------------------------------------------------------------------
# shrinking: drop operations (renumbering the references), simplify arguments
# ----------------------------------------------------------------------------------------------
REFS = {"l": 0, "i": 1, "j": 1, "s": 2}


def drop_op(ops, k):
    """ops without step k, or None when a later step needs what step k created"""
    _, allocs = simulate(ops)
    a = allocs[k]
    sim = Sim()
    for o in ops[:k]:
        sim.step(o)
    base = (len(sim.lists), len(sim.objs), len(sim.oscs))
    out = list(ops[:k])
    for o in ops[k + 1:]:
        d = dict(o)
        for f, kind in REFS.items():
            if f in d and isinstance(d[f], int) and not (f == "l" and o["op"] == "newList"):
                if base[kind] <= d[f] < base[kind] + a[kind]:
                    return None
                if d[f] >= base[kind] + a[kind]:
                    d[f] -= a[kind]
        out.append(d)
    sim2, _ = simulate(out)
    return None if sim2.bad else out


def bypass_op(ops, k):
    """ops without the operator step k, later references to its result redirected to its operand"""
    o = ops[k]
    if o["op"] not in ALLOC_OPS:
        return None
    sim = Sim()
    for p in ops[:k]:
        sim.step(p)
    nl, no = len(sim.lists), len(sim.objs)
    if not (0 <= o["i"] < no):
        return None
    src_l = sim.objs[o["i"]][0]
    if sim.step(o) != (1, 1, 0):
        return None
    out = list(ops[:k + 1])
    for p in ops[k + 1:]:
        d = dict(p)
        for f in ("i", "j"):
            if d.get(f) == no and f in d and isinstance(d[f], int):
                d[f] = o["i"]
        if d.get("l") == nl and p["op"] != "newList":
            d["l"] = src_l
        out.append(d)
    return drop_op(out, k)


def shrink(c):
    ops = c["ops"]
    if len(ops) > 1:
        yield dict(c, ops=ops[:-1])
    for k in range(len(ops) - 1, -1, -1):
        r = drop_op(ops, k)
        if r is not None and r:
            yield dict(c, ops=r)
        r = bypass_op(ops, k)
        if r is not None and r:
            yield dict(c, ops=r)
    for k, o in enumerate(ops):
        def repl(**kw):
            return dict(c, ops=ops[:k] + [dict(o, **kw)] + ops[k + 1:])
        if o["op"] == "read" and o["k"] > 1:
            yield repl(k=o["k"] - 1)
            yield repl(k=o["k"] // 2)
        if o["op"] == "call":
            for f in ("freq", "phase"):
                a = o[f]
                if "strm" in a and a["strm"]:
                    yield repl(**{f: {"num": a["strm"][0], "t": a["ts"][0]}})
                elif "num" in a:
                    q = dec(a["num"])
                    for r in (F(0), F(1), F(int(q)), F(1, 2)):
                        if r != q and abs(r) <= abs(q):
                            yield repl(**{f: {"num": enc(r), "t": "f"}}, default_phase=False)
        if o["op"] == "newList":
            n = len(o["xs"])
            simple = [enc(F(10 * j)) for j in range(n)]
            if o["xs"] != simple:
                yield repl(xs=simple, ts=["f"] * n)
            sim, _ = simulate(ops)
            if n > 1:
                cand = dict(c, ops=ops[:k] + [dict(o, xs=o["xs"][:-1], ts=o["ts"][:-1])] + ops[k + 1:])
                if not simulate(cand["ops"])[0].bad:
                    yield cand
        if "c" in o and o["c"] != {"c0exp": 0} and "c0exp" in o["c"]:
            yield repl(c={"c0exp": 0})
        if o["op"] == "harmonize" and len(o["harm"]) > 1:
            yield repl(harm=o["harm"][:1])


def neighbours(c):
    return ()
