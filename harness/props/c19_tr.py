"""C19 — translator of generator FUNCTION BODIES: reads `modulo_counter`, `line`, `fadein`, `fadeout`, `attack`, `adsr`,
`ones`, `zeros`, `impulse`, `sinusoid`, `TableLookup.__call__`, `TableLookup.__getitem__` from the source text of audiolazy/lazy_synth.py of the repo under test with `ast` (nothing is imported from the repo) and
writes them as Lean definitions over the number operations `NumOps` in the vocabulary of `lean/ALV/Model/C19Src.lean`
(`forG`, `whileG`, `rangeG`, `takeRun`, `runPre`, `Iter.pre`, `post`, `modChain`, `nextOr`, `finiteG`) into
`lean/ALV/Gen/C19Src.lean`.  `Props/C19.lean` proves `src_<f>_is_model`: each regenerated definition equals the code
shaped model (`mcNow`, `lineG`, `adsrG`, `attackNow`, `constG`, `impulseG`, `sinusoidNow`, `tableCallNow`, `getItemNow`) the other theorems of the slice are about.

The Python subset understood (anything else in a chosen function raises TranslationError = broken obligation):
  * parameters with constant defaults; the decorator `tostream`; a docstring
  * `x = E`, `x += E` with E built from names, the float literals 0. / 1. / .5, int literals, `+ - * /`, unary minus,
    `A if C else B`, `int(E)`, a left-nested chain `E % m % m ...` (only at the top of an assigned / yielded expression),
    `abs(E) < float("inf")`, `E == 0`, `E != 0`, comparisons of ints, a bool parameter, `isinf(E)`, order comparisons of
    numbers (`a >= b` is `o.le b a`; the int literal 0 is read as the number zero), `C1 and C2` of such
  * an optional number parameter (default None): `if x is None or C: A [else: B]` -> `match x with | none => A | some x =>
    if C then A else B`; `yield E` at function level (a one sample segment); what follows an endless
    `while True: yield E` in a sequence is never run and is not translated (the fall-through of `ones` / `zeros`);
    parameters that are items of any type (`one`, `zero` of impulse: only yielded)
  * `for v in g(args, kw=args): yield f(v)` with g a translated generator function and f a module level function that
    becomes a parameter of the Lean definition (`sin`); the expression `2 * pi`, written exactly so, becomes the
    parameter `twoPi`
  * `if isinstance(x, Iterable): .. else: ..`, `if C: .. else: ..`, `it = iter(x)`, `it = None`,
    `try: x = next(it) / except StopIteration: return`, `if it is None: .. else: ..`
  * loops `for v[, v..] in xzip(l, ..) / l / xrange(k)` and `while True` whose body holds exactly one `yield`, not nested
  * `return f(args)` of another translated function (defaults filled in from its signature)
  * the method `TableLookup.__call__` (Lean `table_call`): `len(self)`, `self.table`, `self.cycles * 2 * pi` (the parameter
    `den`), `float(k)`, `number * argument`, `x = g(args)` of a translated generator, `tbl[int]`, `int(ceil(E))`,
    `return Stream(E for v in x)` with the raising primitives of E bound in Python's order of evaluation; `__len__` and the
    property `table` must be the one-liners of ACCESSORS; the method `TableLookup.__getitem__` (Lean `table_getitem`, returns
    one value: `Except String α`): also `int(floor(E))` (the parameter `floor`), `j % k` of ints, `return E`
Normalised away: whitespace, comments, docstrings, line numbers.  Variable names are kept (they are the names in the Lean text)."""
import ast
import os

import common

GEN_REL = os.path.join("ALV", "Gen", "C19Src.lean")
SRC_FILE = "lazy_synth.py"
# the kind of every parameter: Python is untyped; this table is part of the trusted vocabulary mapping
PARAMS = {
    "modulo_counter": [("start", "arg"), ("modulo", "arg"), ("step", "arg")],
    "line": [("dur", "num"), ("begin", "num"), ("end", "num"), ("finish", "bool")],
    "fadein": [("dur", "num")],
    "fadeout": [("dur", "num")],
    "attack": [("a", "num"), ("d", "num"), ("s", "arg")],
    "adsr": [("dur", "num"), ("a", "num"), ("d", "num"), ("s", "num"), ("r", "num")],
    "ones": [("dur", "optnum")],
    "zeros": [("dur", "optnum")],
    "impulse": [("dur", "optnum"), ("one", "item"), ("zero", "item")],
    "sinusoid": [("freq", "arg"), ("phase", "arg")],
    "table_call": [("freq", "arg"), ("phase", "arg")],
    "table_getitem": [("idx", "num")],
}
ORDER = ["modulo_counter", "line", "fadein", "fadeout", "attack", "adsr", "ones", "zeros", "impulse", "sinusoid",
         "table_call", "table_getitem"]
# methods: Lean name -> (class, method); `self` is dropped, what is read of it comes in through EXTERNALS
METHODS = {"table_call": ("TableLookup", "__call__"), "table_getitem": ("TableLookup", "__getitem__")}
# functions that return one value (or raise): `Except String α`, no number of reads
VALUE_FUNCS = {"table_getitem"}
# one-line methods / properties the translated methods go through, checked to be exactly these
ACCESSORS = {("TableLookup", "__len__"): "return len(self._table)", ("TableLookup", "table"): "return self._table"}
# functions whose items are of any type (the yielded values are parameters): `Run β`
ITEM_FUNCS = {"impulse"}
# names of the module that a function uses, as parameters of its Lean definition: `sin` (math.sin, any function of the
# samples) and `twoPi`, the value of the expression `2 * pi` (part of the trusted vocabulary mapping)
# and, for methods, what is read of `self`: `table` (self.table, a list; len(self) is its length) and `den`, the value of
# the expression `self.cycles * 2 * pi`
EXTERNALS = {"sinusoid": [("sin", "fn"), ("twoPi", "num")], "table_call": [("table", "table"), ("den", "num")],
             "table_getitem": [("floor", "floorfn"), ("table", "table")]}     # floor: `int(math.floor(x))`, not in NumOps
BETA_FUNCS = ITEM_FUNCS | {"sinusoid"}
SHORT = {"modulo_counter": "mc", "attack": "attack", "line": "line", "adsr": "adsr"}
TAG = {"start": "P", "modulo": "M", "step": "S", "s": "S"}
LEAN_TY = {"num": "α", "int": "Int", "bool": "Bool", "arg": "Arg α", "list": "List α", "optlist": "Option (List α)",
           "optnum": "Option α", "item": "β", "fn": "α → β", "table": "List α", "floorfn": "α → Except String Int"}
RESERVED = {"end", "begin", "from", "fun", "at", "do", "then", "else", "if", "let", "in", "open", "show", "have", "o",
            "nreads", "match", "with", "def", "where", "by", "Type", "instance", "structure", "import", "namespace"}
FUEL = "nreads"
NOT_TRANSLATED = {
    "white_noise / gauss_noise": "random values: only the duration is modelled (`noiseLen`)",
    "TableLookup operators / harmonize / normalize / __init__ / table setter": "methods on an object with mutable "
        "attributes: outside the subset (hand models of Model/C19Obj)",
    "karplus_strong": "built from filter objects of lazy_filters (C04/C12 territory)",
    "resample (lazy_poly.py)": "deque / Stream.take / lagrange: outside the subset (hand model `resample`, refinement proved)",
}


class TranslationError(Exception):
    pass


def bad(node, why):
    raise TranslationError("%s (line %s): %s" % (why, getattr(node, "lineno", "?"), ast.dump(node)[:160]))


def lname(x):
    return x + "_" if x in RESERVED else x


class Fn:
    """translation of one function"""

    def __init__(self, name, sigs):
        self.name = name
        self.sigs = sigs          # name -> [(param, kind, default-node|None)] of all wanted functions
        self.tmp = 0
        self.fbind = "bindE" if name in VALUE_FUNCS else "runPre"   # a raising primitive at function level
        self.bodies = []          # emitted loop-body definitions (text)
        self.order = []           # every variable in order of first definition (for the free-variable lists)

    # ---- expressions -------------------------------------------------------------------------------------
    def fresh(self):
        self.tmp += 1
        return "t%d" % (self.tmp - 1)

    def num(self, t, ty, node):
        if ty == "num":
            return t
        if ty == "int":
            return "(o.ofInt %s)" % t
        bad(node, "a number is needed, found %s" % ty)

    def expr(self, node, env):
        """-> (binds [(var, raising term)], pure term, type)"""
        if isinstance(node, ast.Constant):
            v = node.value
            if isinstance(v, bool):
                return [], "true" if v else "false", "bool"
            if isinstance(v, float):
                lit = {0.0: "o.zero", 1.0: "o.one", 0.5: "o.half"}.get(v)
                if lit is None or (v == 0.0 and str(v) != "0.0"):
                    bad(node, "float literal outside the vocabulary {0., 1., .5}")
                return [], lit, "num"
            if isinstance(v, int):
                return [], str(v) if v >= 0 else "(%d)" % v, "int"
            bad(node, "constant")
        if isinstance(node, ast.Name):
            if node.id not in env:
                bad(node, "unknown name %r" % node.id)
            return [], lname(node.id), env[node.id]
        if isinstance(node, ast.BinOp) and isinstance(node.op, ast.Mult) and isinstance(node.left, ast.Constant) \
                and type(node.left.value) is int and node.left.value == 2 and isinstance(node.right, ast.Name) \
                and node.right.id == "pi" and env.get("twoPi") == "num" and "pi" not in env:
            return [], "twoPi", "num"          # the expression `2 * pi`, written exactly so
        if env.get("self") == "self" and env.get("den") == "num" \
                and ast.dump(node) == ast.dump(ast.parse("self.cycles * 2 * pi", mode="eval").body):
            return [], "den", "num"            # the expression `self.cycles * 2 * pi`, written exactly so
        if isinstance(node, ast.Subscript) and isinstance(node.value, ast.Name) and env.get(node.value.id) == "table":
            idx = node.slice.value if isinstance(node.slice, getattr(ast, "Index", ())) else node.slice
            b, t, ty = self.expr(idx, env)
            if ty != "int":
                bad(node, "a table is indexed with an int")
            v = self.fresh()
            return b + [(v, "indexG %s %s" % (lname(node.value.id), t))], v, "num"
        if isinstance(node, ast.Call) and isinstance(node.func, ast.Name) and node.func.id == "int" and len(node.args) == 1 \
                and not node.keywords and isinstance(node.args[0], ast.Call) and isinstance(node.args[0].func, ast.Name) \
                and node.args[0].func.id == "ceil" and len(node.args[0].args) == 1 and not node.args[0].keywords:
            b, t, ty = self.expr(node.args[0].args[0], env)
            if ty != "num":
                bad(node, "ceil() of a non-number")
            v = self.fresh()
            return b + [(v, "o.ceil %s" % t)], v, "int"
        if isinstance(node, ast.Call) and isinstance(node.func, ast.Name) and node.func.id == "int" and len(node.args) == 1 \
                and not node.keywords and isinstance(node.args[0], ast.Call) and isinstance(node.args[0].func, ast.Name) \
                and node.args[0].func.id == "floor" and len(node.args[0].args) == 1 and not node.args[0].keywords \
                and env.get("floor") == "floorfn":
            b, t, ty = self.expr(node.args[0].args[0], env)
            if ty != "num":
                bad(node, "floor() of a non-number")
            v = self.fresh()
            return b + [(v, "floor %s" % t)], v, "int"
        if isinstance(node, ast.BinOp) and isinstance(node.op, ast.Mod) and not (
                isinstance(node.left, ast.BinOp) and isinstance(node.left.op, ast.Mod)):
            bl, tl, tyl = self.expr(node.left, env)
            if tyl == "int":                         # int % int: floored, ZeroDivisionError
                br, tr, tyr = self.expr(node.right, env)
                if br or tyr != "int":
                    bad(node, "int % something that is not a plain int")
                v = self.fresh()
                return bl + [(v, "intModG %s %s" % (tl, tr))], v, "int"
            self.tmp -= len(bl)                      # not an int: read again below as a chain of number moduli
        if isinstance(node, ast.Call) and isinstance(node.func, ast.Name) and node.func.id == "float" and len(node.args) == 1 \
                and not node.keywords and isinstance(node.args[0], ast.Name) and env.get(node.args[0].id) == "int":
            return [], "(o.ofInt %s)" % lname(node.args[0].id), "num"
        if isinstance(node, ast.BinOp) and isinstance(node.op, ast.Mult) and isinstance(node.right, ast.Name) \
                and env.get(node.right.id) == "arg":
            b, t, ty = self.expr(node.left, env)       # number * (number or Stream): elementwise on a Stream
            if b or ty != "num":
                bad(node, "only a number that raises nothing multiplies an undecided argument")
            return [], "(Arg.map (fun x => o.mul %s x) %s)" % (t, lname(node.right.id)), "arg"
        if isinstance(node, ast.UnaryOp) and isinstance(node.op, ast.USub):
            b, t, ty = self.expr(node.operand, env)
            if ty == "int":
                return b, "(-%s)" % t, "int"
            return b, "(o.neg %s)" % self.num(t, ty, node), "num"
        if isinstance(node, ast.BinOp) and isinstance(node.op, ast.Mod):
            mods, base = [], node
            while isinstance(base, ast.BinOp) and isinstance(base.op, ast.Mod):
                mods.append(base.right)
                base = base.left
            mods.reverse()
            b, t, ty = self.expr(base, env)
            ms = []
            for m in mods:
                bm, tm, tym = self.expr(m, env)
                if bm:
                    bad(m, "a modulus that can raise")
                ms.append(self.num(tm, tym, m))
            v = self.fresh()
            return b + [(v, "modChain o %s [%s]" % (self.num(t, ty, base), ", ".join(ms)))], v, "num"
        if isinstance(node, ast.BinOp) and isinstance(node.op, (ast.Add, ast.Sub, ast.Mult, ast.Div)):
            bl, tl, tyl = self.expr(node.left, env)
            br, tr, tyr = self.expr(node.right, env)
            op = type(node.op)
            if tyl == "int" and tyr == "int":
                if op is ast.Div:
                    bad(node, "int / int")
                return bl + br, "(%s %s %s)" % (tl, {ast.Add: "+", ast.Sub: "-", ast.Mult: "*"}[op], tr), "int"
            f = {ast.Add: "o.add", ast.Sub: "o.sub", ast.Mult: "o.mul", ast.Div: "o.div"}[op]
            return bl + br, "(%s %s %s)" % (f, self.num(tl, tyl, node.left), self.num(tr, tyr, node.right)), "num"
        if isinstance(node, ast.Call) and isinstance(node.func, ast.Name) and node.func.id == "int" \
                and len(node.args) == 1 and not node.keywords:
            b, t, ty = self.expr(node.args[0], env)
            if ty != "num":
                bad(node, "int() of a non-number")
            v = self.fresh()
            return b + [(v, "o.trunc %s" % t)], v, "int"
        if isinstance(node, ast.IfExp):
            c = self.cond(node.test, env)
            ba, ta, tya = self.expr(node.body, env)
            bb, tb, tyb = self.expr(node.orelse, env)
            if not ba and not bb:
                if tya != tyb:
                    if {tya, tyb} != {"num", "int"}:
                        bad(node, "branches of different types")
                    ta, tb, tya = self.num(ta, tya, node), self.num(tb, tyb, node), "num"
                return [], "(if %s then %s else %s)" % (c, ta, tb), tya
            # a raising branch: only `PRIM if C else PURE` / `PURE if C else PRIM` with PRIM one raising primitive
            def arm(b, t, ty):
                if not b:
                    return ".ok %s" % t
                if len(b) == 1 and b[0][0] == t:
                    return b[0][1]
                bad(node, "a conditional expression whose branch raises after other work")
            if tya != tyb:
                bad(node, "branches of different types")
            v = self.fresh()
            return [(v, "if %s then %s else %s" % (c, arm(ba, ta, tya), arm(bb, tb, tyb)))], v, tya
        bad(node, "expression outside the subset")

    def yv(self, t, ty, node):
        """the term of a yielded value: a number, or (functions of ITEM_FUNCS) an item"""
        if self.name in ITEM_FUNCS:
            if ty != "item":
                bad(node, "an item is needed, found %s" % ty)
            return t
        return self.num(t, ty, node)

    def pure(self, node, env):
        b, t, ty = self.expr(node, env)
        if b:
            bad(node, "an expression that can raise, where a pure one is needed")
        return t, ty

    def cond(self, node, env):
        """a condition -> Lean Bool / Prop text"""
        if isinstance(node, ast.Name) and env.get(node.id) == "bool":
            return lname(node.id)
        if isinstance(node, ast.BoolOp) and isinstance(node.op, ast.And) and len(node.values) == 2:
            a, b = (self.cond(v, env) for v in node.values)
            if not all(c.startswith(("o.isInf ", "o.lt ", "o.le ", "o.isZero ", "!(o.isZero ")) for c in (a, b)):
                bad(node, "`and` of conditions that are not Bool valued operations of the number type")
            return "(%s && %s)" % (a, b)
        if isinstance(node, ast.Call) and isinstance(node.func, ast.Name) and node.func.id == "isinf" \
                and len(node.args) == 1 and not node.keywords:
            t, ty = self.pure(node.args[0], env)
            if ty != "num":
                bad(node, "isinf() of a non-number")
            return "o.isInf %s" % t
        if isinstance(node, ast.Compare) and len(node.ops) == 1:
            l, r, op = node.left, node.comparators[0], node.ops[0]
            # abs(E) < float("inf")
            if (isinstance(op, ast.Lt) and isinstance(l, ast.Call) and isinstance(l.func, ast.Name) and l.func.id == "abs"
                    and len(l.args) == 1 and isinstance(r, ast.Call) and isinstance(r.func, ast.Name)
                    and r.func.id == "float" and len(r.args) == 1 and isinstance(r.args[0], ast.Constant)
                    and r.args[0].value == "inf"):
                t, ty = self.pure(l.args[0], env)
                if ty != "num":
                    bad(node, "abs() of a non-number")
                return "finiteG o %s" % t
            tl, tyl = self.pure(l, env)
            tr, tyr = self.pure(r, env)
            if tyl == "num" and isinstance(r, ast.Constant) and r.value == 0 and not isinstance(r.value, bool) \
                    and isinstance(op, (ast.Eq, ast.NotEq)):
                return ("o.isZero %s" if isinstance(op, ast.Eq) else "!(o.isZero %s)") % tl
            if tyl == "num" and isinstance(op, (ast.Lt, ast.LtE, ast.Gt, ast.GtE)):
                # an order comparison of numbers; the int literal 0 is read as the number zero
                if isinstance(r, ast.Constant) and r.value == 0 and not isinstance(r.value, bool):
                    tr, tyr = "o.zero", "num"
                if tyr != "num":
                    bad(node, "comparison of a number with %s" % tyr)
                f, x, y = {ast.Lt: ("o.lt", tl, tr), ast.LtE: ("o.le", tl, tr), ast.Gt: ("o.lt", tr, tl),
                           ast.GtE: ("o.le", tr, tl)}[type(op)]
                return "%s %s %s" % (f, x, y)
            if tyl == "int" and tyr == "int":
                sym = {ast.Eq: "=", ast.NotEq: "≠", ast.Lt: "<", ast.LtE: "≤", ast.Gt: ">", ast.GtE: "≥"}.get(type(op))
                if sym:
                    return "%s %s %s" % (tl, sym, tr)
        bad(node, "condition outside the subset")

    def cond_tag(self, node):
        if isinstance(node, ast.Compare) and isinstance(node.ops[0], ast.Eq) and isinstance(node.comparators[0], ast.Constant) \
                and node.comparators[0].value == 0:
            return "0", "x"
        return "t", "e"

    # ---- helpers ------------------------------------------------------------------------------------------
    def define(self, env, name, ty):
        env = dict(env)
        env[name] = ty
        if name not in self.order:
            self.order.append(name)
        return env

    @staticmethod
    def is_isinstance(test):
        return (isinstance(test, ast.Call) and isinstance(test.func, ast.Name) and test.func.id == "isinstance"
                and len(test.args) == 2 and isinstance(test.args[0], ast.Name)
                and isinstance(test.args[1], ast.Name) and test.args[1].id == "Iterable")

    @staticmethod
    def is_none_test(test):
        return (isinstance(test, ast.Compare) and len(test.ops) == 1 and isinstance(test.ops[0], ast.Is)
                and isinstance(test.left, ast.Name) and isinstance(test.comparators[0], ast.Constant)
                and test.comparators[0].value is None)

    @staticmethod
    def is_while_true(st):
        return isinstance(st, ast.While) and isinstance(st.test, ast.Constant) and st.test.value is True and not st.orelse

    def assign_parts(self, st, env):
        """`x = E` / `x += E` -> (target name, value node as if `x = E'`)"""
        if isinstance(st, ast.Assign) and len(st.targets) == 1 and isinstance(st.targets[0], ast.Name):
            return st.targets[0].id, st.value
        if isinstance(st, ast.AugAssign) and isinstance(st.target, ast.Name) \
                and isinstance(st.op, (ast.Add, ast.Sub, ast.Mult, ast.Div)):
            if st.target.id not in env:
                bad(st, "augmented assignment to an undefined name")
            return st.target.id, ast.copy_location(
                ast.BinOp(left=ast.Name(id=st.target.id, ctx=ast.Load()), op=st.op, right=st.value), st)
        return None

    def assign(self, st, env, binder, ind):
        """-> (lines, env') for an assignment; `binder` is the combinator for raising expressions"""
        x, value = self.assign_parts(st, env)
        b, t, ty = self.expr(value, env)
        if x in env and env[x] != ty:
            if env[x] == "num" and ty == "int":
                t, ty = self.num(t, ty, value), "num"
            else:
                bad(st, "%r changes its type from %s to %s" % (x, env[x], ty))
        lines = []
        if b and b[-1][0] == t:            # `x = <raising primitive>`: bind it to x directly
            b = b[:-1] + [(lname(x), b[-1][1])]
            t = None
        for v, term in b:
            lines.append("%s%s (%s) fun %s =>" % (ind, binder, term, v))
        if t is not None:
            lines.append("%slet %s%s := %s" % (ind, lname(x), " : Int" if ty == "int" else "", t))
        return lines, self.define(env, x, ty)

    # ---- function level -----------------------------------------------------------------------------------
    def block(self, stmts, env, path, ind):
        """statements up to the end of the function -> lines of a `Run α` term"""
        if not stmts:
            return ["%stakeRun %s []" % (ind, FUEL)]
        st, rest = stmts[0], stmts[1:]
        if self.is_segment(st, env) and all(self.is_segment_tail(s, env) for s in stmts):
            return self.segments(stmts, env, ind)
        if self.assign_parts(st, env) is not None:
            x, value = self.assign_parts(st, env)
            if isinstance(value, ast.Call) and isinstance(value.func, ast.Name) and value.func.id == "iter" \
                    and len(value.args) == 1 and isinstance(value.args[0], ast.Name) and env.get(value.args[0].id) == "list":
                return (["%slet %s : Option (List α) := some %s" % (ind, lname(x), lname(value.args[0].id))]
                        + self.block(rest, self.define(env, x, "optlist"), path, ind))
            if isinstance(value, ast.Constant) and value.value is None:
                return (["%slet %s : Option (List α) := none" % (ind, lname(x))]
                        + self.block(rest, self.define(env, x, "optlist"), path, ind))
            if isinstance(value, ast.Name) and env.get(value.id) == "arg":
                bad(st, "copy of an argument whose kind is not decided yet")
            if env.get("self") == "self" and ast.dump(value) == ast.dump(ast.parse("len(self)", mode="eval").body):
                return (["%slet %s : Int := (table.length : Int)" % (ind, lname(x))]
                        + self.block(rest, self.define(env, x, "int"), path, ind))
            if env.get("self") == "self" and ast.dump(value) == ast.dump(ast.parse("self.table", mode="eval").body):
                return (["%slet %s := table" % (ind, lname(x))] + self.block(rest, self.define(env, x, "table"), path, ind))
            if isinstance(value, ast.Call) and isinstance(value.func, ast.Name) and value.func.id in self.sigs:
                return (["%slet %s := %s" % (ind, lname(x), self.gen_call(value, env))]
                        + self.block(rest, self.define(env, x, "run"), path, ind))
            if x in env and env[x] in ("arg", "table", "run", "self", "fn"):
                bad(st, "assignment to %r (%s)" % (x, env[x]))
            b0, t0, ty0 = self.expr(value, env)
            if ty0 == "arg":
                if b0:
                    bad(st, "raising argument expression")
                return (["%slet %s := %s" % (ind, lname(x), t0)] + self.block(rest, self.define(env, x, "arg"), path, ind))
            lines, env2 = self.assign(st, env, self.fbind, ind)
            return lines + self.block(rest, env2, path, ind)
        if isinstance(st, ast.If) and self.is_isinstance(st.test):
            x = st.test.args[0].id
            if env.get(x) != "arg":
                bad(st, "isinstance() of something that is not an undecided argument")
            tag = TAG.get(x, x)
            return (["%smatch %s with" % (ind, lname(x)), "%s| .strm %s =>" % (ind, lname(x))]
                    + self.block(st.body + rest, dict(env, **{x: "list"}), path + tag.upper(), ind + "  ")
                    + ["%s| .num %s =>" % (ind, lname(x))]
                    + self.block(st.orelse + rest, dict(env, **{x: "num"}), path + tag.lower(), ind + "  "))
        if isinstance(st, ast.If) and isinstance(st.test, ast.BoolOp) and isinstance(st.test.op, ast.Or) \
                and len(st.test.values) == 2 and self.is_none_test(st.test.values[0]) \
                and env.get(st.test.values[0].left.id) == "optnum":
            # `if x is None or C: A else: B` on an optional number (C is evaluated only when x is a number)
            x = st.test.values[0].left.id
            envs = dict(env, **{x: "num"})
            c = self.cond(st.test.values[1], envs)
            return (["%smatch %s with" % (ind, lname(x)), "%s| none =>" % ind]
                    + self.block(st.body + rest, dict(env, **{x: "nothing"}), path + "N", ind + "  ")
                    + ["%s| some %s =>" % (ind, lname(x)), "%s  if %s then" % (ind, c)]
                    + self.block(st.body + rest, envs, path + "T", ind + "    ")
                    + ["%s  else" % ind] + self.block(st.orelse + rest, envs, path + "E", ind + "    "))
        if isinstance(st, ast.If) and self.is_none_test(st.test):
            x = st.test.left.id
            if env.get(x) != "optlist":
                bad(st, "`is None` of something that is not an optional iterator")
            return (["%smatch %s with" % (ind, lname(x)), "%s| none =>" % ind]
                    + self.block(st.body + rest, env, path + "N", ind + "  ")
                    + ["%s| some %s =>" % (ind, lname(x))]
                    + self.block(st.orelse + rest, dict(env, **{x: "list"}), path + "I", ind + "  "))
        if isinstance(st, ast.If):
            c = self.cond(st.test, env)
            ta, tb = self.cond_tag(st.test)
            return (["%sif %s then" % (ind, c)] + self.block(st.body + rest, env, path + ta, ind + "  ")
                    + ["%selse" % ind] + self.block(st.orelse + rest, env, path + tb, ind + "  "))
        if isinstance(st, ast.Try):
            # try: x = next(it) / except StopIteration: return
            ok = (len(st.body) == 1 and len(st.handlers) == 1 and not st.orelse and not st.finalbody
                  and isinstance(st.handlers[0].type, ast.Name) and st.handlers[0].type.id == "StopIteration"
                  and st.handlers[0].name is None and len(st.handlers[0].body) == 1
                  and isinstance(st.handlers[0].body[0], ast.Return) and st.handlers[0].body[0].value is None)
            a = self.assign_parts(st.body[0], env) if ok else None
            if not (a and isinstance(a[1], ast.Call) and isinstance(a[1].func, ast.Name) and a[1].func.id == "next"
                    and len(a[1].args) == 1 and isinstance(a[1].args[0], ast.Name) and env.get(a[1].args[0].id) == "optlist"):
                bad(st, "try statement outside the subset")
            x, it = a[0], a[1].args[0].id
            env2 = self.define(env, x, "num")
            return (["%snextOr %s ([], none) fun %s %s =>" % (ind, lname(it), lname(x), lname(it))]
                    + self.block(rest, env2, path, ind))
        if isinstance(st, ast.For) and isinstance(st.iter, ast.Call) and isinstance(st.iter.func, ast.Name) \
                and st.iter.func.id in self.sigs:
            if rest:
                bad(rest[0], "statements after a loop over a generator")
            return self.map_loop(st, env, ind)
        if isinstance(st, (ast.For, ast.While)):
            if rest:
                bad(rest[0], "statements after a stateful loop")
            return self.loop(st, env, path, ind)
        if isinstance(st, ast.Return) and not rest and isinstance(st.value, ast.Call) and isinstance(st.value.func, ast.Name) \
                and st.value.func.id == "Stream" and len(st.value.args) == 1 and not st.value.keywords \
                and isinstance(st.value.args[0], ast.GeneratorExp):
            # `return Stream(E for v in r)` with r the run of a generator: E, which may raise, of every output, lazily
            ge = st.value.args[0]
            if len(ge.generators) != 1:
                bad(st, "generator expression with several `for`")
            g = ge.generators[0]
            if g.ifs or getattr(g, "is_async", 0) or not (isinstance(g.target, ast.Name) and isinstance(g.iter, ast.Name)
                                                          and env.get(g.iter.id) == "run" and g.target.id not in env):
                bad(st, "generator expression outside the subset")
            b, t, ty = self.expr(ge.elt, dict(env, **{g.target.id: "num"}))
            lines = ["%smapRunG (fun %s =>" % (ind, lname(g.target.id))]
            lines += ["%s  bindE (%s) fun %s =>" % (ind, term, v) for v, term in b]
            lines.append("%s  .ok %s) %s" % (ind, self.num(t, ty, ge.elt), lname(g.iter.id)))
            return lines
        if isinstance(st, ast.Return) and st.value is not None and not rest and self.name in VALUE_FUNCS:
            b, t, ty = self.expr(st.value, env)
            return (["%sbindE (%s) fun %s =>" % (ind, term, v) for v, term in b]
                    + ["%s.ok %s" % (ind, self.num(t, ty, st.value))])
        if isinstance(st, ast.Return) and st.value is not None and not rest:
            return [ind + self.call(st.value, env)]
        bad(st, "statement outside the subset")

    def call(self, node, env):
        """`return f(args)` of another translated function"""
        if not (isinstance(node, ast.Call) and isinstance(node.func, ast.Name) and node.func.id in self.sigs
                and not node.keywords and ORDER.index(node.func.id) < ORDER.index(self.name) + len(ORDER)):
            bad(node, "return of something that is not a call of a translated function")
        sig = self.sigs[node.func.id]
        if len(node.args) > len(sig):
            bad(node, "too many arguments")
        args = []
        for i, (p, kind, dflt) in enumerate(sig):
            a = node.args[i] if i < len(node.args) else dflt
            if a is None:
                bad(node, "missing argument %r" % p)
            t, ty = self.pure(a, env if i < len(node.args) else {})
            if kind == "num":
                t = self.num(t, ty, a)
            elif kind != ty:
                bad(node, "argument %r: %s given, %s needed" % (p, ty, kind))
            args.append(t)
        return "ALV.Gen.C19.%s o %s %s" % (node.func.id, " ".join(args), FUEL)

    def map_loop(self, st, env, ind):
        """`for v in g(args): yield f(v)` with g a translated generator function, f a function parameter: the outputs of
        g through f, the exception of g (if any) after them"""
        if st.orelse or not (isinstance(st.target, ast.Name) and self.single_yield(st)):
            bad(st, "loop over a generator outside the subset")
        v, y = st.target.id, st.body[0].value.value
        if not (isinstance(y, ast.Call) and isinstance(y.func, ast.Name) and env.get(y.func.id) == "fn" and not y.keywords
                and len(y.args) == 1 and isinstance(y.args[0], ast.Name) and y.args[0].id == v and v not in env):
            bad(st, "the body of a loop over a generator must be `yield f(v)`")
        return ["%smapOut %s (%s)" % (ind, lname(y.func.id), self.gen_call(st.iter, env))]

    def gen_call(self, call, env):
        """a call `g(args, kw=args)` of a translated generator function -> its run"""
        g = call.func.id
        if ORDER.index(g) >= ORDER.index(self.name) or g in BETA_FUNCS or g in METHODS:
            bad(call, "call of a generator that is not translated before this function")
        sig = self.sigs[g]
        given = {}
        for i, a in enumerate(call.args):
            if i >= len(sig):
                bad(call, "too many arguments")
            given[sig[i][0]] = a
        for kw in call.keywords:
            if kw.arg is None or kw.arg not in [p for p, _, _ in sig] or kw.arg in given:
                bad(call, "keyword argument %r" % kw.arg)
            given[kw.arg] = kw.value
        args = []
        for p, kind, dflt in sig:
            a = given.get(p, dflt)
            if a is None:
                bad(call, "missing argument %r" % p)
            if kind == "arg" and isinstance(a, ast.Name) and env.get(a.id) == "arg" and p in given:
                args.append(lname(a.id))
                continue
            t, ty = self.pure(a, env if p in given else {})
            if kind == "arg":
                args.append("(.strm %s)" % t if ty == "list" else "(.num %s)" % self.num(t, ty, a))
            elif kind == "num":
                args.append(self.num(t, ty, a))
            elif kind == ty:
                args.append(t)
            else:
                bad(call, "argument %r: %s given, %s needed" % (p, ty, kind))
        return "ALV.Gen.C19.%s o %s %s" % (g, " ".join(args), FUEL)

    # ---- list segments ------------------------------------------------------------------------------------
    def single_yield(self, st):
        return (len(st.body) == 1 and isinstance(st.body[0], ast.Expr) and isinstance(st.body[0].value, ast.Yield)
                and st.body[0].value.value is not None)

    def is_segment(self, st, env):
        """a loop whose body is one `yield` of an expression that raises nothing and assigns nothing"""
        if isinstance(st, ast.Expr) and isinstance(st.value, ast.Yield) and st.value.value is not None:
            y = st.value.value        # a `yield E` at function level: a segment of one sample
            return not any(isinstance(n, ast.BinOp) and isinstance(n.op, ast.Mod) or isinstance(n, ast.Call)
                           for n in ast.walk(y))
        if not isinstance(st, (ast.For, ast.While)) or st.orelse or not self.single_yield(st):
            return False
        y = st.body[0].value.value
        if any(isinstance(n, ast.BinOp) and isinstance(n.op, ast.Mod) or isinstance(n, ast.Call) for n in ast.walk(y)):
            return False
        if isinstance(st, ast.While):
            return self.is_while_true(st)
        it = st.iter
        if not isinstance(st.target, ast.Name):
            return False
        if isinstance(it, ast.Call) and isinstance(it.func, ast.Name) and it.func.id == "xrange" and len(it.args) == 1:
            return True
        return isinstance(it, ast.Name) and env.get(it.id) == "list" and len(ast.dump(y)) < 60 and \
            isinstance(y, ast.Name) and y.id == st.target.id

    def is_segment_tail(self, st, env):
        if isinstance(st, ast.If) and self.is_none_test(st.test):
            x = st.test.left.id
            return (all(self.is_segment_tail(s, env) for s in st.body)
                    and all(self.is_segment_tail(s, dict(env, **{x: "list"})) for s in st.orelse))
        return self.is_segment(st, env)

    def segments(self, stmts, env, ind):
        pre, segs = [], []
        for k, st in enumerate(stmts):
            b, t = self.segment(st, env, stmts[k + 1:])
            if b and k > 0:
                bad(st, "a loop bound that can raise, after samples were already yielded")
            pre += ["%srunPre (%s) fun %s =>" % (ind, term, v) for v, term in b]
            segs.append(t)
            if isinstance(st, ast.If) or (isinstance(st, ast.While) and stmts[k + 1:]):
                break                 # `while True: yield E` never ends: what follows it is never run
        return pre + ["%stakeRun %s (%s)" % (ind, FUEL, ("\n%s  ++ " % ind).join(segs))]

    def segment(self, st, env, rest):
        if isinstance(st, ast.If):
            x = st.test.left.id
            if env.get(x) != "optlist":
                bad(st, "`is None` of something that is not an optional iterator")
            a = [self.segment(s, env, [])[1] for s in st.body + rest]
            envb = dict(env, **{x: "list"})
            b = [self.segment(s, envb, [])[1] for s in st.orelse + rest]
            return [], "(match %s with | none => %s | some %s => %s)" % (
                lname(x), " ++ ".join(a) or "[]", lname(x), " ++ ".join(b) or "[]")
        if isinstance(st, ast.Expr):
            t, ty = self.pure(st.value.value, env)
            return [], "[%s]" % self.yv(t, ty, st)
        y = st.body[0].value.value
        if isinstance(st, ast.While):
            t, ty = self.pure(y, env)
            return [], "List.replicate %s %s" % (FUEL, self.yv(t, ty, y))
        v = st.target.id
        if isinstance(st.iter, ast.Name):
            t, ty = self.pure(y, dict(env, **{v: "num"}))
            return [], "List.map (fun %s => %s) %s" % (lname(v), t, lname(st.iter.id))
        b, k, kty = self.expr(st.iter.args[0], env)
        if kty != "int":
            bad(st, "xrange() of a non-int")
        t, ty = self.pure(y, dict(env, **{v: "int"}))
        return b, "rangeG %s %s (fun (%s : Nat) => %s)" % (k, FUEL, lname(v), self.yv(t, ty, y))

    # ---- stateful loops -----------------------------------------------------------------------------------
    def assigned(self, stmts, acc):
        for s in stmts:
            if isinstance(s, (ast.Assign, ast.AugAssign)):
                tg = s.targets[0] if isinstance(s, ast.Assign) else s.target
                if not isinstance(tg, ast.Name):
                    bad(s, "assignment target")
                if tg.id not in acc:
                    acc.append(tg.id)
            elif isinstance(s, ast.If):
                self.assigned(s.body, acc)
                self.assigned(s.orelse, acc)
            elif isinstance(s, ast.Expr) and isinstance(s.value, ast.Yield):
                pass
            else:
                bad(s, "statement in a loop body outside the subset")
        return acc

    def loop(self, st, env, path, ind):
        if st.orelse:
            bad(st, "loop with else")
        if isinstance(st, ast.While):
            if not self.is_while_true(st):
                bad(st, "while loop other than `while True`")
            targets, lists = [], None
        else:
            it = st.iter
            if isinstance(it, ast.Call) and isinstance(it.func, ast.Name) and it.func.id == "xzip" and not it.keywords \
                    and all(isinstance(a, ast.Name) for a in it.args) and len(it.args) >= 2:
                lists = [a.id for a in it.args]
                if not (isinstance(st.target, ast.Tuple) and len(st.target.elts) == len(lists)
                        and all(isinstance(e, ast.Name) for e in st.target.elts)):
                    bad(st, "loop targets do not match xzip()")
                targets = [e.id for e in st.target.elts]
            elif isinstance(it, ast.Name) and isinstance(st.target, ast.Name):
                lists, targets = [it.id], [st.target.id]
            else:
                bad(st, "loop iterable outside the subset")
            for l in lists:
                if env.get(l) != "list":
                    bad(st, "loop over %r, which is not known to be an iterable here" % l)
        state = self.assigned(st.body, [])
        for v in state:
            if v not in env or env[v] not in ("num", "int"):
                bad(st, "loop state %r is not initialised before the loop" % v)
            if v in targets:
                bad(st, "loop target assigned in the body")
        ys = [s for s in st.body if isinstance(s, ast.Expr) and isinstance(s.value, ast.Yield)]
        if len(ys) != 1 or sum(isinstance(n, ast.Yield) for s in st.body for n in ast.walk(s)) != 1:
            bad(st, "a loop body must hold exactly one yield, not nested")
        benv = dict(env)
        for t in targets:
            benv[t] = "num"
        used = {n.id for s in st.body for n in ast.walk(s) if isinstance(n, ast.Name)}
        free = [v for v in self.order if v in used and v not in state and v not in targets and env.get(v) in ("num", "int")]
        for v in used:
            if v not in state and v not in targets and v not in free:
                bad(st, "loop body uses %r (%s)" % (v, env.get(v)))
        tup = lambda names: "(" + ", ".join(lname(x) for x in names) + ")" if len(names) != 1 else lname(names[0])
        sty = " × ".join(LEAN_TY[env[v]] for v in state) if state else "Unit"
        sty = "(%s)" % sty if len(state) > 1 else sty
        name = "%s_%s" % (SHORT[self.name], path)
        params = "".join(" (%s : %s)" % (lname(v), LEAN_TY[env[v]]) for v in free)
        k = ys[0]
        idx = st.body.index(k)
        lines = []
        e = benv
        for s in st.body[:idx]:
            if self.assign_parts(s, e) is None:
                bad(s, "only assignments may precede the yield of a loop body")
            ls, e = self.assign(s, e, "Iter.pre", "  ")
            lines += ls
        b, t, ty = self.expr(k.value.value, e)
        lines += ["  Iter.pre (%s) fun %s =>" % (term, v) for v, term in b]
        lines.append("  .yield %s (" % self.num(t, ty, k))
        lines += self.after(st.body[idx + 1:], e, state, "  ")
        lines[-1] += ")"
        if lists is None:
            head = "def %s (o : NumOps α)%s : %s → Iter α %s :=\n  fun %s =>" % (name, params, sty, sty, tup(state))
            call = "%swhileG (ALV.Gen.C19.%s o%s) %s %s" % (ind, name, "".join(" " + lname(v) for v in free), FUEL, tup(state))
        else:
            ity = " × ".join("α" for _ in targets)
            ity = "(%s)" % ity if len(targets) > 1 else ity
            head = "def %s (o : NumOps α)%s : %s → %s → Iter α %s :=\n  fun %s %s =>" % (
                name, params, sty, ity, sty, tup(state), tup(targets))
            z = lname(lists[-1])
            for l in reversed(lists[:-1]):
                z = "(List.zip %s %s)" % (lname(l), z)
            call = "%sforG (ALV.Gen.C19.%s o%s) %s %s %s" % (
                ind, name, "".join(" " + lname(v) for v in free), FUEL, tup(state), z)
        self.bodies.append(head + "\n" + "\n".join(lines))
        return [call]

    def after(self, stmts, env, state, ind):
        """the statements after the yield -> lines of an `Except String state` term"""
        if not stmts:
            tup = "(" + ", ".join(lname(x) for x in state) + ")" if len(state) != 1 else lname(state[0])
            return ["%s.ok %s" % (ind, tup)]
        st, rest = stmts[0], stmts[1:]
        if self.assign_parts(st, env) is not None:
            lines, env2 = self.assign(st, env, "post", ind)
            return lines + self.after(rest, env2, state, ind)
        if isinstance(st, ast.If):
            c = self.cond(st.test, env)
            return (["%sif %s then" % (ind, c)] + self.after(st.body + rest, env, state, ind + "  ")
                    + ["%selse" % ind] + self.after(st.orelse + rest, env, state, ind + "  "))
        bad(st, "statement after a yield outside the subset")


def read_functions(text):
    """source text -> {name: FunctionDef} of the wanted top-level functions"""
    tree = ast.parse(text)
    found = {}
    seen_acc = set()
    for node in tree.body:
        if isinstance(node, ast.FunctionDef) and node.name in PARAMS:
            if node.name in found:
                raise TranslationError("%s defined twice" % node.name)
            found[node.name] = node
        if isinstance(node, ast.ClassDef):
            for sub in node.body:
                if not isinstance(sub, ast.FunctionDef):
                    continue
                for lean, (cls, meth) in METHODS.items():
                    if (node.name, sub.name) == (cls, meth):
                        if lean in found:
                            raise TranslationError("%s.%s defined twice" % (cls, meth))
                        found[lean] = sub
                want = ACCESSORS.get((node.name, sub.name))
                getter = [ast.dump(d) for d in sub.decorator_list] in ([], [ast.dump(ast.Name(id="property", ctx=ast.Load()))])
                if want is not None and getter:
                    body = [b for b in sub.body if not (isinstance(b, ast.Expr) and isinstance(b.value, ast.Constant))]
                    if [ast.dump(b) for b in body] != [ast.dump(b) for b in ast.parse(want).body] \
                            or [a.arg for a in sub.args.args] != ["self"]:
                        raise TranslationError("%s.%s is not `%s`" % (node.name, sub.name, want))
                    seen_acc.add((node.name, sub.name))
    if set(ACCESSORS) - seen_acc:
        raise TranslationError("accessors not found: %s" % sorted(set(ACCESSORS) - seen_acc))
    missing = [f for f in ORDER if f not in found]
    if missing:
        raise TranslationError("functions not found: %s" % missing)
    return found


def signature(fn):
    a = fn.args
    if a.vararg or a.kwarg or a.kwonlyargs or getattr(a, "posonlyargs", None):
        bad(fn, "*args / **kwargs / keyword-only / positional-only parameters")
    want = PARAMS[fn.lean_name]
    given = [p.arg for p in a.args]
    if fn.lean_name in METHODS:
        if given[:1] != ["self"]:
            bad(fn, "a method without self")
        given = given[1:]
    if given != [p for p, _ in want]:
        bad(fn, "parameters %s, expected %s" % (given, [p for p, _ in want]))
    nd = len(a.defaults)
    out = []
    for i, (p, kind) in enumerate(want):
        k = i - (len(given) - nd)
        d = a.defaults[k] if k >= 0 else None
        if d is not None and kind == "optnum" and isinstance(d, ast.Constant) and d.value is None:
            pass
        elif d is not None and not (isinstance(d, ast.Constant) and isinstance(d.value, (int, float, bool))):
            bad(fn, "default of %r is not a number / bool constant" % p)
        out.append((p, kind, d))
    return out


def decorators(fn):
    out = []
    for d in fn.decorator_list:
        if not (isinstance(d, ast.Name) and d.id == "tostream"):
            bad(fn, "decorator outside the subset")
        out.append(d.id)
    return out


def translate(text):
    fns = read_functions(text)
    for f in fns:
        fns[f].lean_name = f
    sigs = {f: signature(fns[f]) for f in ORDER}
    out = ["/- GENERATED by harness/props/c19_tr.py from audiolazy/lazy_synth.py (function bodies read with `ast`):",
           "   " + ", ".join(ORDER) + ".",
           "   Vocabulary: lean/ALV/Model/C19Src.lean.  Do not edit: rewritten on every `./check C19 …`. -/",
           "import ALV.Model.C19Src", "namespace ALV.Gen.C19", "open ALV.C19",
           "set_option linter.unusedVariables false", "variable {α : Type}", ""]
    rows = []
    for f in ORDER:
        for p, kind, d in sigs[f]:
            if d is not None:
                rows.append('  ("%s", "%s", "%s")' % (f, p, repr(d.value)))
    out += ["/-- default values of the parameters, as written -/",
            "def defaults : List (String × String × String) := [", ",\n".join(rows) + "]", ""]
    out += ["/-- decorators, as written -/", "def decorators : List (String × List String) := [",
            ",\n".join('  ("%s", [%s])' % (f, ", ".join('"%s"' % d for d in decorators(fns[f]))) for f in ORDER) + "]", ""]
    for f in ORDER:
        fn = fns[f]
        body = list(fn.body)
        if body and isinstance(body[0], ast.Expr) and isinstance(body[0].value, ast.Constant) \
                and isinstance(body[0].value.value, str):
            body = body[1:]
        tr = Fn(f, sigs)
        env = {"self": "self"} if f in METHODS else {}
        for p, kind in EXTERNALS.get(f, []):
            env = tr.define(env, p, kind)
        for p, kind, _ in sigs[f]:
            env = tr.define(env, p, kind)
        lines = tr.block(body, env, "", "  ")
        for b in tr.bodies:
            out += [b, ""]
        params = " ".join("(%s : %s)" % (lname(p), LEAN_TY[kind])
                          for p, kind in EXTERNALS.get(f, []) + [(p, kind) for p, kind, _ in sigs[f]])
        if f in VALUE_FUNCS:
            out += ["def %s (o : NumOps α) %s : Except String α :=" % (f, params)] + lines + [""]
        elif f in BETA_FUNCS:
            out += ["def %s {β : Type} (o : NumOps α) %s (%s : Nat) : Run β :=" % (f, params, FUEL)] + lines + [""]
        else:
            out += ["def %s (o : NumOps α) %s (%s : Nat) : Run α :=" % (f, params, FUEL)] + lines + [""]
    out += ["end ALV.Gen.C19", ""]
    return "\n".join(out)


def read_source():
    with open(os.path.join(common.REPO, "audiolazy", SRC_FILE)) as f:
        return f.read()


def committed():
    import subprocess
    good = subprocess.run(["git", "-C", common.VERIF, "show", "HEAD:lean/" + GEN_REL.replace(os.sep, "/")],
                          capture_output=True, text=True, timeout=30)
    return good.stdout if good.returncode == 0 and good.stdout else None


def regenerate(eng=None):
    """Rewrite lean/ALV/Gen/C19Src.lean from the repo under test.  On a translation failure the last committed file is
    put back (so the build speaks about the last translatable state) and the error propagates (= broken obligation)."""
    path = os.path.join(common.LEAN, GEN_REL)
    try:
        text = translate(read_source())
    except Exception:
        try:
            good = committed()
            if good and (not os.path.exists(path) or open(path).read() != good):
                with open(path, "w") as f:
                    f.write(good)
        except Exception:
            pass
        raise
    old = open(path).read() if os.path.exists(path) else None
    if old != text:
        os.makedirs(os.path.dirname(path), exist_ok=True)
        with open(path, "w") as f:
            f.write(text)
        return "rewritten (%d bytes)" % len(text)
    return "unchanged (%d bytes)" % len(text)


# --- self test: the translator must see deliberate edits of the source text --------------------------------------------
EDITS = [
    ("drop-one-%-modulo (fast path, start iterable)", "yield (c + n * step) % modulo % modulo\n              lastp = p",
     "yield (c + n * step) % modulo\n              lastp = p"),
    ("lastp-not-updated (PMS loop)", "          c += s\n          lastp = p\n      else:\n        for p, s in xzip(start, step):",
     "          c += s\n      else:\n        for p, s in xzip(start, step):"),
    ("swap-comparison steps > 1 -> steps >= 1", "          if steps > 1:\n            n = 0\n            while True:",
     "          if steps >= 1:\n            n = 0\n            while True:"),
    ("constant int(dur + .5) -> int(dur)", "for sample in xrange(int(dur + .5)):", "for sample in xrange(int(dur)):"),
    ("reorder two statements (adsr len_d / len_r)", "  len_d = int(d + .5)\n  len_r = int(r + .5)\n  len_s",
     "  len_r = int(r + .5)\n  len_d = int(d + .5)\n  len_s"),
    ("drop the slope guard (adsr m_r)", "m_r = - s * 1. / r if r != 0 else 0.", "m_r = - s * 1. / r"),
    ("fadeout arguments swapped", "return line(dur, 1., 0.)", "return line(dur, 0., 1.)"),
    ("attack: sustain stream restarted (iter dropped)", "      s = next(it_s)", "      s = next(iter(s))"),
    ("ones: rounding of the duration int(.5 + dur) -> int(dur)", "  for x in xrange(int(.5 + dur)):\n    yield 1.0",
     "  for x in xrange(int(dur)):\n    yield 1.0"),
    ("zeros yields 1.0 in the endless branch", "    while True:\n      yield 0.0", "    while True:\n      yield 1.0"),
    ("impulse: endless for negative infinity too (dur > 0 dropped)",
     "  if dur is None or (isinf(dur) and dur > 0):\n    yield one", "  if dur is None or isinf(dur):\n    yield one"),
    ("impulse: swap-comparison dur >= .5 -> dur > .5", "  elif dur >= .5:", "  elif dur > .5:"),
    ("impulse: constant int(dur - .5) -> int(dur + .5)", "num_samples = int(dur - .5)", "num_samples = int(dur + .5)"),
    ("sinusoid: phase and frequency swapped", "modulo_counter(start=phase, modulo=2 * pi, step=freq)",
     "modulo_counter(start=freq, modulo=2 * pi, step=phase)"),
    ("sinusoid: modulo pi", "modulo_counter(start=phase, modulo=2 * pi, step=freq)",
     "modulo_counter(start=phase, modulo=pi, step=freq)"),
    ("sinusoid: the counter itself is yielded", "    yield sin(n)", "    yield n"),
    ("TableLookup.__call__: counter arguments swapped", "tbl_iter = modulo_counter(part, total_len_float, step)",
     "tbl_iter = modulo_counter(step, total_len_float, part)"),
    ("TableLookup.__call__: right neighbour without the wrap", "tbl[int(ceil(idx)) - total_length]", "tbl[int(ceil(idx))]"),
    ("TableLookup.__call__: left weight is the fraction", "return Stream(tbl[int(idx)] * (1. - (idx - int(idx))) +",
     "return Stream(tbl[int(idx)] * (idx - int(idx)) +"),
    ("TableLookup.__call__: cycle length without the cycles", "cycle_length = total_len_float / (self.cycles * 2 * pi)",
     "cycle_length = total_len_float / (2 * pi)"),
    ("TableLookup.__len__ counts something else", "    return len(self._table)", "    return len(self._table) - 1"),
    ("TableLookup.__getitem__: D15 back (int(idx) instead of int(floor(idx)))", "left = int(floor(idx))", "left = int(idx)"),
    ("TableLookup.__getitem__: left neighbour without the wrap", "return tbl[left % total_length] *", "return tbl[left] *"),
    ("TableLookup.__getitem__: weights swapped", "tbl[int(ceil(idx)) % total_length] * (idx - left)",
     "tbl[int(ceil(idx)) % total_length] * (left - idx)"),
    ("impulse: the one is yielded after the zeros (reorder)", "    yield one\n    for x in xrange(num_samples):\n      yield zero",
     "    for x in xrange(num_samples):\n      yield zero\n    yield one"),
]


def selftest(text=None):
    """-> list of (name, ok, detail)"""
    res = []
    text = read_source() if text is None else text
    base = translate(text)
    path = os.path.join(common.LEAN, GEN_REL)
    good = committed()
    if common.REPO.rstrip("/") == "/repo":
        same = good is not None and base == good
        res.append(("unchanged source reproduces the committed Gen file byte for byte", same,
                    "lean/%s differs from the translation of /repo (commit the regenerated file)" % GEN_REL))
    # normalisation: comments, blank lines, docstrings do not matter
    noisy = text.replace("def adsr(dur, a, d, s, r):", "def adsr(dur, a, d, s, r):   # a comment\n")
    res.append(("comments / blank lines are normalised away", translate(noisy) == base, "a comment changed the translation"))
    for name, old, new in EDITS:
        if text.count(old) != 1:
            res.append(("edit applies: " + name, common.REPO.rstrip("/") != "/repo", "pattern found %d times" % text.count(old)))
            continue
        try:
            t = translate(text.replace(old, new))
            res.append(("edit seen: " + name, t != base, "the edited source translates to the same Lean text"))
        except TranslationError as e:
            res.append(("edit seen: " + name, True, "TranslationError: %s" % e))
    return res


if __name__ == "__main__":
    import sys
    if len(sys.argv) > 1 and sys.argv[1] == "selftest":
        for r in selftest():
            print(r)
    else:
        sys.stdout.write(translate(read_source()))
