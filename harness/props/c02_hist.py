"""C02 — histories: stages that are handed NEW sources (or asked for new copies) WHILE they are consumed.

A case is a list of events run on the real object:
    attach  hand the stage another counted source   (Streamix.add / Stream.append / filter called again /
                                                     ControlStream.value = ...)
    fork    take another copy                       (Stream.copy / iter(StreamTeeHub) / StreamTeeHub.copy)
    ask     one next() on a consumer
After EVERY event the pull counter of EVERY source handed over so far is recorded - right after an `add` /
`append` / `copy` / second call as well as after every request.  The Lean side runs the machines of
ALV/Model/C02Hist.lean (`model`) and the closed forms of ALV/Spec/C02Hist.lean (`spec`), proved equal for
every history (Props C02.12a-g).

Source kinds: `count` (counts only), `trip` (raises when read past what the Lean SPEC allows at that moment:
the allowance is raised before each event to the spec's counter after it, so an `add` that reads raises
inside `add`), `endless` (a mixer event / appended tail that never ends).
"""
import warnings
from fractions import Fraction as F

import common
from common import err_kind


class TripWire(Exception):
    pass


class HSrc(object):
    """counting source; `n=None` endless; `allowed` = items that may be read so far (None: no bound)"""

    def __init__(self, n, salt=0):
        self.n, self.salt, self.count, self.allowed = n, salt, 0, None

    def __iter__(self):
        return self

    def __next__(self):
        if self.n is not None and self.count >= self.n:
            raise StopIteration
        if self.allowed is not None and self.count >= self.allowed:
            raise TripWire("source %d read past the %d item(s) allowed at this moment" % (self.salt, self.allowed))
        if self.count > 5000:
            raise TripWire("runaway: endless source drained")
        self.count += 1
        return (self.count * 7 + self.salt * 3) % 11 + 1

    next = __next__


def _gen(src):
    for x in src:
        yield x


def _wrap(al, how, src):
    return src if how == "raw" else al.Stream(src) if how == "stream" else _gen(src)


ENDLESS = 1000000     # length sent to the model for an endless source

# scenario -> model kind
HOW = {
    "Streamix.add": "mixer",
    "Stream.append": "seq",
    "filter.again:fir": "fan", "filter.again:iir": "fan", "filter.again:cascade": "fan", "filter.again:parallel": "fan",
    "maverage.again": "fan",
    "Stream.copy": "hub", "thub.partial": "hub", "StreamTeeHub.copy": "hub",
    "ControlStream": "control", "ControlStream.op": "control", "ControlStream.map": "control",
    "ControlStream.copy": "control",
}


def _delta(rng):
    r = rng.random()
    if r < .35:
        return "0"
    d = F(rng.randint(0, 16), rng.choice([1, 1, 2, 4]))
    return common.enc(d)


def gen_case(rng, how, nev):
    kind = HOW[how]
    c = {"entry": "hist", "how": how, "smode": rng.choice(["count", "trip", "trip"]), "wrap": rng.choice(["raw", "stream", "gen"])}
    ev = []
    new_len = lambda: None if rng.random() < .12 else rng.choice([0, 1, 2, 3, 5, 8, rng.randint(0, 14)])
    if kind == "mixer":
        c["keep"] = rng.random() < .4
        c["dtype"] = rng.choice(["int", "float", "frac"])
        for _ in range(rng.choice([0, 1, 1, 2])):     # events added before the mixer runs
            ev.append({"e": "attach", "delta": _delta(rng), "len": new_len()})
        while len(ev) < nev:
            if rng.random() < .25:
                ev.append({"e": "attach", "delta": _delta(rng), "len": new_len()})
            else:
                ev += [{"e": "ask", "c": 0}] * rng.choice([1, 1, 2, 3, 6])
    elif kind == "seq":
        ev.append({"e": "attach", "len": new_len()})
        while len(ev) < nev:
            if rng.random() < .25:
                ev.append({"e": "attach", "len": new_len()})
            else:
                ev += [{"e": "ask", "c": 0}] * rng.choice([1, 1, 2, 3, 6])
    elif kind == "fan":
        ev.append({"e": "attach", "len": new_len()})
        n = 1
        while len(ev) < nev:
            if rng.random() < .25:
                ev.append({"e": "attach", "len": new_len()})
                n += 1
            else:
                ev += [{"e": "ask", "c": rng.randrange(n)}] * rng.choice([1, 1, 2, 4])
    elif kind == "hub":
        c["len"] = new_len()
        n = 1
        if how == "Stream.copy":
            while len(ev) < nev:
                if rng.random() < .25:
                    ev.append({"e": "fork", "p": rng.randrange(n)})
                    n += 1
                else:
                    ev += [{"e": "ask", "c": rng.randrange(n)}] * rng.choice([1, 1, 2, 4])
        else:
            # the stream is read directly first (consumer 0), then a hub is put on it: copies only from then on
            ev += [{"e": "ask", "c": 0}] * rng.choice([0, 1, 2, 3, 5])
            ev.append({"e": "fork", "p": 0, "via": "iter"})
            n = 2
            while len(ev) < nev:
                if rng.random() < .3:
                    ev.append({"e": "fork", "p": 0, "via": "copy" if how == "StreamTeeHub.copy" and rng.random() < .7 else "iter"})
                    n += 1
                else:
                    ev += [{"e": "ask", "c": rng.randrange(1, n)}] * rng.choice([1, 1, 2, 4])
    else:
        while len(ev) < nev:
            if rng.random() < .4:
                ev.append({"e": "attach", "len": 0})
            else:
                ev += [{"e": "ask", "c": 0}] * rng.choice([1, 1, 2])
    c["events"] = [dict(e) for e in ev[:nev + 4]]
    return c


def generate(rng, tier, scale=1):
    quick = tier == "quick"
    cases = []
    per = {"mixer": 260, "seq": 60, "fan": 25, "hub": 60, "control": 30}
    for how in sorted(HOW):
        for i in range((per[HOW[how]] if quick else per[HOW[how]] * 8) * scale):
            cases.append(gen_case(rng, how, rng.choice([3, 6, 10, 16] if quick else [3, 6, 10, 16, 40])))
    # the small universe of the class: an event added after a = 0..3 outputs with delta 0 / inside / beyond
    if scale == 1:
        for a in range(4):
            for d in ("0", "1", "2", "5/2", "3", "7/2", "6"):
                for ln in (0, 2, None):
                    for keep in (False, True):
                        cases.append({"entry": "hist", "how": "Streamix.add", "smode": "trip", "wrap": "raw", "keep": keep,
                                      "dtype": "frac", "events": [{"e": "attach", "delta": "0", "len": 9}] +
                                      [{"e": "ask", "c": 0}] * a + [{"e": "attach", "delta": d, "len": ln}] + [{"e": "ask", "c": 0}] * 8})
    return attach_spec(cases)


def _abs_events(c):
    """events for the model: mixer deltas summed up to absolute times; endless = a very long source"""
    out, T = [], F(0)
    for e in c["events"]:
        if e["e"] == "attach":
            if "delta" in e:
                T += F(e["delta"])
            out.append({"e": "attach", "t": common.enc(T), "len": ENDLESS if e.get("len") is None else e["len"]})
        elif e["e"] == "fork":
            out.append({"e": "fork", "p": e["p"]})
        else:
            out.append({"e": "ask", "c": e["c"]})
    return out


def request(c):
    r = {"entry": "hist", "kind": HOW[c["how"]], "events": _abs_events(c)}
    if r["kind"] == "mixer":
        r["keep"] = c["keep"]
    if r["kind"] == "hub":
        r["len"] = ENDLESS if c.get("len") is None else c["len"]
    return r


def attach_spec(cases):
    """ask the Lean SPEC for the counters after every event: they are the allowance of the raising sources"""
    todo = [c for c in cases if c.get("entry") == "hist" and "allow" not in c]
    if not todo:
        return cases
    outs = common.Driver().batch([dict(request(c), id="C02") for c in todo])
    for c, o in zip(todo, outs):
        if "ok" not in o:
            raise common.InfraError("C02 history spec query rejected: %s for %s" % (o, str(c)[:300]))
        c["allow"] = [x["reads"] for x in o["ok"]["spec"]]
    return cases


def _dnum(c, s):
    f = F(s)
    return int(f) if c.get("dtype") == "int" and f.denominator == 1 else float(f) if c.get("dtype") == "float" else f if c.get("dtype") == "frac" else (int(f) if f.denominator == 1 else float(f))


def run(c, al):
    kind = HOW[c["how"]]
    how = c["how"]
    srcs, obs = [], []
    cons = []           # consumers (iterators / streams)
    state = {}

    def mk(n):
        s = HSrc(n, salt=len(srcs))
        srcs.append(s)
        return s

    def allow(i):
        if c["smode"] != "trip":
            return
        vec = c["allow"][i]
        for j, s in enumerate(srcs):
            s.allowed = vec[j] if j < len(vec) else 0

    def ask(itr):
        try:
            next(itr)
            return True
        except StopIteration:
            return False

    if kind == "mixer":
        m = al.Streamix(keep=c["keep"], zero=0)
        state["it"] = iter(m)
    elif kind == "hub":
        base = mk(c.get("len"))
        cons.append(al.Stream(_wrap(al, c["wrap"], base)))
    elif kind == "control":
        cs = al.ControlStream(0)
        state["n"] = 0
        out = cs if how == "ControlStream" else cs + 0 if how == "ControlStream.op" else \
            cs.map(lambda x: x) if how == "ControlStream.map" else cs.copy()
        state["it"] = iter(out)
    elif kind == "fan":
        z = al.z
        if how == "filter.again:fir":
            filt = 1 - z ** -1
        elif how == "filter.again:iir":
            filt = 1 / (1 - F(1, 2) * z ** -1)
        elif how == "filter.again:cascade":
            filt = al.CascadeFilter([1 - z ** -1, 1 + z ** -2])
        elif how == "filter.again:parallel":
            filt = al.ParallelFilter([1 - z ** -1, 1 + z ** -2])
        else:
            filt = al.maverage(3)
    for i, e in enumerate(c["events"]):
        ok = True
        try:
            if e["e"] == "attach":
                src = None
                if kind != "control":
                    src = mk(e.get("len"))
                allow(i)
                if kind == "mixer":
                    m.add(_dnum(c, e["delta"]), _wrap(al, c["wrap"], src))
                elif kind == "seq":
                    if not cons:
                        cons.append(al.Stream(_wrap(al, c["wrap"], src)))
                    else:
                        cons[0].append(_wrap(al, c["wrap"], src))
                elif kind == "fan":
                    cons.append(iter(filt(_wrap(al, c["wrap"], src))))
                else:
                    state["n"] += 1
                    cs.value = state["n"]
            elif e["e"] == "fork":
                allow(i)
                if how == "Stream.copy":
                    cons.append(cons[e["p"]].copy())
                else:
                    if "hub" not in state:
                        nit = sum(1 for x in c["events"] if x["e"] == "fork" and x.get("via") == "iter")
                        state["hub"] = al.thub(cons[0], nit + 1)
                    cons.append(state["hub"].copy() if e.get("via") == "copy" else al.Stream(state["hub"]))
            else:
                allow(i)
                if kind in ("mixer", "control"):
                    if kind == "control":
                        v = next(state["it"])
                        obs.append({"ok": True, "reads": [v]})
                        continue
                    ok = ask(state["it"])
                elif kind == "seq":
                    ok = ask(iter(cons[0]))
                elif kind == "fan":
                    ok = ask(cons[e["c"]])
                else:
                    ok = ask(iter(cons[e["c"]]))
        except Exception as ex:
            obs.append({"err": "OTHER:TripWire" if isinstance(ex, TripWire) else err_kind(ex), "msg": str(ex)[:160],
                        "reads": [s.count for s in srcs]})
            break
        obs.append({"ok": ok, "reads": [] if kind == "control" else [s.count for s in srcs]})
    return {"obs": obs}


def impl(c, al):
    if "allow" not in c:
        attach_spec([c])
    with warnings.catch_warnings():
        warnings.simplefilter("ignore")
        try:
            return run(c, al)
        except Exception as ex:
            return {"err": "harness:" + err_kind(ex), "errmsg": str(ex)[:200]}


def _evname(c, i):
    e = c["events"][i]
    if e["e"] == "attach":
        return "%s(%s%s items)" % ({"mixer": "add", "seq": "append", "fan": "second call", "control": "value="}.get(HOW[c["how"]], "attach"),
                                   ("delta=%s, " % e["delta"]) if "delta" in e else "", "endless" if e.get("len") is None else e["len"])
    return "copy of %d" % e["p"] if e["e"] == "fork" else "next() on consumer %d" % e["c"]


def compare(c, io, drv):
    what = "%s history" % c["how"]
    if "err" in io:
        return [("model", "%s: harness run failed: %s (%s)" % (what, io["err"], io.get("errmsg", "")))]
    out = []
    for which in ("model", "spec"):
        exp = drv[which]
        for i, o in enumerate(io["obs"]):
            nask = sum(1 for e in c["events"][:i + 1] if e["e"] == "ask")
            if "err" in o:
                out.append((which, "%s: event %d %s after %d request(s) raised %s (%s); reads %r, %s allows %r" % (
                    what, i, _evname(c, i), nask, o["err"], o["msg"], o["reads"], which, exp[i]["reads"])))
                break
            if o["ok"] != exp[i]["ok"] or o["reads"] != exp[i]["reads"]:
                out.append((which, "%s: after event %d %s (%d request(s) so far) impl delivered=%r reads=%r, %s delivered=%r reads=%r" % (
                    what, i, _evname(c, i), nask, o["ok"], o["reads"], which, exp[i]["ok"], exp[i]["reads"])))
                break
    return out


def nontrivial(c, io):
    if "obs" not in io:
        return False
    seen_ask = False
    for e, o in zip(c["events"], io["obs"]):
        if e["e"] == "ask" and o.get("ok"):
            seen_ask = True
        elif e["e"] != "ask" and seen_ask:
            return True
    return False


def tally(eng, c, io):
    kind = HOW[c["how"]]
    eng.count("hist_scenario", c["how"])
    eng.count("hist_source_kind", c["smode"])
    eng.count("hist_events", min(len(c["events"]), 20) // 5 * 5)
    asks = 0
    T = F(0)
    for i, e in enumerate(c["events"]):
        if e["e"] == "ask":
            asks += 1
            continue
        eng.count("hist_attach_moment", "%s: %s" % (kind, "before the first request" if asks == 0 else "after %s request(s)" % (asks if asks < 3 else ">=3")))
        if kind == "mixer":
            T += F(e["delta"])
            outs = sum(1 for ee, o in zip(c["events"][:i], io.get("obs", [])) if ee["e"] == "ask" and o.get("ok"))
            ended = any(ee["e"] == "ask" and o.get("ok") is False for ee, o in zip(c["events"][:i], io.get("obs", [])))
            eng.count("mixer_event_start", "mixer already ended" if ended else "not running yet" if asks == 0 else
                      "at once (time passed)" if T - F(1, 2) <= outs else "later (beyond the samples taken)")
            eng.count("mixer_event_source", "endless" if e.get("len") is None else "empty" if e["len"] == 0 else "finite")
    if kind == "mixer":
        eng.count("mixer_keep", c["keep"])
        eng.count("mixer_delta_type", c.get("dtype"))
    obs = io.get("obs", [])
    eng.count("hist_result", "error" if (obs and "err" in obs[-1]) or "err" in io else
              "ended and asked again" if sum(1 for o in obs if o.get("ok") is False) > 1 else
              "ended" if any(o.get("ok") is False for o in obs) else "running")


def shrink(c):
    ev = c["events"]
    base = {k: v for k, v in c.items() if k != "allow"}
    cands = []
    for n in sorted({len(ev) // 2, len(ev) - 1}):
        if 0 < n < len(ev):
            cands.append(dict(base, events=ev[:n]))
    for i, e in enumerate(ev):
        if e["e"] == "ask":
            cands.append(dict(base, events=ev[:i] + ev[i + 1:]))
    if HOW[c["how"]] in ("mixer", "seq"):
        for i, e in enumerate(ev):
            if e["e"] == "attach" and i > 0:
                cands.append(dict(base, events=ev[:i] + ev[i + 1:]))
    if c["smode"] != "count":
        cands.append(dict(base, smode="count"))
    cands = cands[:24]
    try:
        attach_spec(cands)
    except Exception:
        return
    for x in cands:
        yield x


def classify(c, io, drv):
    how = c["how"]
    if "err" in io:
        return "hist:%s:err:%s" % (how, io["err"])
    for i, o in enumerate(io["obs"]):
        exp = drv["model"][i]
        kind = c["events"][i]["e"]
        if "err" in o:
            return "hist:%s:%s:err:%s" % (how, kind, o["err"])
        if o["reads"] != exp["reads"]:
            return "hist:%s:%s:%s" % (how, kind, "over-read" if sum(o["reads"]) > sum(exp["reads"]) else "under-read")
        if o["ok"] != exp["ok"]:
            return "hist:%s:%s:delivery" % (how, kind)
    return "hist:%s:other" % how
