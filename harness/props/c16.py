"""C16 — Streamix (mixer) and ControlStream.

A case is a HISTORY on one object, sent in one driver request:
  streamix: keep, zero, ops = [add(delta, data) | next | keep:=b]*      (entry "streamix")
  control : init, ops = [set v | read]*                                 (entry "control")
The impl is stepped operation by operation; after every step we record what the caller saw
(ok / ValueError / out v / stop) and, for the model tie, len(_not_playing), len(_playing) and
the `count` local of the suspended generator.  Deltas are dyadic rationals of bounded size, so
the impl's float `count` is exact; data are ints / Fractions / dyadic floats: comparison exact.
"""
import itertools
from fractions import Fraction
import common
from common import enc, dec, err_kind
from props import c16x, c16k, c16_tr

ID = "C16"
RULE = ("exhaustive small histories (all op words over {add(d,len), next} up to a length, all batch "
        "event lists over a delta/length grid, keep on/off) plus random long histories with dyadic "
        "deltas, late additions, additions after the end, keep toggles, negative deltas; ControlStream "
        "set/read words.  Histories WITH FAILING OPERATIONS (entry streamix_sys, harness/props/c16x.py): all words "
        "over {good add, add whose iter(data) raises (None / a float / __iter__ raising), negative add, next} "
        "of length 4 (5 thorough) with a failing and a good add, keep on/off; random interleaved histories on "
        "1-3 mixers: failing adds of every kind (None, int, float, exhausted StreamTeeHub -> IndexError, "
        "__iter__ raising 7 exception kinds; with a negative delta too: ValueError wins) before / during "
        "playback / after the end / after a raising read, events with an item the sum cannot take (None, "
        "tuple vs number: TypeError) or whose iterator raises in the middle (7 kinds, StopIteration inside a "
        "generator = RuntimeError), reads continued after the raise, StreamTeeHub copies shared by several "
        "mixers, a closed mixer as the event of another mixer, a ControlStream as an (endless) event with "
        "value assignments (incl. None) between reads, delta spelled int / bool / float / -0.0 / Fraction, "
        "zero spelled int / bool / float / -0.0 / Fraction / huge int / tuple / None / left to the default, "
        "keep spelled bool / int / str / list / None / float, constructor and add called positionally / by "
        "keyword / mixed / with defaults, data as list / tuple / iterator / generator / Stream / deque.  "
        "Before the build the translator (c16_tr.py) rewrites lean/ALV/Gen/C16Src.lean from the source; extra checks: the "
        "translator run on 16 edited copies of the source text (comparison, constants, operand order, in-place sum, handler, "
        "missing reset, stop test, statement order, add validation, defaults, closure reads) must differ or fail, on renamed "
        "locals / changed comments must not, and on the unchanged text must reproduce the committed file.  "
        "non-trivial: at least one sample was delivered with an event playing, or the "
        "stream ended, or an add was rejected / failed, or a read raised (streamix); at least one read after an "
        "assignment (control).  distinct = distinct JSON case")
TRUSTED = [
    "translator harness/props/c16_tr.py (ast of audiolazy/lazy_stream.py -> lean/ALV/Gen/C16Src.lean, regenerated on every "
    "run; theorems src_*_is_model prove the regenerated init / startLoop / sumLoop / removeLoop / next / add / xsumLoop / "
    "xnext / xadd / xaddFail / cinit / cread equal to the hand-written machines).  What the translator trusts: (1) its reading "
    "of a Python generator as a step function: one next() runs from the resumption point to the next yield or to the end "
    "(`break` out of `while True` with nothing behind it), the statements before the loop run once before anything reads "
    "their targets, the statements after the yield run at the resumption; (2) its liveness argument: only the clock local is "
    "live across the yield, the accumulator is assigned (`= zero`) before it is read in every trip, the removal list is [] at "
    "the yield because only the StopIteration handler appends to it and the removal block clears it (checked on the ast, "
    "otherwise TranslationError); (3) the vocabulary mapping: deque() / [] -> empty list, `Q and cond` + `a, b = Q.popleft()` "
    "-> recursion over the head of the queue, list.append -> `++ [x]`, `for v in L` -> recursion over L, `try: data = data + "
    "next(v) except StopIteration: R.append(v)` -> the two match arms on the items the iterator still has (third arm in the "
    "backend with exceptions: any other exception leaves the loop and the generator), list.remove(v) -> removeFirst by "
    "identity, truth of a list -> not isEmpty, `iter(data)` -> a fresh object number (or the exception it raises, before "
    "anything is stored), `raise ValueError` -> .valueError, float literals -> their exact rational value; (4) that the "
    "attributes keep / _playing / _not_playing are touched by nothing but the translated functions and the harness' `keep` "
    "assignment.  Cross-checked: the driver runs the hand-written machines against the real objects on every run, and the "
    "selftest shows the translator sees 16 meaning-changing edits of the source text and ignores renamings / comments",
    "hand-written Lean models of lazy_stream.Streamix / ControlStream: ALV/Model/C16Gen.lean (generator level: "
    "iterator objects with identity, summing pass + to_remove pass with list.remove, count += 1. at the "
    "resumption; this is what the driver runs) proved equivalent to ALV/Model/C16.lean (fused) proved equal to "
    "the spec.  Modelled, not verified: the generator protocol itself, deque, iter(); event data are finite lists",
    "ALV/Model/C16X.lean (what the driver runs for streamix_sys): the same generator-level machine with exceptions — "
    "add tests delta, then evaluates iter(data), then appends; an exception in `data += next(snd)` finishes the "
    "generator and leaves the containers as the loop left them; proved (xrun_eq_view, streamix_x_eq_spec) to show "
    "what the spec shows on the history without the failed adds.  Modelled, not verified: that a Python generator "
    "is finished by an exception passing through it; an event iterator that raised gives nothing more; Python's "
    "`+` on numbers / tuples / None (TypeError table of the driver's XVal)",
    "the `count` observation reads the generator frame local named `count` (skipped when absent)",
    "a StreamTeeHub copy, a Stream, a deque, a generator are seen by the model as the finite list of their items; a "
    "closed inner mixer as the list of what the model says it still yields (driver: drainX); a ControlStream event "
    "as the list of the values it has at the reads of the history, aligned with the spec's start formula "
    "max(ceil(T-1/2), samples delivered) computed in Python (c16x._ctl_items)",
    "entry streamix_sys: the Python type of a sample is checked only for idle samples (the zero value itself) and "
    "float zeros; entry streamix_k checks value AND type of every sample against the machine over PyNum "
    "(ALV/Model/C16K.lean: kind bool < int < Fraction < float < complex, `+` gives the larger kind, at least int; "
    "theorem typed_sample).  Modelled, not verified: that table of Python's numeric coercion; -0.0 is outside it",
    "entry streamix_k: object k of the model = the iterator object the k-th accepted add put into _not_playing "
    "(read back from smix._not_playing[-1][1] right after the add)",
    "entry streamix_mut: a sample is recorded as a snapshot list(v) at the moment it is yielded; the impl is compared "
    "with the spec (zero + items due: the property, theorem mutable_zero_refuted says the current code fails it = known "
    "finding D28) and, when it differs, with the machine with a mutable cell (krun, theorem mutable_zero_accumulates)",
]
ASSUMPTIONS = [
    "deltas and data are exact in binary floating point (dyadic, bounded) in the tie; the theorems are over all rationals",
    "each event's data is a fresh iterable (one iterator object is not added twice — on the real code two entries of "
    "one iterator share its items and `list.remove` drops the first of them; hub copies are independent); "
    "an event's iterator raises at most once and is then finished (generators)",
    "a mixer used as the data of another one has keep off and is not touched afterwards; a ControlStream is added "
    "as an event at most once",
    "ControlStream reads are next()/take()/reads through .map(); peek()/copy() buffer values by design and are outside the property",
    "deltas are finite (inf / nan are accepted by add and block the queue for ever: not in the model); a Stream / "
    "ControlStream as zero (every sample a new Stream object) is outside the model",
]

MANIFEST = {
    "technique": "proof + translator + differential tie: harness/props/c16_tr.py regenerates the generator-level model from the "
                 "source of Streamix.__init__ / data_generator / add and ControlStream on every run (lean/ALV/Gen/C16Src.lean), "
                 "theorems src_*_is_model prove it equal to the hand-written machines the other theorems are about "
                 "(source_streamix_eq_spec: the regenerated machine = the specification, for every history); histories stepped on "
                 "the real objects against the model and the spec",
    "text": "Lean 4 theorems, for every history of add/next/keep operations with arbitrary rational deltas: "
            "generator-level model of Streamix (iterator identities, two-pass removal, count at resumption) = fused "
            "state machine = log-and-closed-formula specification (start max(ceil(T_i - 1/2), moment added), "
            "out n = zero + sum of the items due); count invariant, no drift, termination at max(start_i+len_i), "
            "keep, rejection of negative deltas, no revival, ControlStream last-assigned value.  With exceptions "
            "(ALV/Model/C16X): for every history that also contains adds whose iter(data) raises and items / "
            "additions that raise, the machine shows what the spec shows on the history WITHOUT the failed adds "
            "(a failed add leaves the state unchanged, T_i sums only the deltas of the adds that succeeded), the "
            "first exception in summing order is the one raised, and a raising read finishes the generator.  Round 4: the prune step with identities "
            "(any number of events finishing on one sample: _playing afterwards = the unfinished objects in order, "
            "prune_removes_exactly_finished / playing_after_next), value and Python type of every sample for any zero "
            "(typed_sample, idle_sample_is_zero), a mutable zero (mutable_zero_accumulates / _refuted), the traced runs "
            "(ptrace_is_prun / xtrace_is_xrun).  Tied "
            "to /repo by stepping the real objects through the same histories (outputs, exceptions, StopIteration, "
            "container sizes, the generator frame's count; several mixers, shared StreamTeeHub copies, mixers and "
            "ControlStreams as events, spellings and call shapes) in the exact (dyadic) regime.  Round 5: the generator-level "
            "model is REGENERATED from the source text by a translator (statement by statement: the three inner loops, the "
            "stop test, the resumption, the validation order of add, both with and without exceptions) and proved equal to "
            "the hand-written one (src_*_is_model, 13 theorems), so that source_streamix_eq_spec / source_streamix_x_eq_spec / "
            "source_control_last_value state the property about what the source says now",
    "note": "Trusted: Lean kernel, axioms propext/Classical.choice/Quot.sound, the Python harness incl. the translator's "
            "reading of generators and its vocabulary mapping; the fused machine and the spec are hand "
            "written (event data = finite lists, generator protocol not modelled below the level of one next(); an "
            "exception through the generator finishes it); floating-point rounding of non-dyadic deltas, inf / nan "
            "deltas, one iterator object added twice, an inner mixer operated on after being added, -0.0 and a Stream "
            "as zero are outside the theorems",
}

# ----------------------------------------------------------------------------------------------
# translator (harness/props/c16_tr.py): the model regenerated from the source before every build
# ----------------------------------------------------------------------------------------------
def regenerate(eng=None):
    return c16_tr.regenerate(eng)


def _committed_gen():
    """the Gen file of the last commit, None when git cannot tell"""
    import subprocess
    try:
        r = subprocess.run(["git", "-C", common.VERIF, "show", "HEAD:lean/" + c16_tr.GEN_REL.replace("\\", "/")],
                           capture_output=True, text=True, timeout=30)
        return r.stdout if r.returncode == 0 and r.stdout else None
    except Exception:
        return None


def extra_checks(eng):
    eng.extra["translated"] = {
        "translator": "harness/props/c16_tr.py -> lean/" + c16_tr.GEN_REL,
        "under_translator": c16_tr.TRANSLATED,
        "not_translated": c16_tr.NOT_TRANSLATED,
    }
    try:
        text = c16_tr.read_source()
    except Exception as e:
        yield ("translator-selftest", False, "cannot read the source: %r" % (e,))
        return
    committed = _committed_gen()
    results = {}
    for name, ok, detail in c16_tr.selftest(text, committed):
        if name.endswith("committed-file-reproduced") and committed is None:
            ok, detail = True, "no committed file to compare with (git not available)"
        results[name] = {"ok": ok, "detail": detail}
        yield (name, ok, detail)
    eng.extra["translated"]["selftest"] = results


# ----------------------------------------------------------------------------------------------
# value transport: JSON int | "p/q" plus a kind saying which Python type the impl gets
# ----------------------------------------------------------------------------------------------
def val(j, kind):
    f = dec(j)
    if kind == "float":
        return float(f)
    if kind == "frac":
        return Fraction(f)
    if f.denominator != 1:       # "int" kind but a fraction: keep it exact
        return Fraction(f)
    return int(f)


def container(xs, how):
    if how == "tuple":
        return tuple(xs)
    if how == "iter":
        return iter(xs)
    if how == "gen":
        return (x for x in xs)
    if how == "stream":
        from audiolazy import Stream
        return Stream(list(xs))
    return list(xs)


# ----------------------------------------------------------------------------------------------
# generation
# ----------------------------------------------------------------------------------------------
def _add(delta, data, dk="int", vk="int", c="list"):
    return {"op": "add", "delta": enc(delta), "dk": dk, "data": [enc(x) for x in data], "vk": vk, "c": c}


NEXT = {"op": "next"}


def _drain_len(ops):
    """enough nexts to pass the end of everything that was added (plus the sticky stop)"""
    T = Fraction(0)
    n = 0
    last = 0
    for op in ops:
        if op["op"] == "add":
            d = dec(op["delta"])
            if d >= 0:
                T += d
                last = max(last, max(int(T) + 1, n) + len(op["data"]))
        elif op["op"] == "next":
            n += 1
    return max(0, last - n) + 2


def _case(ops, keep=False, zero=0, zk="int", drain=True, extra=0):
    ops = list(ops)
    if drain:
        ops += [NEXT] * (_drain_len(ops) + extra)
    return {"entry": "streamix", "keep": keep, "zero": enc(zero), "zk": zk, "ops": ops}


def _bits():
    """distinct powers of two: every item is visible in every sum"""
    k = [0]

    def nxt(n):
        r = [1 << (k[0] + i) for i in range(n)]
        k[0] += n
        return r
    return nxt


def _exhaustive(tier):
    cases = []
    H = Fraction(1, 2)
    # (a) batch event lists over a delta x length grid, then drained
    deltas = [Fraction(0), H, Fraction(1), 3 * H, Fraction(2), 5 * H]
    lens = [0, 1, 2]
    for nev in (1, 2):
        for ds in itertools.product(deltas, repeat=nev):
            for ls in itertools.product(lens, repeat=nev):
                for keep in (False, True):
                    b = _bits()
                    ops = [_add(d, b(l), dk=("frac" if d.denominator != 1 else "int")) for d, l in zip(ds, ls)]
                    cases.append(_case(ops, keep=keep))
    if tier != "quick":
        for ds in itertools.product(deltas[:5], repeat=3):
            for ls in itertools.product(lens, repeat=3):
                b = _bits()
                ops = [_add(d, b(l), dk="float") for d, l in zip(ds, ls)]
                cases.append(_case(ops, keep=False, zk="float", zero=0.0))
    # (b) all words over {add(d,len), next} of a fixed length, then drained
    alpha = [("n",)] + [("a", d, l) for d in (Fraction(0), H, Fraction(1), 3 * H) for l in (0, 1, 2)]
    wl = 3 if tier == "quick" else 4
    for w in itertools.product(alpha, repeat=wl):
        if all(x[0] == "n" for x in w):
            continue
        b = _bits()
        ops = [NEXT if x[0] == "n" else _add(x[1], b(x[2]), dk="float") for x in w]
        cases.append(_case(ops, keep=False))
    return cases


def _rand_delta(rng):
    r = rng.random()
    if r < 0.25:
        return rng.choice([0, 0, 1, 2, 3, 5]), "int"
    if r < 0.6:
        return Fraction(rng.randint(0, 12), 2), rng.choice(["float", "frac"])
    if r < 0.85:
        return Fraction(rng.randint(0, 40), rng.choice([4, 8])), rng.choice(["float", "frac"])
    return Fraction(rng.randint(0, 4000), 64), "float"


def _rand_data(rng, vk, bits, n):
    if vk == "int":
        return bits(n) if bits is not None and rng.random() < 0.6 else [rng.randint(-9, 9) for _ in range(n)]
    if vk == "frac":
        return [Fraction(rng.randint(-20, 20), rng.choice([1, 2, 3, 5, 7])) for _ in range(n)]
    return [Fraction(rng.randint(-64, 64), rng.choice([1, 2, 4, 8])) for _ in range(n)]


def _random_seq_history(rng, big):
    """items are one-element tuples, zero a tuple: `+` is concatenation, the summing ORDER is visible"""
    k = [0]

    def items(n):
        k[0] += n
        return list(range(k[0] - n + 1, k[0] + 1))
    ops = []
    p_next = rng.choice([0.0, 0.3, 0.6])
    for _ in range(rng.randint(2, 30 if big else 10)):
        if rng.random() < p_next:
            ops.extend([NEXT] * rng.choice([1, 1, 2, 3]))
        else:
            d, dk = _rand_delta(rng)
            if rng.random() < 0.5:
                d, dk = rng.choice([0, 0, Fraction(1, 2), 1]), "float"
            ops.append(_add(d, items(rng.choice([0, 1, 2, 3, 5, 8])), dk=dk, vk="seq",
                            c=rng.choice(["list", "tuple", "iter", "gen"])))
    c = _case(ops, keep=rng.random() < 0.2, zero=0, zk="seq", drain=True)
    c["entry"] = "streamix_seq"
    c["zero"] = rng.choice([[], [], [0]])
    return c


def _random_decimal_history(rng, big):
    """float regime proper: deltas k/10 given to the impl as Python floats (0.1, 0.7, 2.3 …: not
    exact in binary), to the model as the exact rationals k/10.  Every cumulative time keeps a
    distance >= 1/10 from a half-sample tie, so the rounding of the impl's `count` (~1e-13) cannot
    change a start; `count` itself is compared with a tolerance."""
    ops = []
    T = Fraction(0)
    bits = _bits()
    p_next = rng.choice([0.0, 0.0, 0.4])
    for _ in range(rng.randint(3, 60 if big else 15)):
        if rng.random() < p_next:
            ops.extend([NEXT] * rng.choice([1, 2, 3]))
            continue
        for _try in range(20):
            d = Fraction(rng.choice([1, 1, 2, 3, 3, 7, 9, 11, 23, rng.randint(0, 60)]), 10)
            if (T + d - Fraction(1, 2)).denominator != 1:
                break
        else:
            continue
        T += d
        ops.append(_add(d, bits(rng.choice([0, 1, 2, 3])), dk="float", vk="int"))
    c = _case(ops, keep=False, zero=0, zk="int", drain=True)
    c["tol"] = 1e-9
    return c


def _random_history(rng, big):
    vk = rng.choice(["int", "int", "frac", "float"])
    defaults = rng.random() < 0.1 and vk != "frac"   # Streamix() with its own defaults: keep False, zero 0.
    if defaults:
        zk, zero = "float", 0.0
    elif vk == "float":
        zk, zero = rng.choice([("float", 0.0), ("int", 0), ("float", 0.5), ("int", -3)])
    elif vk == "frac":
        zk, zero = rng.choice([("frac", Fraction(0)), ("int", 0), ("frac", Fraction(2, 3))])
    else:
        zk, zero = rng.choice([("int", 0), ("int", 0), ("float", 0.0), ("frac", Fraction(0)), ("int", 7)])
    keep = rng.random() < 0.3 and not defaults
    bits = _bits() if zk != "float" else None     # sums of distinct powers of two are not exact in a float
    ops = []
    nops = rng.randint(1, 40 if big else 14)
    p_next = rng.choice([0.0, 0.3, 0.6, 0.85])
    for _ in range(nops):
        r = rng.random()
        if r < p_next:
            ops.extend([NEXT] * rng.choice([1, 1, 1, 2, 3, 6]))
        elif r < p_next + 0.04:
            ops.append({"op": "keep", "v": rng.random() < 0.5})
        elif r < p_next + 0.09:
            d = -Fraction(rng.randint(1, 8), rng.choice([1, 2, 4]))
            ops.append(_add(d, _rand_data(rng, vk, bits, rng.randint(0, 3)), dk=rng.choice(["float", "frac"]), vk=vk))
        else:
            d, dk = _rand_delta(rng)
            n = rng.choice([0, 1, 1, 2, 3, 4, 7]) if rng.random() < 0.9 else rng.randint(8, 25)
            ops.append(_add(d, _rand_data(rng, vk, bits, n), dk=dk, vk=vk,
                            c=rng.choice(["list", "list", "tuple", "iter", "gen", "stream"])))
    c = _case(ops, keep=keep, zero=zero, zk=zk, drain=rng.random() < 0.8, extra=rng.choice([0, 0, 1, 3]))
    # life after the end: more adds and nexts once everything was drained
    if rng.random() < 0.35:
        tail = []
        for _ in range(rng.randint(1, 4)):
            d, dk = _rand_delta(rng)
            tail.append(_add(d, _rand_data(rng, vk, bits, rng.randint(0, 3)), dk=dk, vk=vk))
            tail.extend([NEXT] * rng.randint(0, 3))
        if rng.random() < 0.3:
            tail.insert(0, {"op": "keep", "v": rng.random() < 0.5})
        c["ops"] = c["ops"] + tail + [NEXT]
    if defaults:
        c["defaults"] = True
    return c


CPOOL = [0, 1, -3, 7, "a", "bb", None, True, [1, 2], "2.5"]


def _control_cases(rng, tier, scale):
    cases = []
    if scale == 1:
        alpha = [("r",), ("s", 1), ("s", 2)]
        for n in range(1, 6 if tier == "quick" else 8):
            for w in itertools.product(alpha, repeat=n):
                ops = [{"op": "read"} if x[0] == "r" else {"op": "set", "v": x[1]} for x in w]
                cases.append({"entry": "control", "init": 0, "ops": ops, "route": ("next", "take", "map")[n % 3]})
    for _ in range((150 if tier == "quick" else 1500) * scale):
        ops = []
        for _ in range(rng.randint(1, 30)):
            if rng.random() < 0.5:
                ops.append({"op": "read"})
            else:
                ops.append({"op": "set", "v": rng.choice(CPOOL)})
        cases.append({"entry": "control", "init": rng.choice(CPOOL), "ops": ops,
                      "route": rng.choice(["next", "take", "map", "plus"])})
    return cases


def _exact_ok(c):
    """float regime discipline: wherever a float takes part, every number is a small dyadic
    (|x| < 2**20, denominator <= 64) and no Fraction with another denominator is mixed in, so that
    every sum / comparison the impl makes in binary floating point is exact."""
    if c["entry"] == "control":
        return True
    if c["entry"] == "streamix_sys":
        return c16x.valid(c)
    if c["entry"] in ("streamix_k", "streamix_mut"):
        return c16k.valid(c)
    seq = c["entry"] == "streamix_seq"
    Tsum = Fraction(0)
    if c.get("tol") and (c["zk"] != "int" or c.get("defaults")):
        return False
    nums, floaty = ([] if seq else [dec(c["zero"])]), c["zk"] == "float"
    for op in c["ops"]:
        if op["op"] == "add":
            if op.get("vk") == "float":
                floaty = True
            nums.extend(dec(x) for x in op["data"])
            d = dec(op["delta"])          # count is always a float
            if c.get("tol"):              # decimal regime: ints only, no cumulative time on a tie
                if op.get("vk", "int") != "int" or d < 0:
                    return False
                Tsum += d
                if (Tsum - Fraction(1, 2)).denominator == 1 or 10 % d.denominator != 0:
                    return False
            elif abs(d) >= 2 ** 20 or 64 % d.denominator != 0:
                return False
    if not floaty:
        return True
    return all(abs(x) < 2 ** 20 and 64 % x.denominator == 0 for x in nums)


def generate(rng, tier, scale=1):
    cases = _generate(rng, tier, scale)
    bad = [c for c in cases if not _exact_ok(c)]
    assert not bad, "generator left the exact regime: %r" % (bad[0],)
    return cases


def _generate(rng, tier, scale=1):
    cases = []
    if scale == 1:
        cases += _exhaustive(tier)
    nrand = (3000 if tier == "quick" else 40000) * scale
    for i in range(nrand):
        if i % 8 == 3:
            cases.append(_random_seq_history(rng, big=(i % 16 == 3)))
        elif i % 16 == 5:
            cases.append(_random_decimal_history(rng, big=(i % 32 == 5)))
        else:
            cases.append(_random_history(rng, big=(i % 4 == 0)))
    cases += _control_cases(rng, tier, scale)
    # histories with failing operations, several mixers, shared hubs, mixers as events (c16x)
    if scale == 1:
        cases += c16x.exhaustive(tier)
    for i in range((2500 if tier == "quick" else 30000) * scale):
        cases.append(c16x.random_case(rng, big=(i % 4 == 0)))
    # value AND type of every sample, identities in the containers, events finishing together, a mutable zero (c16k)
    cases += c16k.generate(rng, tier, scale)
    return cases


# ----------------------------------------------------------------------------------------------
# the real code
# ----------------------------------------------------------------------------------------------
def _len(obj, name):
    x = getattr(obj, name, None)
    try:
        return len(x)
    except TypeError:
        return None


def _impl_streamix(c):
    from audiolazy import Streamix
    seq = c["entry"] == "streamix_seq"
    if c.get("defaults"):
        smix = Streamix()
    elif seq:
        smix = Streamix(keep=c["keep"], zero=tuple(c["zero"]))
    else:
        smix = Streamix(keep=c["keep"], zero=val(c["zero"], c["zk"]))
    it = iter(smix)
    res = []
    for op in c["ops"]:
        cnt = None
        if op["op"] == "add":
            data = [(x,) for x in op["data"]] if seq else [val(x, op.get("vk", "int")) for x in op["data"]]
            try:
                smix.add(val(op["delta"], op.get("dk", "int")), container(data, op.get("c", "list")))
                o = "ok"
            except Exception as e:
                o = {"err": err_kind(e)}
        elif op["op"] == "next":
            qb = _len(smix, "_not_playing")
            try:
                v = next(it)
                qa = _len(smix, "_not_playing")
                o = {"out": list(v) if seq else enc(v), "started": (qb - qa) if qb is not None and qa is not None else None}
            except StopIteration:
                o = "stop"
            except Exception as e:
                o = {"err": err_kind(e)}
        else:
            smix.keep = op["v"]
            o = "ok"
        fr = getattr(it, "gi_frame", None)       # None once the generator has finished
        if fr is not None and "count" in fr.f_locals:
            try:
                cnt = enc(fr.f_locals["count"])
            except TypeError:
                cnt = None
        res.append([o, _len(smix, "_not_playing"), _len(smix, "_playing"), cnt])
    return {"steps": res}


def _impl_control(c):
    from audiolazy import ControlStream
    cs = ControlStream(c["init"])
    route = c.get("route", "next")
    src = cs
    unwrap = lambda x: x
    if route == "map":
        src = cs.map(lambda x: (x,))
        unwrap = lambda x: x[0]
    elif route == "plus":          # through an elementwise operator (lazy), like the docstring example
        src = cs.map(lambda x: [x]) + [[]] * 1000
        unwrap = lambda x: x[0]
    it = iter(src)
    out = []
    for op in c["ops"]:
        if op["op"] == "set":
            cs.value = op["v"]
            out.append(None)
        else:
            try:
                v = src.take(1)[0] if route == "take" else next(it)
                out.append({"v": unwrap(v)})
            except Exception as e:
                out.append({"err": err_kind(e)})
    return {"reads": out}


def impl(c):
    try:
        if c["entry"] == "control":
            return _impl_control(c)
        if c["entry"] == "streamix_sys":
            return c16x.impl(c)
        if c["entry"] in ("streamix_k", "streamix_mut"):
            return c16k.impl(c)
        return _impl_streamix(c)
    except Exception as e:
        return {"err": err_kind(e)}


def request(c):
    if c["entry"] == "streamix_sys":
        return c16x.request(c)
    if c["entry"] in ("streamix_k", "streamix_mut"):
        return c16k.request(c)
    if c["entry"] == "control":
        return {"entry": "control", "init": c["init"], "ops": c["ops"]}
    ops = []
    for op in c["ops"]:
        if op["op"] == "add":
            ops.append({"op": "add", "delta": op["delta"], "data": op["data"]})
        else:
            ops.append(op)
    return {"entry": c["entry"], "keep": c["keep"], "zero": c["zero"], "ops": ops}


# ----------------------------------------------------------------------------------------------
# comparison
# ----------------------------------------------------------------------------------------------
def _out_eq(x, y, ordered=True):
    if isinstance(x, list) or isinstance(y, list):      # tuple regime
        if not (isinstance(x, list) and isinstance(y, list)):
            return False
        return x == y if ordered else sorted(x) == sorted(y)
    return dec(x) == dec(y)


def _same_obs(a, b, ordered=True):
    """a: impl observation, b: Lean observation (both JSON).  `started` only when the impl exposes it.
    ordered=False (spec side, tuple regime): the property does not fix the order of the sum."""
    if isinstance(a, dict) and isinstance(b, dict):
        if "out" in a and "out" in b:
            if not _out_eq(a["out"], b["out"], ordered):
                return False
            return a.get("started") is None or a["started"] == b["started"]
        return a.get("err") is not None and a.get("err") == b.get("err")
    return a == b


def _first_diff_spec(c, io, drv):
    for k, (st, so) in enumerate(zip(io["steps"], drv["spec"])):
        if not _same_obs(st[0], so, ordered=False):
            return k
    return None


def _first_diff_model(c, io, drv):
    for k, (st, mo) in enumerate(zip(io["steps"], drv["model"])):
        if not _same_obs(st[0], mo[0]):
            return k, "obs"
        if st[1] is not None and st[1] != mo[1]:
            return k, "len(_not_playing)"
        if st[2] is not None and st[2] != mo[2]:
            return k, "len(_playing)"
        if st[3] is not None and mo[3] is not None and not common.close(dec(st[3]), dec(mo[3]), c.get("tol", 0)):
            return k, "count"
    return None


def _lean_reads(xs):
    return xs


def compare(c, io, drv):
    out = []
    if c["entry"] == "streamix_sys":
        return c16x.compare(c, io, drv)
    if c["entry"] in ("streamix_k", "streamix_mut"):
        return c16k.compare(c, io, drv)
    if "err" in io:
        return [("model", "impl raised " + io["err"]), ("spec", "impl raised " + io["err"])]
    if c["entry"] == "control":
        # the driver echoes JSON values; tuples/lists/bools come back as they went
        if io["reads"] != _lean_reads(drv["model"]):
            out.append(("model", "ControlStream reads differ from model: impl=%r model=%r" % (io["reads"], drv["model"])))
        if io["reads"] != _lean_reads(drv["spec"]):
            out.append(("spec", "ControlStream reads are not the last assigned values: impl=%r spec=%r" % (io["reads"], drv["spec"])))
        return out
    if len(io["steps"]) != len(drv["model"]) or len(io["steps"]) != len(drv["spec"]):
        return [("model", "step count differs")]
    d = _first_diff_model(c, io, drv)
    if d is not None:
        k, what = d
        out.append(("model", "step %d (%s): %s differs: impl=%r model=%r" % (k, c["ops"][k]["op"], what, io["steps"][k], drv["model"][k])))
    k = _first_diff_spec(c, io, drv)
    if k is not None:
        out.append(("spec", "step %d (%s): impl=%r spec=%r (spec starts=%r)" % (k, c["ops"][k]["op"], io["steps"][k][0], drv["spec"][k], drv.get("starts"))))
    return out


def nontrivial(c, io):
    if "err" in io:
        return False
    if c["entry"] == "streamix_sys":
        return c16x.nontrivial(c, io)
    if c["entry"] in ("streamix_k", "streamix_mut"):
        return c16k.nontrivial(c, io)
    if c["entry"] == "control":
        seen_set = False
        for op in c["ops"]:
            if op["op"] == "set":
                seen_set = True
            elif seen_set:
                return True
        return False
    for st in io["steps"]:
        o = st[0]
        if o == "stop" or (isinstance(o, dict) and ("err" in o or (st[2] or 0) > 0)):
            return True
    return False


def tally(eng, c, io):
    eng.count("entry", c["entry"])
    if c["entry"] == "streamix_sys":
        return c16x.tally(eng, c, io)
    if c["entry"] in ("streamix_k", "streamix_mut"):
        return c16k.tally(eng, c, io)
    if "err" in io:
        eng.count("impl_error", io["err"])
        return
    if c["entry"] == "control":
        eng.count("control_route", c.get("route", "next"))
        eng.count("control_len", min(len(c["ops"]) // 5 * 5, 30))
        return
    ops = c["ops"]
    nadd = sum(1 for o in ops if o["op"] == "add")
    eng.count("n_events", min(nadd, 12))
    eng.count("n_ops", min(len(ops) // 10 * 10, 100))
    eng.count("keep", c["keep"])
    eng.count("regime", "float-decimal(count tol 1e-9)" if c.get("tol") else "exact")
    if c["entry"] == "streamix_seq":
        eng.count("zero_kind", "tuple" + ("" if not c["zero"] else "-nonempty"))
    else:
        eng.count("zero_kind", c["zk"] + ("" if dec(c["zero"]) == 0 else "-nonzero"))
    seen_next = False
    stopped = False
    half_tie = False
    late = after_end = 0
    T = Fraction(0)
    nouts = 0
    maxp = 0
    started_hist = 0
    for op, st in zip(ops, io["steps"]):
        o = st[0]
        if op["op"] == "add":
            eng.count("delta_kind", op.get("dk", "int"))
            eng.count("data_kind", op.get("vk", "int"))
            eng.count("container", op.get("c", "list"))
            eng.count("event_len", min(len(op["data"]), 8))
            d = dec(op["delta"])
            if isinstance(o, dict):
                eng.count("branch", "add:" + o.get("err", "?"))
            else:
                eng.count("branch", "add:ok")
                T += d
                if (T - Fraction(1, 2)).denominator == 1:
                    half_tie = True
                if T - Fraction(1, 2) <= nouts - 1 and seen_next:
                    late += 1
            if stopped:
                after_end += 1
        elif op["op"] == "next":
            seen_next = True
            if o == "stop":
                eng.count("branch", "next:stop-again" if stopped else "next:stop")
                stopped = True
            elif isinstance(o, dict) and "out" in o:
                nouts += 1
                maxp = max(maxp, st[2] or 0)
                k = o.get("started") or 0
                started_hist = max(started_hist, k)
                eng.count("branch", "next:out-idle" if (st[2] or 0) == 0 and k == 0 else "next:out")
            else:
                eng.count("branch", "next:" + str(o))
        else:
            eng.count("branch", "keep:=%s" % op["v"])
    eng.count("max_simultaneous", min(maxp, 8))
    eng.count("max_started_in_one_step", min(started_hist, 5))
    eng.count("has_half_sample_tie", half_tie)
    eng.count("late_additions", min(late, 5))
    eng.count("adds_after_end", min(after_end, 5))
    eng.count("outputs", min(nouts // 10 * 10, 100))


# ----------------------------------------------------------------------------------------------
# shrinking / neighbours / signatures
# ----------------------------------------------------------------------------------------------
def shrink(c):
    return [x for x in _shrink(c) if _exact_ok(x)]


def neighbours(c):
    return [x for x in _neighbours(c) if _exact_ok(x)]


def _shrink(c):
    if c["entry"] == "streamix_sys":
        for x in c16x.shrink(c):
            yield x
        return
    if c["entry"] in ("streamix_k", "streamix_mut"):
        for x in c16k.shrink(c):
            yield x
        return
    ops = c["ops"]
    if c["entry"] == "control":
        for i in range(len(ops)):
            yield dict(c, ops=ops[:i] + ops[i + 1:])
        if c.get("route") != "next":
            yield dict(c, route="next")
        return
    n = len(ops)
    # cut the history after a prefix, drop one op, drop a run of ops
    for k in (n // 2, n - 1, n - 2, n - 4):
        if 0 < k < n:
            yield dict(c, ops=ops[:k])
    for i in range(n):
        yield dict(c, ops=ops[:i] + ops[i + 1:])
    for i in range(0, n - 3, 2):
        yield dict(c, ops=ops[:i] + ops[i + 3:])
    for i, op in enumerate(ops):
        if op["op"] != "add":
            continue
        data = op["data"]
        if data:
            yield dict(c, ops=ops[:i] + [dict(op, data=data[:-1])] + ops[i + 1:])
            if any(x != 1 for x in data) and c["entry"] == "streamix":
                yield dict(c, ops=ops[:i] + [dict(op, data=[1] * len(data), vk="int")] + ops[i + 1:])
        d = dec(op["delta"])
        for d2 in (Fraction(0), Fraction(int(d)), d - 1, Fraction(int(2 * d), 2)):
            if d2 != d and d2 >= 0 and d >= 0:
                yield dict(c, ops=ops[:i] + [dict(op, delta=enc(d2), dk=("int" if d2.denominator == 1 else op.get("dk", "float")))] + ops[i + 1:])
        if op.get("c", "list") != "list":
            yield dict(c, ops=ops[:i] + [dict(op, c="list")] + ops[i + 1:])
    if c["entry"] == "streamix_seq":
        if c["zero"]:
            yield dict(c, zero=[])
    elif dec(c["zero"]) != 0 or c["zk"] != "int":
        yield dict(c, zero=0, zk="int")
    if c.get("defaults"):
        d = dict(c)
        d.pop("defaults")
        yield d


def _neighbours(c):
    if c["entry"] == "streamix_sys":
        for x in c16x.neighbours(c):
            yield x
        return
    if c["entry"] in ("streamix_k", "streamix_mut"):
        for x in c16k.neighbours(c):
            yield x
        return
    if c["entry"] == "control":
        yield dict(c, ops=c["ops"] + [{"op": "read"}])
        return
    ops = c["ops"]
    yield dict(c, keep=not c["keep"])
    yield dict(c, ops=ops + [NEXT, NEXT])
    H = Fraction(1, 2)
    for i, op in enumerate(ops):
        if op["op"] == "add":
            d = dec(op["delta"])
            for d2 in (d + H, d - H, d + 1, Fraction(int(d)) + H):
                if d2 >= 0:
                    yield dict(c, ops=ops[:i] + [dict(op, delta=enc(d2), dk="float")] + ops[i + 1:])
            yield dict(c, ops=ops[:i] + [dict(op, data=op["data"] + [999 + i])] + ops[i + 1:])
        yield dict(c, ops=ops[:i] + [NEXT] + ops[i:])


def _kind(o):
    if isinstance(o, dict):
        return "out" if "out" in o else "err:" + str(o.get("err"))
    return str(o)


def classify(c, io, drv):
    if c["entry"] == "streamix_sys":
        return c16x.classify(c, io, drv)
    if c["entry"] in ("streamix_k", "streamix_mut"):
        return c16k.classify(c, io, drv)
    if "err" in io:
        return c["entry"] + ":" + io["err"]
    if c["entry"] == "control":
        return "control:read-not-last-assigned"
    k = _first_diff_spec(c, io, drv)
    if k is None:
        d = _first_diff_model(c, io, drv)
        return "streamix:model:%s:%s" % (c["ops"][d[0]]["op"], d[1]) if d else "streamix:none"
    a, b = io["steps"][k][0], drv["spec"][k]
    ka, kb = _kind(a), _kind(b)
    if ka == "out" and kb == "out":
        what = "value" if not _out_eq(a["out"], b["out"], False) else "started"
        return "streamix:%s:out-%s" % (c["ops"][k]["op"], what)
    return "streamix:%s:impl=%s,spec=%s" % (c["ops"][k]["op"], ka, kb)
