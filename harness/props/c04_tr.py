"""C04 — translator of the SOURCE of `LinearFilter.__call__` (audiolazy/lazy_filters.py) into Lean.

T3 (c04.py) compares, case by case, the generator source the method GENERATES with what the Lean `compile` prints.  This
module translates the generator of the generator: it reads the text of `__call__` with `ast` (nothing is imported from the
repo) and writes `lean/ALV/Gen/C04Src.lean` with the statements of the method, in their order, as Lean definitions over the
types of ALV/Model/C04.lean and the vocabulary of ALV/Model/C04SrcVocab.lean:

  numBody / denBody   the `if / elif` chains of the two coefficient loops: tests (operator and constant from the source, in
                      the order of the source), format strings (parsed as the Python expression they produce -> Atom)
  compile             lengths, the two loops folding a state (data_sum, gain), the `len(data_sum) == 0` test, the constant
                      generator, the gain chain (format strings -> Gain), the line templates of the generated generator
                      with their guards and xrange bounds (-> IR.loop nm nd sum gain shifts)
  memoryOf            the memory block (None / callable / takewhile-enumerate / zero_pad)
  call                the two guards with their exceptions, in their order, then lengths, memory, compile, run

`Props/C04.lean` proves `src_compile_is_model`, `src_memoryOf_is_model`, `src_call_is_model` (regenerated = hand-written
model).  The view is the constant-coefficient one (C04's assumption): `isinstance(coeff, Iterable)` and
`isinstance(self.denpoly[0], Stream)` are False, `num_iterables` / `den_iterables` stay empty; the statements of those
branches are checked to have the expected shape (they only touch the *_iterables lists and data_sum) and are C06's.
Every statement of the method is either translated or pinned by its normalised text (`ast.unparse`); anything else is a
TranslationError = broken obligation.  Line templates are also INSTANTIATED by a small evaluator of the string-building
subset (format / join / list comprehension over xrange) for several (la, lb) and the produced generator text is parsed
and compared with what the emitted symbolic definition denotes there; format strings are evaluated with several spellings
of the value ("7", "-7", "7/3", "-7/3", "1e-05") in exact arithmetic, so a template that needs parentheses (D4) is refused."""
import ast
import os
import string
from fractions import Fraction

import common

GEN_REL = os.path.join("ALV", "Gen", "C04Src.lean")
SRC_FILE = "lazy_filters.py"


class TranslationError(Exception):
    pass


def need(cond, msg):
    if not cond:
        raise TranslationError(msg)


def U(node):
    return ast.unparse(node)


def read_text():
    with open(os.path.join(common.REPO, "audiolazy", SRC_FILE)) as f:
        return f.read()


def find_call(text):
    import warnings
    with warnings.catch_warnings():
        warnings.simplefilter("ignore")
        tree = ast.parse(text)
    for node in tree.body:
        if isinstance(node, ast.ClassDef) and node.name == "LinearFilter":
            for sub in node.body:
                if isinstance(sub, ast.FunctionDef) and sub.name == "__call__":
                    return sub
    raise TranslationError("LinearFilter.__call__ not found")


# ---------------------------------------------------------------------------------------------------------------------
# small pieces
# ---------------------------------------------------------------------------------------------------------------------
def int_const(node):
    if isinstance(node, ast.Constant) and type(node.value) is int:
        return node.value
    if isinstance(node, ast.UnaryOp) and isinstance(node.op, ast.USub) and isinstance(node.operand, ast.Constant) \
            and type(node.operand.value) is int:
        return -node.operand.value
    raise TranslationError("integer literal expected: %s" % U(node))


CMP = {ast.Eq: "=", ast.NotEq: "≠", ast.Lt: "<", ast.LtE: "≤", ast.Gt: ">", ast.GtE: "≥"}
PYCMP = {"=": lambda a, b: a == b, "≠": lambda a, b: a != b, "<": lambda a, b: a < b, "≤": lambda a, b: a <= b,
         ">": lambda a, b: a > b, "≥": lambda a, b: a >= b}


def compare(node, lhs_map, field):
    """`<lhs> <op> <int literal>` -> Lean proposition.  lhs_map: unparsed lhs -> Lean term; field: the lhs is a field
    element (constants restricted to 0, 1, -1: all the model's classes provide) or a natural number"""
    need(isinstance(node, ast.Compare) and len(node.ops) == 1, "comparison expected: %s" % U(node))
    lhs = U(node.left)
    need(lhs in lhs_map, "comparison of %r is outside the vocabulary %s" % (lhs, sorted(lhs_map)))
    op = CMP.get(type(node.ops[0]))
    need(op is not None, "comparison operator in %s" % U(node))
    rhs = node.comparators[0]
    if isinstance(rhs, ast.Name) and U(rhs) in lhs_map and not field(lhs):
        return "%s %s %s" % (lhs_map[lhs], op, lhs_map[U(rhs)])
    c = int_const(rhs)
    if field(lhs):
        need(op in ("=", "≠"), "order comparison of a coefficient: %s" % U(node))
        need(c in (0, 1, -1), "coefficient constant %d is outside the vocabulary {0, 1, -1}: %s" % (c, U(node)))
    else:
        need(c >= 0, "negative natural constant: %s" % U(node))
    return "%s %s %d" % (lhs_map[lhs], op, c)


def nat_expr(node, names):
    """index arithmetic over the naturals: names, literals >= 0, + and - (truncated)"""
    if isinstance(node, ast.Name):
        need(node.id in names, "name %r in an index expression (known: %s)" % (node.id, sorted(names)))
        return names[node.id], True
    if isinstance(node, ast.Constant) and type(node.value) is int and node.value >= 0:
        return str(node.value), True
    if isinstance(node, ast.BinOp) and isinstance(node.op, (ast.Add, ast.Sub)):
        l, la = nat_expr(node.left, names)
        r, ra = nat_expr(node.right, names)
        return "%s %s %s" % (l if la else "(%s)" % l, "+" if isinstance(node.op, ast.Add) else "-",
                             r if ra else "(%s)" % r), False
    raise TranslationError("index expression not understood: %s" % U(node))


def nat(node, names):
    return nat_expr(node, names)[0]


def natp(node, names):
    s, atomic = nat_expr(node, names)
    return s if atomic else "(%s)" % s


def xrange_lean(call, names):
    """xrange(hi) / xrange(lo, hi) / xrange(hi, lo, -1) -> Lean list of naturals"""
    need(isinstance(call, ast.Call) and isinstance(call.func, ast.Name) and call.func.id in ("xrange", "range")
         and not call.keywords, "xrange(...) expected: %s" % U(call))
    a = call.args
    if len(a) == 1:
        return "xrangeUp 0 %s" % natp(a[0], names)
    if len(a) == 2:
        return "xrangeUp %s %s" % (natp(a[0], names), natp(a[1], names))
    need(len(a) == 3 and int_const(a[2]) == -1, "xrange step other than -1: %s" % U(call))
    return "xrangeDown %s %s" % (natp(a[0], names), natp(a[1], names))


def chain(node):
    """if / elif / ... -> ([(test, body)], else body)"""
    out = []
    while True:
        out.append((node.test, node.body))
        if len(node.orelse) == 1 and isinstance(node.orelse[0], ast.If):
            node = node.orelse[0]
        else:
            return out, node.orelse


def fmt_call(node):
    """"...".format(k=v, ...) -> (template, {k: node}, [positional nodes])"""
    need(isinstance(node, ast.Call) and isinstance(node.func, ast.Attribute) and node.func.attr == "format"
         and isinstance(node.func.value, ast.Constant) and isinstance(node.func.value.value, str),
         "'...'.format(...) expected: %s" % U(node))
    need(all(k.arg for k in node.keywords), "**kwargs in format")
    return node.func.value.value, {k.arg: k.value for k in node.keywords}, list(node.args)


def fields_of(template):
    return [f for _, f, _, _ in string.Formatter().parse(template) if f is not None]


def pexpr(text):
    try:
        return ast.parse(text.strip(), mode="eval").body
    except SyntaxError as e:
        raise TranslationError("format string does not produce an expression: %r (%s)" % (text, e))


def feval(node, env):
    """exact value of a generated expression (the arithmetic subset of the generated source)"""
    if isinstance(node, ast.Constant) and type(node.value) in (int, float):
        return Fraction(node.value)
    if isinstance(node, ast.Name):
        return env[node.id]
    if isinstance(node, ast.UnaryOp) and isinstance(node.op, (ast.USub, ast.UAdd)):
        v = feval(node.operand, env)
        return -v if isinstance(node.op, ast.USub) else v
    if isinstance(node, ast.BinOp) and isinstance(node.op, (ast.Add, ast.Sub, ast.Mult, ast.Div)):
        l, r = feval(node.left, env), feval(node.right, env)
        return {ast.Add: l + r, ast.Sub: l - r, ast.Mult: l * r, ast.Div: l / r if r else None}[type(node.op)]
    raise TranslationError("generated expression outside + - * /: %s" % U(node))


SPELLINGS = ["7", "-7", "7/3", "-7/3", "1e-05", "2.5"]


def spelled(s):
    return Fraction(s) if "e" not in s and "." not in s else Fraction(float(s))


# ---------------------------------------------------------------------------------------------------------------------
# format strings of the summands and of the gain
# ---------------------------------------------------------------------------------------------------------------------
def atom_of(call, loopvars):
    """data_sum.append("<template>".format(idx=delay[, value=coeff])) -> Lean Atom term"""
    template, kw, pos = fmt_call(call)
    need(not pos, "positional format argument in %s" % U(call))
    delay, coeff = loopvars
    for k, v in kw.items():
        need(isinstance(v, ast.Name) and v.id in loopvars, "format argument %s=%s" % (k, U(v)))
    used = fields_of(template)
    need(set(used) <= set(kw), "format field without argument in %r" % template)
    roles = {k: ("idx" if kw[k].id == delay else "value") for k in kw}
    idxs = [k for k in used if roles[k] == "idx"]
    vals = [k for k in used if roles[k] == "value"]
    need(len(idxs) == 1 and len(vals) <= 1, "summand template %r: one index and at most one value expected" % template)
    sub = {k: ("__I" if roles[k] == "idx" else "__V") for k in kw}
    e = pexpr(template.format(**sub))

    def var(n):
        if isinstance(n, ast.Name) and len(n.id) == 4 and n.id[0] in "dm" and n.id[1:] == "__I":
            return n.id[0]
        return None

    def isv(n):
        return isinstance(n, ast.Name) and n.id == "__V"

    kind = letter = None
    if var(e):
        kind, letter = "var", var(e)
    elif isinstance(e, ast.UnaryOp) and isinstance(e.op, ast.USub) and var(e.operand):
        kind, letter = "neg", var(e.operand)
    elif isinstance(e, ast.BinOp) and isinstance(e.op, ast.Mult) and var(e.right):
        letter = var(e.right)
        if isv(e.left):
            kind = "mul"
        elif isinstance(e.left, ast.UnaryOp) and isinstance(e.left.op, ast.USub) and isv(e.left.operand):
            kind = "negMul"
    need(kind is not None, "summand template %r is outside the Atom vocabulary (v, -v, c * v, -c * v)" % template)
    need((kind in ("mul", "negMul")) == bool(vals), "summand template %r: value field" % template)
    # the template must mean the same for every spelling python's format() gives a number
    for s in SPELLINGS if vals else [None]:
        txt = template.format(**{k: ("1" if roles[k] == "idx" else s) for k in kw})
        x = Fraction(11, 13)
        got = feval(pexpr(txt), {letter + "1": x})
        c = spelled(s) if s else None
        want = {"var": x, "neg": -x, "mul": None if c is None else c * x, "negMul": None if c is None else -c * x}[kind]
        need(got == want, "summand template %r changes its meaning when the value is spelled %r" % (template, s))
    v = "(.%s delay)" % letter   # the loop variables are called delay / coeff in the emitted text whatever the source calls them
    return {"var": "Atom.var ", "neg": "Atom.neg ", "mul": "Atom.mul coeff ", "negMul": "Atom.negMul coeff "}[kind] + v, template


def gain_of(stmt):
    """expr = "<template>".format(expr=expr[, gain=gain]) -> Lean Gain term"""
    need(isinstance(stmt, ast.Assign) and len(stmt.targets) == 1 and U(stmt.targets[0]) == "expr",
         "assignment to expr expected: %s" % U(stmt))
    template, kw, pos = fmt_call(stmt.value)
    need(not pos and all(isinstance(v, ast.Name) and v.id == k for k, v in kw.items()) and set(kw) <= {"expr", "gain"}
         and "expr" in kw, "format arguments of the gain template: %s" % U(stmt))
    used = fields_of(template)
    need(used.count("expr") == 1 and set(used) <= set(kw), "gain template %r" % template)
    e = pexpr(template.format(**{"expr": "__E", "gain": "__G"}))
    ise = lambda n: isinstance(n, ast.Name) and n.id == "__E"
    isg = lambda n: isinstance(n, ast.Name) and n.id == "__G"
    kind = None
    if ise(e):
        kind = "one"
    elif isinstance(e, ast.UnaryOp) and isinstance(e.op, ast.USub) and ise(e.operand):
        kind = "negOne"
    elif isinstance(e, ast.BinOp) and isinstance(e.op, ast.Div) and ise(e.left) and isg(e.right):
        kind = "div"
    need(kind is not None, "gain template %r is outside the Gain vocabulary (e, -(e), (e) / (g))" % template)
    need((kind == "div") == ("gain" in used), "gain template %r: gain field" % template)
    env = {"d0": Fraction(3, 5), "m1": Fraction(-7, 11)}
    total = Fraction(2) * env["d0"] + env["m1"]
    for s in SPELLINGS if kind == "div" else [None]:
        got = feval(pexpr(template.format(**{"expr": "2 * d0 + m1", "gain": s})), env)
        want = {"one": total, "negOne": -total, "div": None if s is None else total / spelled(s)}[kind]
        need(got == want, "gain template %r changes its meaning for the sum '2 * d0 + m1' / the gain spelled %r"
             % (template, s))
    return {"one": "Gain.one", "negOne": "Gain.negOne", "div": "Gain.div st.gain"}[kind], template


# ---------------------------------------------------------------------------------------------------------------------
# evaluator of the string-building subset (used to INSTANTIATE the line templates on sample sizes)
# ---------------------------------------------------------------------------------------------------------------------
def sval(node, env):
    if isinstance(node, ast.Constant) and type(node.value) in (str, int):
        return node.value
    if isinstance(node, ast.Name):
        need(node.id in env, "name %r while instantiating a line template" % node.id)
        return env[node.id]
    if isinstance(node, ast.UnaryOp) and isinstance(node.op, ast.USub):
        v = sval(node.operand, env)
        need(type(v) is int, "unary minus on a non-integer: %s" % U(node))
        return -v
    if isinstance(node, ast.List):
        return [sval(e, env) for e in node.elts]
    if isinstance(node, ast.BinOp) and isinstance(node.op, (ast.Add, ast.Sub)):
        l, r = sval(node.left, env), sval(node.right, env)
        need(type(l) is int and type(r) is int, "arithmetic on non-integers: %s" % U(node))
        return l + r if isinstance(node.op, ast.Add) else l - r
    if isinstance(node, ast.Compare) and len(node.ops) == 1 and type(node.ops[0]) in CMP:
        l, r = sval(node.left, env), sval(node.comparators[0], env)
        need(type(l) is int and type(r) is int, "comparison of non-integers: %s" % U(node))
        return PYCMP[CMP[type(node.ops[0])]](l, r)
    if isinstance(node, ast.BoolOp):
        vals = [bool(sval(v, env)) for v in node.values]
        return any(vals) if isinstance(node.op, ast.Or) else all(vals)
    if isinstance(node, (ast.ListComp, ast.GeneratorExp)):
        need(len(node.generators) == 1 and not node.generators[0].ifs and isinstance(node.generators[0].target, ast.Name),
             "comprehension shape: %s" % U(node))
        g = node.generators[0]
        out = []
        for x in sval(g.iter, env):
            out.append(sval(node.elt, dict(env, **{g.target.id: x})))
        return out
    if isinstance(node, ast.Call) and isinstance(node.func, ast.Name) and node.func.id in ("xrange", "range"):
        args = [sval(a, env) for a in node.args]
        need(all(type(a) is int for a in args) and not node.keywords, "xrange arguments: %s" % U(node))
        return list(range(*args))
    if isinstance(node, ast.Call) and isinstance(node.func, ast.Name) and node.func.id == "len" and len(node.args) == 1:
        return len(sval(node.args[0], env))
    if isinstance(node, ast.Call) and isinstance(node.func, ast.Attribute) and node.func.attr in ("format", "join"):
        base = sval(node.func.value, env)
        need(isinstance(base, str), "%s of a non-string" % node.func.attr)
        if node.func.attr == "join":
            need(len(node.args) == 1 and not node.keywords, "join arguments")
            items = sval(node.args[0], env)
            need(all(isinstance(i, str) for i in items), "join of non-strings")
            return base.join(items)
        return base.format(*[sval(a, env) for a in node.args], **{k.arg: sval(k.value, env) for k in node.keywords})
    raise TranslationError("string-building expression not understood: %s" % U(node)[:100])


def srun(stmts, env):
    """statements of the source-building block: assignments, `+=` on lists, `.extend`, if / elif / else"""
    for s in stmts:
        if isinstance(s, ast.Assign) and len(s.targets) == 1 and isinstance(s.targets[0], ast.Name):
            env[s.targets[0].id] = sval(s.value, env)
        elif isinstance(s, ast.AugAssign) and isinstance(s.op, ast.Add) and isinstance(s.target, ast.Name):
            v = sval(s.value, env)
            need(isinstance(v, list) and isinstance(env.get(s.target.id), list), "`+=` on a non-list: %s" % U(s))
            env[s.target.id] = env[s.target.id] + v
        elif isinstance(s, ast.Expr) and isinstance(s.value, ast.Call) and isinstance(s.value.func, ast.Attribute) \
                and s.value.func.attr == "extend" and isinstance(s.value.func.value, ast.Name):
            env[s.value.func.value.id] = env[s.value.func.value.id] + list(sval(s.value.args[0], env))
        elif isinstance(s, ast.If):
            srun(s.body if sval(s.test, env) else s.orelse, env)
        else:
            raise TranslationError("statement of the source-building block not understood: %s" % U(s)[:100])
    return env


def parse_generated(lines):
    """text of a generated generator -> ("const", yielded name) | ("loop", params, nm, nd, expr name, shifts)"""
    try:
        mod = ast.parse("\n".join(lines))
    except SyntaxError as e:
        raise TranslationError("the instantiated templates are not python: %s" % e)
    need(len(mod.body) == 1 and isinstance(mod.body[0], ast.FunctionDef) and mod.body[0].name == "gen",
         "generated text is not one function `gen`")
    fn = mod.body[0]
    params = [a.arg for a in fn.args.args]
    body = list(fn.body)
    need(body and isinstance(body[-1], ast.For) and not body[-1].orelse and U(body[-1].iter) == params[0],
         "generated function does not end with `for ... in %s`" % params[0])
    loop = body.pop()

    def var(n, letter=None):
        if isinstance(n, ast.Name) and n.id[0] in "dm" and n.id[1:].isdigit() and (letter is None or n.id[0] == letter):
            return (n.id[0], int(n.id[1:]))
        raise TranslationError("variable of the generated source: %s" % U(n))

    if len(loop.body) == 1:
        y = loop.body[0]
        need(not body and isinstance(y, ast.Expr) and isinstance(y.value, ast.Yield) and isinstance(y.value.value, ast.Name),
             "constant generator shape")
        return ("const", params, y.value.value.id)
    nm = nd = 0
    for s in body:
        need(isinstance(s, ast.Assign), "statement before the loop: %s" % U(s))
        if len(s.targets) == 1 and isinstance(s.targets[0], ast.Tuple):
            need(U(s.value) == params[1] and nm == 0 and nd == 0, "tuple unpacking: %s" % U(s))
            idx = [var(t, "m")[1] for t in s.targets[0].elts]
            need(idx == list(range(1, len(idx) + 1)), "memory is unpacked into %s" % U(s.targets[0]))
            nm = len(idx)
        else:
            need(U(s.value) == params[2] and nd == 0, "chained assignment: %s" % U(s))
            idx = [var(t, "d")[1] for t in s.targets]
            need(idx == list(range(1, len(idx) + 1)), "zero is assigned to %s" % [U(t) for t in s.targets])
            nd = len(idx)
    need(U(loop.target) == "d0", "loop variable %s" % U(loop.target))
    lb = loop.body
    need(len(lb) >= 2 and isinstance(lb[0], ast.Assign) and U(lb[0].targets[0]) == "m0" and len(lb[0].targets) == 1,
         "first statement of the loop: %s" % U(lb[0]))
    need(isinstance(lb[1], ast.Expr) and isinstance(lb[1].value, ast.Yield) and U(lb[1].value.value) == "m0",
         "second statement of the loop: %s" % U(lb[1]))
    shifts = []
    for s in lb[2:]:
        need(isinstance(s, ast.Assign) and len(s.targets) == 1, "shift statement: %s" % U(s))
        shifts.append((var(s.targets[0]), var(s.value)))
    return ("loop", params, nm, nd, U(lb[0].value), shifts)


# ---------------------------------------------------------------------------------------------------------------------
# the method, statement by statement
# ---------------------------------------------------------------------------------------------------------------------
ERR = {"ValueError": "Err.valueError", "ZeroDivisionError": "Err.zeroDivision"}
POLY = {"self.numpoly": "num", "self.denpoly": "den"}
NAT = {"la": "la", "lb": "lb", "lm": "lm", "actual_len": "actual_len"}


def raised(body):
    need(len(body) == 1 and isinstance(body[0], ast.Raise) and isinstance(body[0].exc, ast.Call)
         and isinstance(body[0].exc.func, ast.Name), "a single `raise X(...)` expected: %s" % U(body[0])[:80])
    name = body[0].exc.func.id
    need(name in ERR, "exception %s is outside the model's Err" % name)
    return ERR[name]


def pin(stmt, text):
    need(U(stmt) == text, "statement changed (expected `%s`): `%s`" % (text, U(stmt)[:160]))


def guard_any(stmt):
    need(isinstance(stmt, ast.If) and not stmt.orelse, "guard expected: %s" % U(stmt)[:80])
    t = stmt.test
    need(isinstance(t, ast.Call) and U(t.func) == "any" and len(t.args) == 1 and isinstance(t.args[0], ast.GeneratorExp),
         "any(<generator>) expected: %s" % U(t))
    g = t.args[0]
    need(len(g.generators) == 1 and not g.generators[0].ifs and U(g.generators[0].target) == "(key, value)",
         "generator of the causality test: %s" % U(g))
    it_ = g.generators[0].iter
    need(isinstance(it_, ast.Call) and U(it_.func) in ("it.chain", "chain") and not it_.keywords, "chain(...) expected")
    parts = []
    for a in it_.args:
        need(isinstance(a, ast.Call) and isinstance(a.func, ast.Attribute) and a.func.attr == "terms" and not a.args
             and U(a.func.value) in POLY, "chain argument %s" % U(a))
        parts.append(POLY[U(a.func.value)])
    need(parts, "empty chain")
    cond = compare(g.elt, {"key": "kv.1"}, lambda l: False)
    lst = " ++ ".join(parts)
    return "(%s).any (fun kv => decide (%s))" % (lst, cond), raised(stmt.body)


def guard_gain(stmt):
    need(isinstance(stmt, ast.If) and not stmt.orelse, "guard expected: %s" % U(stmt)[:80])
    t = stmt.test
    need(isinstance(t, ast.Compare) and len(t.ops) == 1 and type(t.ops[0]) in (ast.Eq, ast.NotEq)
         and isinstance(t.left, ast.Subscript) and U(t.left.value) in POLY, "gain test: %s" % U(t))
    k = int_const(t.left.slice)
    c = int_const(t.comparators[0])
    need(c == 0, "gain compared with %d" % c)
    return "coefAt %s %d %s 0" % (POLY[U(t.left.value)], k, CMP[type(t.ops[0])]), raised(stmt.body)


def lengths(s4, s5):
    need(isinstance(s4, ast.Assign) and isinstance(s4.targets[0], ast.Tuple) and isinstance(s4.value, ast.Tuple)
         and len(s4.targets[0].elts) == len(s4.value.elts), "tuple assignment of the lengths: %s" % U(s4))
    out = []
    for t, v in zip(s4.targets[0].elts, s4.value.elts):
        need(U(v) in ("len(self.denominator)", "len(self.numerator)") and isinstance(t, ast.Name) and t.id in ("la", "lb"),
             "length assignment %s = %s" % (U(t), U(v)))
        out.append((t.id, "a" if "denominator" in U(v) else "b"))
    need(sorted(n for n, _ in out) == ["la", "lb"], "la and lb expected")
    need(isinstance(s5, ast.Assign) and U(s5.targets[0]) == "lm", "lm = ... expected: %s" % U(s5))
    return out, nat(s5.value, {"la": "la", "lb": "lb"})


def memory_block(stmt):
    need(isinstance(stmt, ast.If) and U(stmt.test) == "memory is None", "`if memory is None` expected: %s" % U(stmt.test))
    need(len(stmt.body) == 1 and isinstance(stmt.body[0], ast.Assign) and U(stmt.body[0].targets[0]) == "memory"
         and isinstance(stmt.body[0].value, ast.ListComp), "memory = [... for ...] expected")
    lc = stmt.body[0].value
    need(len(lc.generators) == 1 and not lc.generators[0].ifs and isinstance(lc.elt, ast.Name) and lc.elt.id == "zero"
         and isinstance(lc.generators[0].target, ast.Name) and lc.generators[0].target.id != "zero",
         "default memory %s" % U(lc))
    out = ["  if isNone memory then (%s).map (fun _ => zero)" % xrange_lean(lc.generators[0].iter, NAT), "  else"]
    e = stmt.orelse
    need(len(e) == 5, "memory block: 5 statements expected in the else branch, found %d" % len(e))
    # 1. callable
    s = e[0]
    need(isinstance(s, ast.If) and not s.orelse and len(s.body) == 1 and U(s.test) == "not isinstance(memory, Iterable)",
         "callable test: %s" % U(s.test))
    a = s.body[0]
    need(isinstance(a, ast.Assign) and U(a.targets[0]) == "memory" and isinstance(a.value, ast.Call)
         and U(a.value.func) == "memory" and len(a.value.args) == 1 and not a.value.keywords, "memory = memory(...): %s" % U(a))
    out.append("    let memory := if !(isIterable memory) then callMem memory %s else memory" % natp(a.value.args[0], NAT))
    # 2. + 3. takewhile over enumerate, comprehension
    s = e[1]
    need(isinstance(s, ast.Assign) and U(s.targets[0]) == "tw" and isinstance(s.value, ast.Call)
         and U(s.value.func) in ("it.takewhile", "takewhile") and len(s.value.args) == 2
         and U(s.value.args[1]) == "enumerate(memory)" and isinstance(s.value.args[0], ast.Lambda), "tw = takewhile(...): %s" % U(s))
    lam = s.value.args[0]
    need(len(lam.args.args) == 1 and isinstance(lam.body, ast.Compare) and len(lam.body.ops) == 1
         and U(lam.body.left) == "%s[0]" % lam.args.args[0].arg and type(lam.body.ops[0]) in (ast.Lt, ast.LtE),
         "takewhile predicate %s" % U(lam))
    fn = "takewhileIdxLt" if isinstance(lam.body.ops[0], ast.Lt) else "takewhileIdxLe"
    pin(e[2], "memory = [data for idx, data in tw]")
    out.append("    let memory := %s %s memory" % (fn, natp(lam.body.comparators[0], NAT)))
    pin(e[3], "actual_len = len(memory)")
    out.append("    let actual_len := memory.length")
    # 5. padding
    s = e[4]
    need(isinstance(s, ast.If) and not s.orelse and len(s.body) == 1, "padding test")
    cond = compare(s.test, NAT, lambda l: False)
    a = s.body[0]
    need(isinstance(a, ast.Assign) and U(a.targets[0]) == "memory" and isinstance(a.value, ast.Call) and U(a.value.func) == "list"
         and len(a.value.args) == 1, "memory = list(zero_pad(...)): %s" % U(a))
    z = a.value.args[0]
    need(isinstance(z, ast.Call) and U(z.func) == "zero_pad" and len(z.args) == 2 and U(z.args[0]) == "memory"
         and len(z.keywords) == 1 and z.keywords[0].arg == "zero" and U(z.keywords[0].value) == "zero", "zero_pad call: %s" % U(z))
    out.append("    if %s then zeroPad memory %s zero else memory" % (cond, natp(z.args[1], NAT)))
    return out


def coef_loop(stmt, which, info):
    """for delay, coeff in iteritems(self.<which>dict): if/elif chain -> Lean body function"""
    need(isinstance(stmt, ast.For) and not stmt.orelse and isinstance(stmt.target, ast.Tuple) and len(stmt.target.elts) == 2
         and all(isinstance(t, ast.Name) for t in stmt.target.elts), "coefficient loop header: %s" % U(stmt)[:80])
    need(U(stmt.iter) == "iteritems(self.%sdict)" % which, "loop over %s (expected iteritems(self.%sdict))" % (U(stmt.iter), which))
    delay, coeff = (t.id for t in stmt.target.elts)
    need(len(stmt.body) == 1 and isinstance(stmt.body[0], ast.If), "the loop body is one if / elif chain")
    branches, orelse = chain(stmt.body[0])
    need(not orelse, "else branch in the coefficient chain")
    lhs = {delay: "delay", coeff: "coeff"}
    lines, first = [], True
    for test, body in branches:
        if U(test) == "isinstance(%s, Iterable)" % coeff:
            # constant-coefficient view: never taken; it may only touch <which>_iterables and data_sum (C06)
            need(len(body) == 2 and U(body[0]) == "%s_iterables.append(%s)" % (which, delay)
                 and isinstance(body[1], ast.Expr) and U(body[1].value.func) == "data_sum.append",
                 "stream-coefficient branch of the %s loop changed: %s" % (which, "; ".join(U(b) for b in body)[:160]))
            info["stream_branches"].append(U(body[1]))
            continue
        cond = compare(test, lhs, lambda l: l == coeff)
        need(len(body) == 1, "branch `%s` has %d statements" % (U(test), len(body)))
        s = body[0]
        if isinstance(s, ast.Assign):
            need(U(s.targets[0]) == "gain" and len(s.targets) == 1 and U(s.value) == coeff, "assignment in the chain: %s" % U(s))
            upd = "{ st with gain := coeff }"
        else:
            need(isinstance(s, ast.Expr) and isinstance(s.value, ast.Call) and U(s.value.func) == "data_sum.append"
                 and len(s.value.args) == 1, "statement in the chain: %s" % U(s))
            atom, template = atom_of(s.value.args[0], (delay, coeff))
            info["templates"].append(template)
            upd = "{ st with data_sum := st.data_sum ++ [%s] }" % atom
        lines.append("  %sif %s then %s" % ("" if first else "else ", cond, upd))
        first = False
    need(lines, "no branch left in the %s chain" % which)
    lines.append("  else st")
    # local names of the source are normalised to delay / coeff
    text = "\n".join(lines)
    return text, (delay, coeff)


def gen_block(stmt, names_env, info):
    """if len(data_sum) == 0: <constant generator> else: <loop generator>  -> Lean lines of `compile` after the loops"""
    need(isinstance(stmt, ast.If) and stmt.orelse, "`if len(data_sum) ...: ... else: ...` expected")
    cond = compare(stmt.test, {"len(data_sum)": "st.data_sum.length"}, lambda l: False)
    # --- constant generator: instantiate and parse
    env = srun(stmt.body, {"zero": "__Z"})
    need("gen_func" in env, "the then-branch does not build gen_func")
    k = parse_generated(env["gen_func"])
    need(k[0] == "const" and k[2] == "__Z" and k[1] == ["seq", "memory", "zero"], "constant generator: %r" % (k,))
    out = ["  if %s then IR.constLoop zero" % cond, "  else"]
    # --- loop generator: the gain chain, the templates with their guards and ranges
    blk = list(stmt.orelse)
    need(len(blk) >= 3, "else branch too short")
    pin(blk[0], "expr = ' + '.join(data_sum)")
    need(isinstance(blk[1], ast.If), "gain chain expected after the join")
    branches, orelse = chain(blk[1])
    need(not orelse, "else branch in the gain chain")
    gl = []
    for i, (test, body) in enumerate(branches):
        c = compare(test, {"gain": "st.gain"}, lambda l: True)
        need(len(body) == 1, "gain branch with %d statements" % len(body))
        g, template = gain_of(body[0])
        info["templates"].append(template)
        gl.append("%sif %s then %s" % ("" if i == 0 else "      else ", c, g))
    gl.append("      else Gain.one")
    out.append("    let g := " + "\n".join(gl))
    # symbolic reading of the guarded templates
    nm = nd = "0"
    shifts = []
    for s in blk[2:]:
        if isinstance(s, ast.If) and not s.orelse and len(s.body) == 1 and isinstance(s.body[0], ast.AugAssign) \
                and isinstance(s.test, ast.Compare):
            c = compare(s.test, NAT, lambda l: False)
            xr = [n for n in ast.walk(s.body[0]) if isinstance(n, ast.Call) and isinstance(n.func, ast.Name)
                  and n.func.id in ("xrange", "range")]
            need(len(xr) == 1, "one xrange expected in %s" % U(s)[:100])
            one = srun([s.body[0]], {"gen_func": [], "la": 3, "lb": 3, "lm": 2})["gen_func"]
            need(len(one) == 1, "guarded template gives %d lines" % len(one))
            txt = one[0].strip()
            val = "(if %s then (%s).length else 0)" % (c, xrange_lean(xr[0], NAT))
            if txt.endswith("= memory"):
                nm = val
            elif txt.endswith("= zero"):
                nd = val
            else:
                raise TranslationError("guarded line template %r" % one[0])
        elif isinstance(s, ast.AugAssign) and isinstance(s.value, ast.ListComp):
            lc = s.value
            need(len(lc.generators) == 1 and not lc.generators[0].ifs and isinstance(lc.generators[0].target, ast.Name),
                 "shift comprehension %s" % U(lc)[:100])
            v = lc.generators[0].target.id
            template, kw, pos = fmt_call(lc.elt)
            need(not pos, "positional format argument in a shift template")
            names = dict(NAT, **{v: "idx"})
            a = pexpr_stmt(template.format(**{k: "__%s" % k for k in kw}))
            need(isinstance(a, ast.Assign) and len(a.targets) == 1 and isinstance(a.targets[0], ast.Name)
                 and isinstance(a.value, ast.Name), "shift template %r" % template)

            def side(n):
                need(n.id[0] in "dm" and n.id[1:3] == "__" and n.id[3:] in kw, "shift template %r: %s" % (template, n.id))
                return "Var.%s %s" % (n.id[0], natp(kw[n.id[3:]], names))
            shifts.append("(%s).map (fun idx => (%s, %s))" % (xrange_lean(lc.generators[0].iter, NAT), side(a.targets[0]),
                                                              side(a.value)))
            info["templates"].append(template)
    need(shifts, "no shift template found")
    out.append("    IR.loop %s %s st.data_sum g" % (nm, nd))
    out.append("      (" + "\n        ++ ".join(shifts) + ")")
    # --- instantiate the whole else-branch on sample sizes and compare with what the emitted text denotes there
    # (the gain chain is left out: it is translated symbolically above, `expr` stays the joined sum)
    rest = [blk[0]] + blk[2:]
    for la, lb in ((1, 1), (2, 1), (1, 2), (3, 4), (4, 2), (2, 2), (1, 0)):
        lmv = twin_nat(names_env["lm"], la, lb)
        env = srun(rest, {"data_sum": ["__S", "__T"], "la": la, "lb": lb, "lm": lmv, "num_iterables": [], "den_iterables": [],
                          "zero": "__Z"})
        k = parse_generated(env["gen_func"])
        need(k[0] == "loop" and k[1] == ["seq", "memory", "zero"], "loop generator for la=%d lb=%d: %r" % (la, lb, k))
        want = denote(nm, nd, shifts, la, lb, lmv)
        need((k[2], k[3], k[5]) == want, "line templates instantiated at la=%d lb=%d give (nm, nd, shifts) = %r, the "
             "emitted definition denotes %r" % (la, lb, (k[2], k[3], k[5]), want))
        need(k[4] == "__S + __T", "the loop line computes m0 = %s from the joined sum `__S + __T`" % k[4])
    return out


def pexpr_stmt(text):
    try:
        m = ast.parse(text.strip())
    except SyntaxError as e:
        raise TranslationError("line template does not produce a statement: %r (%s)" % (text, e))
    need(len(m.body) == 1, "line template %r gives %d statements" % (text, len(m.body)))
    return m.body[0]


# python twin of the few Lean forms emitted for sizes (only used for the sample cross-check above)
def twin_nat(expr, la, lb, **more):
    env = dict(la=la, lb=lb, **more)
    toks = expr.replace("(", " ( ").replace(")", " ) ").split()

    def parse(i):
        v, i = atom(i)
        while i < len(toks) and toks[i] in "+-":
            w, j = atom(i + 1)
            v = v + w if toks[i] == "+" else max(0, v - w)
            i = j
        return v, i

    def atom(i):
        if toks[i] == "(":
            v, j = parse(i + 1)
            return v, j + 1
        return (int(toks[i]) if toks[i].isdigit() else env[toks[i]]), i + 1
    return parse(0)[0]


def twin_range(text, env):
    """'xrangeUp A B' / 'xrangeDown A B' with A, B atoms or parenthesised nat expressions"""
    kind, rest = text.split(" ", 1)
    parts, depth, cur = [], 0, ""
    for ch in rest:
        if ch == " " and depth == 0:
            if cur:
                parts.append(cur)
            cur = ""
            continue
        depth += ch == "("
        depth -= ch == ")"
        cur += ch
    parts.append(cur)
    a, b = (twin_nat(p, env["la"], env["lb"], lm=env["lm"]) for p in parts)
    return list(range(a, b)) if kind == "xrangeUp" else list(range(a, b, -1))


def denote(nm, nd, shifts, la, lb, lm):
    env = {"la": la, "lb": lb, "lm": lm}

    def size(text):
        if text == "0":
            return 0
        c, xr = text[len("(if "):-len(").length else 0)")].split(" then (")
        l, op, r = c.split(" ")
        val = lambda t: int(t) if t.isdigit() else env[t]
        return len(twin_range(xr, env)) if PYCMP[op](val(l), val(r)) else 0
    sh = []
    for s in shifts:
        xr, f = s[1:].split(").map (fun idx => (")
        lhs, rhs = f[:-2].split(", ")
        for idx in twin_range(xr, env):
            def v(t):
                letter, e = t[len("Var."):].split(" ", 1)
                return (letter, twin_nat(e, la, lb, lm=lm, idx=idx))
            sh.append((v(lhs), v(rhs)))
    return size(nm), size(nd), sh


def translate(text):
    fn = find_call(text)
    need([a.arg for a in fn.args.args] == ["self", "seq", "memory", "zero"] and not fn.args.vararg and not fn.args.kwarg
         and not fn.args.kwonlyargs, "parameters of __call__: %s" % [a.arg for a in fn.args.args])
    body = list(fn.body)
    if body and isinstance(body[0], ast.Expr) and isinstance(body[0].value, ast.Constant) and isinstance(body[0].value.value, str):
        body.pop(0)  # docstring
    need(len(body) == 17, "__call__ has %d statements after the docstring, the translator knows 17" % len(body))
    info = {"templates": [], "stream_branches": []}
    g1 = guard_any(body[0])
    s = body[1]   # time-varying gain: constant view, never taken; must leave through a return
    need(isinstance(s, ast.If) and not s.orelse and U(s.test) == "isinstance(self.denpoly[0], Stream)"
         and isinstance(s.body[-1], ast.Return), "stream-gain guard changed: %s" % U(s.test))
    g2 = guard_gain(body[2])
    lens, lm = lengths(body[3], body[4])
    mem = memory_block(body[5])
    pin(body[6], "data_sum = []")
    pin(body[7], "num_iterables = []")
    num_text, _ = coef_loop(body[8], "num", info)
    pin(body[9], "den_iterables = []")
    den_text, _ = coef_loop(body[10], "den", info)
    gen = gen_block(body[11], {"lm": lm}, info)
    pin(body[12], "gen = _exec_eval('\\n'.join(gen_func), 'gen')")
    s = body[13]
    need(isinstance(s, ast.Assign) and U(s.targets[0]) == "arguments" and isinstance(s.value, ast.List)
         and len(s.value.elts) == 3, "arguments = [...]: %s" % U(s))
    need(U(s.value.elts[0]) == "iter(seq)" and all(isinstance(e, ast.Name) for e in s.value.elts[1:]),
         "arguments of the generated generator: %s" % U(s.value))
    run_args = "%s %s seq" % (s.value.elts[1].id, s.value.elts[2].id)
    pin(body[14], "arguments.extend((iter(self.numpoly[idx]) for idx in num_iterables))")
    pin(body[15], "arguments.extend((iter(self.denpoly[idx]) for idx in den_iterables))")
    pin(body[16], "return Stream(gen(*arguments))")

    L = ["/- GENERATED by harness/props/c04_tr.py from audiolazy/lazy_filters.py (`LinearFilter.__call__`, read with `ast`;",
         "   constant-coefficient view: `isinstance(coeff, Iterable)` and `isinstance(self.denpoly[0], Stream)` are False).",
         "   Do not edit: rewritten on every check. -/",
         "import ALV.Model.C04SrcVocab",
         "set_option linter.unusedVariables false",
         "namespace ALV.Gen.C04",
         "open ALV.C04 ALV.C04.Py",
         "variable {α : Type}",
         "",
         "section compile",
         "variable [Neg α] [OfNat α 0] [OfNat α 1] [DecidableEq α]",
         "",
         "/-- body of `for delay, coeff in iteritems(self.numdict)` -/",
         "def numBody (delay : Nat) (coeff : α) (st : St α) : St α :=",
         num_text,
         "",
         "/-- body of `for delay, coeff in iteritems(self.dendict)` -/",
         "def denBody (delay : Nat) (coeff : α) (st : St α) : St α :=",
         den_text,
         "",
         "/-- the source text `__call__` builds, for dense numerator `b` and denominator `a` -/",
         "def compile (b a : List α) (zero : α) : IR α :="]
    for n, v in lens:
        L.append("  let %s := %s.length" % (n, v))
    L += ["  let lm := %s" % lm,
          "  let st : St α := ⟨[], 0⟩",
          "  let st := forItems numBody 0 b st",
          "  let st := forItems denBody 0 a st"]
    L += gen
    L += ["",
          "end compile",
          "",
          "/-- the memory list `__call__` builds from its `memory` argument -/",
          "def memoryOf (zero : α) (lm : Nat) (memory : Mem α) : List α :="]
    L += mem
    L += ["",
          "section call",
          "variable [Add α] [Mul α] [Sub α] [Neg α] [Div α] [OfNat α 0] [OfNat α 1] [DecidableEq α]",
          "",
          "/-- `LinearFilter.__call__(self, seq, memory, zero)` for constant coefficients -/",
          "def call (num den : Terms α) (memory : Mem α) (zero : α) (seq : List α) : Except Err (List α) :=",
          "  if %s then .error %s" % g1,
          "  else if %s then .error %s" % g2,
          "  else",
          "    let a := dense den",
          "    let b := dense num"]
    for n, v in lens:
        L.append("    let %s := %s.length" % (n, v))
    L += ["    let lm := %s" % lm,
          "    let memory := memoryOf zero lm memory",
          "    .ok (evalIR (compile b a zero) %s)" % run_args,
          "",
          "end call",
          "",
          "end ALV.Gen.C04",
          ""]
    return "\n".join(L), info


TRANSLATED = {
    "LinearFilter.__call__ / coefficient loops (numdict, dendict: if-elif chains, format strings)":
        "shallow: ALV.Gen.C04.numBody, denBody folded by forItems (src_numLoop_is_model, src_denLoop_is_model)",
    "LinearFilter.__call__ / generator text (len(data_sum) == 0 test, constant generator, gain chain, line templates, xrange bounds)":
        "shallow: ALV.Gen.C04.compile (src_compile_is_model)",
    "LinearFilter.__call__ / memory block (None, callable, takewhile-enumerate, zero_pad)":
        "shallow: ALV.Gen.C04.memoryOf (src_memoryOf_is_model)",
    "LinearFilter.__call__ / guards (non-causal -> ValueError, a[0] == 0 -> ZeroDivisionError), order of the steps, arguments of the run":
        "shallow: ALV.Gen.C04.call (src_call_is_model, src_call_eq_spec, src_call_refuses)",
}
NOT_TRANSLATED = {
    "LinearFilter.__init__ / ZFilter.__init__ (normalise the denominator to delay 0)":
        "uses Poly arithmetic (`Poly([0, 1]) ** -power`, `*=`): the meaning is in Poly (C07), not in the statement shapes; hand model "
        "`normalise` tied by sampling and proved against the spec (normalise_spec)",
    "LinearFilterProperties.numlist / denlist / numdict / dendict (dense lists, term dictionaries)":
        "Poly.values() / Poly.terms() semantics (C07); vocabulary mapping `iteritems(self.numdict)` -> positions of the dense list is trusted",
    "stream-coefficient branches, time-varying gain branch, try/except StopIteration variant of the loop line":
        "C06 (constant-coefficient view: their tests are False); their shape is checked, their meaning is not translated here",
    "_exec_eval / semantics of the generated generator (evalIR)":
        "python's exec of the generated text: hand-written interpreter evalIR, tied per case by T3 + I/O",
    "memory read through an iterator (items pulled: readMem)":
        "iterator protocol of takewhile / enumerate: hand model ALV/Model/C04Mem.lean, tied by the memread family",
}


def regenerate(eng=None):
    path = os.path.join(common.LEAN, GEN_REL)
    try:
        text, info = translate(read_text())
    except Exception:
        try:
            import subprocess
            good = subprocess.run(["git", "-C", common.VERIF, "show", "HEAD:lean/" + GEN_REL.replace(os.sep, "/")],
                                  capture_output=True, text=True, timeout=30)
            if good.returncode == 0 and good.stdout and (not os.path.exists(path) or open(path).read() != good.stdout):
                with open(path, "w") as f:
                    f.write(good.stdout)
        except Exception:
            pass
        raise
    if eng is not None:
        eng.extra["translated"] = {"by": "harness/props/c04_tr.py -> lean/ALV/Gen/C04Src.lean", "translated": TRANSLATED,
                                   "not_translated": NOT_TRANSLATED, "format_strings_read": info["templates"],
                                   "stream_branches_seen_not_translated": info["stream_branches"]}
    old = open(path).read() if os.path.exists(path) else None
    if old != text:
        os.makedirs(os.path.dirname(path), exist_ok=True)
        with open(path, "w") as f:
            f.write(text)
        return "rewritten (%d bytes)" % len(text)
    return "unchanged (%d bytes)" % len(text)


# ---------------------------------------------------------------------------------------------------------------------
# self-test: edits of the source text the translator must see
# ---------------------------------------------------------------------------------------------------------------------
EDITS = [
    ("swap a comparison", "      elif coeff == -1:\n        data_sum.append(\"m{idx}\"", "      elif coeff != -1:\n        data_sum.append(\"m{idx}\""),
    ("change a constant", "      elif coeff == 1:\n        data_sum.append(\"d{idx}\"", "      elif coeff == 2:\n        data_sum.append(\"d{idx}\""),
    ("sign of a format string", "data_sum.append(\"-m{idx}\".format(idx=delay))", "data_sum.append(\"m{idx}\".format(idx=delay))"),
    ("reorder two branches", "      elif coeff == -1:\n        data_sum.append(\"m{idx}\".format(idx=delay))\n      elif coeff == 1:\n        data_sum.append(\"-m{idx}\".format(idx=delay))",
     "      elif coeff == 1:\n        data_sum.append(\"-m{idx}\".format(idx=delay))\n      elif coeff == -1:\n        data_sum.append(\"m{idx}\".format(idx=delay))"),
    ("drop the parentheses of the gain (D4)", "\"({expr}) / ({gain})\"", "\"({expr}) / {gain}\""),
    ("gain by multiplication", "\"({expr}) / ({gain})\"", "\"({expr}) * ({gain})\""),
    ("gain test", "      if gain == -1:", "      if gain == 1:"),
    ("null-filter test", "if len(data_sum) == 0:", "if len(data_sum) <= 1:"),
    ("shift off by one", "for idx in xrange(lm, 0, -1)]", "for idx in xrange(lm - 1, 0, -1)]"),
    ("shift source", "\"    d{idx} = d{idxold}\".format(idx=idx, idxold=idx - 1)", "\"    d{idx} = d{idxold}\".format(idx=idx, idxold=idx)"),
    ("reorder yield and shifts", "      gen_func += [\"    yield m0\"]\n      gen_func += [\"    m{idx} = m{idxold}\".format(idx=idx, idxold=idx - 1)\n                   for idx in xrange(lm, 0, -1)]",
     "      gen_func += [\"    m{idx} = m{idxold}\".format(idx=idx, idxold=idx - 1)\n                   for idx in xrange(lm, 0, -1)]\n      gen_func += [\"    yield m0\"]"),
    ("memory size", "    lm = la - 1 # Memory size", "    lm = la # Memory size"),
    ("takewhile bound", "lambda pair: pair[0] < lm", "lambda pair: pair[0] <= lm"),
    ("padding side", "zero_pad(memory, lm - actual_len, zero=zero)", "zero_pad(memory, 0, lm - actual_len, zero=zero)"),
    ("guards swapped in meaning", "raise ValueError(\"Non-causal filter\")\n    if isinstance", "raise ZeroDivisionError(\"Non-causal filter\")\n    if isinstance"),
    ("causality test", "if any(key < 0 for key, value in it.chain(self.numpoly.terms(),", "if any(key <= 0 for key, value in it.chain(self.numpoly.terms(),"),
    ("causality test on one polynomial", "it.chain(self.numpoly.terms(),\n                                              self.denpoly.terms())", "it.chain(self.numpoly.terms())"),
    ("arguments swapped", "arguments = [iter(seq), memory, zero]", "arguments = [iter(seq), zero, memory]"),
    ("default memory", "memory = [zero for unused in xrange(lm)]", "memory = [zero for unused in xrange(la)]"),
]
HARMLESS = [
    ("comment and blank lines", "    # Lengths\n", "    # the lengths of both lists\n\n"),
    ("quotes and spacing", "data_sum.append(\"d{idx}\".format(idx=delay))", "data_sum.append( 'd{idx}'.format( idx = delay ) )"),
    ("docstring", "    IIR, FIR and time variant linear filtering.", "    Filtering."),
]


def selftest(eng=None):
    """(name, ok, detail) items for extra_checks"""
    text = read_text()
    path = os.path.join(common.LEAN, GEN_REL)
    try:
        base, _ = translate(text)
    except Exception as e:
        yield ("translator-selftest", False, "the source as it is does not translate: %s" % e)
        return
    committed = None
    try:
        import subprocess
        r = subprocess.run(["git", "-C", common.VERIF, "show", "HEAD:lean/" + GEN_REL.replace(os.sep, "/")],
                           capture_output=True, text=True, timeout=30)
        committed = r.stdout if r.returncode == 0 else None
    except Exception:
        pass
    on_disk = open(path).read() if os.path.exists(path) else None
    yield ("translator-reproduces-Gen-file", base == on_disk and (committed is None or committed == base or common.REPO != "/repo"),
           "translation of the unchanged source differs from lean/%s (%s)" % (GEN_REL, "disk" if base != on_disk else "HEAD"))
    blind, missing, seen = [], [], {}
    for name, old, new in EDITS:
        if old not in text:
            missing.append(name)
            continue
        try:
            out, _ = translate(text.replace(old, new, 1))
            seen[name] = "different text"
            if out == base:
                blind.append(name)
        except TranslationError as e:
            seen[name] = "TranslationError: " + str(e)[:90]
    # on a scratch copy whose source was edited, an anchor text may be gone: then the edit is not applicable there
    ok = not blind and (not missing or common.REPO != "/repo")
    if eng is not None:
        eng.extra.setdefault("translated", {})["selftest_edits"] = seen
    yield ("translator-selftest(%d edits)" % len(EDITS), ok, "edits not seen: %r; anchors missing: %r" % (blind, missing))
    noisy = []
    for name, old, new in HARMLESS:
        if old not in text:
            continue
        try:
            if translate(text.replace(old, new, 1))[0] != base:
                noisy.append(name)
        except TranslationError as e:
            noisy.append("%s: %s" % (name, e))
    yield ("translator-normalises-harmless-rewrites(%d)" % len(HARMLESS), not noisy, "changed by: %r" % (noisy,))
